(* Protobuf wire format (google.golang.org/protobuf/encoding/protowire, internal/impl/decode.go):
   base-128 varints, tags, the four scalar wire types, a generic field-list encoder/decoder, and
   Go's utf8.Valid.  Definitions only; lemmas live in proofs/Varint_proofs.v. *)
From Coq Require Import List NArith Bool.
From MevVerif Require Import lib.Bytes.
Import ListNotations.
Open Scope N_scope.

Definition two64 : N := 18446744073709551616.

(* --- varint -------------------------------------------------------------------------- *)
(* protowire.AppendVarint for v < 2^64: at most 10 bytes *)
Fixpoint varint_enc_n (fuel : nat) (v : N) : bytes :=
  match fuel with
  | O => []
  | S k => if v <? 128 then [v] else (128 + v mod 128) :: varint_enc_n k (v / 128)
  end.
Definition varint_enc (v : N) : bytes := varint_enc_n 10 v.

(* protowire.ConsumeVarint: at most 10 bytes, the tenth must be 0 or 1 (64-bit overflow),
   non-minimal spellings are accepted.  [n] = bytes still allowed. *)
Fixpoint varint_dec_n (n : nat) (l : bytes) : option (N * bytes) :=
  match n with
  | O => None
  | S k =>
      match l with
      | [] => None
      | b :: r =>
          if b <? 128 then
            (match k with O => if 1 <? b then None else Some (b, r) | S _ => Some (b, r) end)
          else
            match varint_dec_n k r with
            | Some (v, r') => Some ((b - 128) + 128 * v, r')
            | None => None
            end
      end
  end.
Definition varint_dec (l : bytes) : option (N * bytes) := varint_dec_n 10 l.

(* --- fields --------------------------------------------------------------------------- *)
Inductive wval := WVarint (v : N) | WI64 (b : bytes) | WLen (b : bytes) | WI32 (b : bytes).
Definition field := (N * wval)%type.

Definition wtype (w : wval) : N :=
  match w with WVarint _ => 0 | WI64 _ => 1 | WLen _ => 2 | WI32 _ => 5 end.

Definition max_field_num : N := 536870911.    (* protowire.MaxValidNumber = 2^29 - 1 *)

Definition len_of (b : bytes) : N := N.of_nat (length b).

Definition enc_tag (num wt : N) : bytes := varint_enc (8 * num + wt).
Definition enc_len (b : bytes) : bytes := varint_enc (len_of b) ++ b.
Definition enc_val (w : wval) : bytes :=
  match w with
  | WVarint v => varint_enc v
  | WI64 b => b
  | WLen b => enc_len b
  | WI32 b => b
  end.
Definition enc_field (f : field) : bytes := enc_tag (fst f) (wtype (snd f)) ++ enc_val (snd f).
Fixpoint enc_fields (fs : list field) : bytes :=
  match fs with [] => [] | f :: r => enc_field f ++ enc_fields r end.

(* a field list that an encoder may produce *)
Definition wf_val (w : wval) : Prop :=
  match w with
  | WVarint v => v < two64
  | WI64 b => length b = 8%nat
  | WLen b => len_of b < two64
  | WI32 b => length b = 4%nat
  end.
Definition wf_field (f : field) : Prop := 1 <= fst f /\ fst f <= max_field_num /\ wf_val (snd f).

(* take exactly n bytes *)
Definition take (n : nat) (l : bytes) : option (bytes * bytes) :=
  if Nat.ltb (length l) n then None else Some (firstn n l, skipn n l).

(* one field at message level (impl.unmarshalPointer with groupTag = 0):
   FBad   = the decoder returns an error (bad varint, field number 0 or above 2^29-1, truncated
            value, reserved wire types 6/7, an end-group tag outside a group);
   FGroup = a start-group tag: skipping groups is not modelled (outside the claim). *)
Inductive fres := FOk (f : field) (rest : bytes) | FBad | FGroup.

Definition dec_field (l : bytes) : fres :=
  match varint_dec l with
  | None => FBad
  | Some (tag, r) =>
      let num := tag / 8 in
      let wt := tag mod 8 in
      if (num =? 0) || (max_field_num <? num) then FBad
      else if wt =? 0 then
        match varint_dec r with Some (v, r') => FOk (num, WVarint v) r' | None => FBad end
      else if wt =? 1 then
        match take 8 r with Some (b, r') => FOk (num, WI64 b) r' | None => FBad end
      else if wt =? 2 then
        match varint_dec r with
        | Some (n, r') =>
            if len_of r' <? n then FBad
            else FOk (num, WLen (firstn (N.to_nat n) r')) (skipn (N.to_nat n) r')
        | None => FBad
        end
      else if wt =? 5 then
        match take 4 r with Some (b, r') => FOk (num, WI32 b) r' | None => FBad end
      else if wt =? 3 then FGroup
      else FBad
  end.

Inductive wres := WFields (fs : list field) | WBad | WGroupSeen.

Fixpoint dec_fields_n (fuel : nat) (l : bytes) : wres :=
  match l with
  | [] => WFields []
  | _ :: _ =>
      match fuel with
      | O => WBad
      | S k =>
          match dec_field l with
          | FBad => WBad
          | FGroup => WGroupSeen
          | FOk f rest =>
              match dec_fields_n k rest with
              | WFields fs => WFields (f :: fs)
              | r => r
              end
          end
      end
  end.
Definition dec_fields (l : bytes) : wres := dec_fields_n (length l) l.

(* --- Go's unicode/utf8.Valid ------------------------------------------------------------- *)
Definition in_range (lo hi b : N) : bool := (lo <=? b) && (b <=? hi).
Definition cont (b : N) : bool := in_range 128 191 b.

Fixpoint utf8_valid (l : bytes) : bool :=
  match l with
  | [] => true
  | b0 :: r =>
      if b0 <? 128 then utf8_valid r
      else if b0 <? 194 then false
      else if b0 <? 224 then
        match r with
        | b1 :: r' => cont b1 && utf8_valid r'
        | _ => false
        end
      else if b0 <? 240 then
        match r with
        | b1 :: b2 :: r' =>
            (if b0 =? 224 then in_range 160 191 b1
             else if b0 =? 237 then in_range 128 159 b1
             else cont b1) && cont b2 && utf8_valid r'
        | _ => false
        end
      else if b0 <? 245 then
        match r with
        | b1 :: b2 :: b3 :: r' =>
            (if b0 =? 240 then in_range 144 191 b1
             else if b0 =? 244 then in_range 128 143 b1
             else cont b1) && cont b2 && cont b3 && utf8_valid r'
        | _ => false
        end
      else false
  end.
