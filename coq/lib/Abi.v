(* Solidity contract-ABI argument encoding and decoding, as go-ethereum v1.13 accounts/abi
   performs it (Arguments.Pack / Arguments.Unpack / ABI.Unpack), for argument lists made of
   uint64, uint256, address, string and bytes.  Definitions only; lemmas (round trip, lengths,
   alignment) live in proofs/Abi_proofs.v.  Shared by C11 (registry reads/writes) and C07
   (storeCommitment calldata).

   Conventions: [None] is "the library returned an error".  Nothing here panics in Go for the
   types covered: every slice expression of unpack.go is preceded by the bounds test that is
   reproduced here. *)
From Coq Require Import String List NArith Bool.
From MevVerif Require Import lib.Bytes.
Import ListNotations.
Open Scope N_scope.

Inductive ty := TUint64 | TUint256 | TAddress | TString | TBytes.

Inductive val :=
| VUint64 (n : N)
| VUint256 (n : N)
| VAddress (a : bytes)      (* 20 bytes *)
| VString (s : bytes)
| VBytes (b : bytes).

Definition ty_of (v : val) : ty :=
  match v with
  | VUint64 _ => TUint64 | VUint256 _ => TUint256 | VAddress _ => TAddress
  | VString _ => TString | VBytes _ => TBytes
  end.

Definition is_dynamic (t : ty) : bool :=
  match t with TString | TBytes => true | _ => false end.

Definition ty_eqb (a b : ty) : bool :=
  match a, b with
  | TUint64, TUint64 | TUint256, TUint256 | TAddress, TAddress | TString, TString | TBytes, TBytes => true
  | _, _ => false
  end.

Definition val_eqb (a b : val) : bool :=
  match a, b with
  | VUint64 m, VUint64 n => m =? n
  | VUint256 m, VUint256 n => m =? n
  | VAddress m, VAddress n => bytes_eqb m n
  | VString m, VString n => bytes_eqb m n
  | VBytes m, VBytes n => bytes_eqb m n
  | _, _ => false
  end.

Fixpoint vals_eqb (a b : list val) : bool :=
  match a, b with
  | [], [] => true
  | u :: a', v :: b' => val_eqb u v && vals_eqb a' b'
  | _, _ => false
  end.

Definition two63 : N := 9223372036854775808.
Definition two64 : N := 18446744073709551616.
Definition two256 : N :=
  115792089237316195423570985008687907853269984665640564039457584007913129639936.

(* the values a Go caller can pass for each type *)
Definition val_ok (v : val) : Prop :=
  match v with
  | VUint64 n => n < two64
  | VUint256 n => n < two256
  | VAddress a => length a = 20%nat /\ wf_bytes a
  | VString s => wf_bytes s
  | VBytes b => wf_bytes b
  end.

Definition val_okb (v : val) : bool :=
  match v with
  | VUint64 n => n <? two64
  | VUint256 n => n <? two256
  | VAddress a => (N.of_nat (length a) =? 20) && wf_bytesb a
  | VString s => wf_bytesb s
  | VBytes b => wf_bytesb b
  end.

Definition blen (b : bytes) : N := N.of_nat (length b).
Definition zeros (n : nat) : bytes := repeat 0 n.

(* --- signatures and selectors ------------------------------------------------------------ *)
Definition ty_name (t : ty) : bytes :=
  match t with
  | TUint64 => bos "uint64" | TUint256 => bos "uint256" | TAddress => bos "address"
  | TString => bos "string" | TBytes => bos "bytes"
  end.

Definition comma : N := 44.
Definition lparen : N := 40.
Definition rparen : N := 41.

(* Method.Sig: name(type1,type2,...) *)
Definition method_sig (name : bytes) (tys : list ty) : bytes :=
  name ++ lparen :: join comma (map ty_name tys) ++ [rparen].

(* Method.ID: the first four bytes of the Keccak-256 digest of the signature; the hash
   function is an argument *)
Definition selector (keccak : bytes -> bytes) (sig : bytes) : bytes := firstn 4 (keccak sig).

(* --- encoding (type.pack, Arguments.Pack) ----------------------------------------------------- *)
Definition pad_len (n : N) : N := (32 - n mod 32) mod 32.

(* head word of a static value: U256Bytes for integers, LeftPadBytes(addr, 32) *)
Definition enc_static (v : val) : bytes :=
  match v with
  | VUint64 n => be 32 n
  | VUint256 n => be 32 n
  | VAddress a => zeros (32 - length a) ++ a
  | VString _ | VBytes _ => []
  end.

(* packBytesSlice: length word, then the bytes right-padded to a multiple of 32 *)
Definition enc_dyn (b : bytes) : bytes :=
  be 32 (blen b) ++ b ++ zeros (N.to_nat (pad_len (blen b))).

(* tail contribution of one argument *)
Definition enc_tail (v : val) : bytes :=
  match v with
  | VString s => enc_dyn s
  | VBytes b => enc_dyn b
  | _ => []
  end.

Fixpoint enc_tails (args : list val) : bytes :=
  match args with
  | [] => []
  | v :: r => enc_tail v ++ enc_tails r
  end.

(* heads: static values in place, dynamic ones as the running offset of their tail *)
Fixpoint enc_heads (args : list val) (off : N) : bytes :=
  match args with
  | [] => []
  | v :: r =>
      (if is_dynamic (ty_of v) then be 32 off else enc_static v)
        ++ enc_heads r (off + blen (enc_tail v))
  end.

Definition encode (args : list val) : bytes :=
  enc_heads args (32 * N.of_nat (length args)) ++ enc_tails args.

(* ABI.Pack(name, args...) : selector ++ arguments *)
Definition encode_call (keccak : bytes -> bytes) (name : bytes) (args : list val) : bytes :=
  selector keccak (method_sig name (map ty_of args)) ++ encode args.

(* --- decoding (unpack.go) ------------------------------------------------------------------ *)
(* d[start : start+len], [None] when out of range *)
Definition slice (d : bytes) (start len : N) : option bytes :=
  if start + len <=? blen d
  then Some (firstn (N.to_nat len) (skipn (N.to_nat start) d))
  else None.

(* lengthPrefixPointsTo: returns (start, length) of the payload *)
Definition length_prefix_points_to (index : N) (d : bytes) : option (N * N) :=
  match slice d index 32 with
  | None => None
  | Some w =>
      let off_end := unbe w + 32 in
      if blen d <? off_end then None
      else if two63 <=? off_end then None
      else match slice d (off_end - 32) 32 with
           | None => None
           | Some lw =>
               let len := unbe lw in
               let total := off_end + len in
               if two63 <=? total then None
               else if blen d <? total then None
               else Some (off_end, len)
           end
  end.

(* toGoType(index, t, output) *)
Definition to_go_type (index : N) (t : ty) (d : bytes) : option val :=
  if blen d <? index + 32 then None
  else
    match t with
    | TString =>
        match length_prefix_points_to index d with
        | Some (b, l) => option_map VString (slice d b l)
        | None => None
        end
    | TBytes =>
        match length_prefix_points_to index d with
        | Some (b, l) => option_map VBytes (slice d b l)
        | None => None
        end
    | TUint64 =>
        match slice d index 32 with
        | Some w => if unbe w <? two64 then Some (VUint64 (unbe w)) else None
        | None => None
        end
    | TUint256 => option_map (fun w => VUint256 (unbe w)) (slice d index 32)
    | TAddress => option_map (fun w => VAddress (skipn 12 w)) (slice d index 32)
    end.

(* Arguments.UnpackValues: argument number i is read at head position 32*i *)
Fixpoint decode_from (i : N) (tys : list ty) (d : bytes) : option (list val) :=
  match tys with
  | [] => Some []
  | t :: r =>
      match to_go_type (32 * i) t d with
      | None => None
      | Some v => option_map (cons v) (decode_from (i + 1) r d)
      end
  end.

(* Arguments.Unpack *)
Definition decode (tys : list ty) (d : bytes) : option (list val) :=
  match d with
  | [] => match tys with [] => Some [] | _ => None end
  | _ => decode_from 0 tys d
  end.

(* ABI.Unpack(method, d) for a method whose outputs are [tys] *)
Definition unpack_output (tys : list ty) (d : bytes) : option (list val) :=
  if blen d mod 32 =? 0 then decode tys d else None.

(* return data of a method with the single output uint256: the length must be a non-zero
   multiple of 32; the first word is the value (later words are ignored) *)
Definition decode_uint256 (d : bytes) : option N :=
  match unpack_output [TUint256] d with
  | Some [VUint256 v] => Some v
  | _ => None
  end.

(* calldata: the four selector bytes, then Method.Inputs.Unpack(data[4:]) *)
Definition decode_call (tys : list ty) (d : bytes) : option (bytes * list val) :=
  match d with
  | a :: b :: c :: e :: rest => option_map (pair [a; b; c; e]) (decode tys rest)
  | _ => None
  end.
