(* Shared byte-level vocabulary: bytes are [N] values below 256, strings are byte lists.
   Definitions only; lemmas live in proofs/Bytes_proofs.v. *)
From Coq Require Import List NArith ZArith Bool Ascii String.
Import ListNotations.
Open Scope N_scope.

Definition byte := N.
Definition bytes := list N.

Definition wf_bytes (l : bytes) : Prop := Forall (fun b => b < 256) l.
Definition wf_bytesb (l : bytes) : bool := forallb (fun b => b <? 256) l.

Fixpoint bytes_eqb (a b : bytes) : bool :=
  match a, b with
  | [], [] => true
  | x :: a', y :: b' => (x =? y) && bytes_eqb a' b'
  | _, _ => false
  end.

(* text literal -> bytes (used for constants coming from source text) *)
Fixpoint bytes_of_string (s : string) : bytes :=
  match s with
  | EmptyString => []
  | String c r => N_of_ascii c :: bytes_of_string r
  end.
Definition bos (s : string) : bytes := bytes_of_string s.
Arguments bos s%string.

(* --- hexadecimal ---------------------------------------------------------------- *)
Definition hex_digit (n : N) : N :=          (* lowercase, as Go's hex.EncodeToString *)
  if n <? 10 then 48 + n else 87 + n.
Definition hex_val (c : N) : option N :=     (* as Go's hex.DecodeString: both cases *)
  if (48 <=? c) && (c <=? 57) then Some (c - 48)
  else if (97 <=? c) && (c <=? 102) then Some (c - 87)
  else if (65 <=? c) && (c <=? 70) then Some (c - 55)
  else None.
Fixpoint hex (l : bytes) : bytes :=
  match l with
  | [] => []
  | b :: r => hex_digit (b / 16) :: hex_digit (b mod 16) :: hex r
  end.
Fixpoint unhex (l : bytes) : option bytes :=
  match l with
  | [] => Some []
  | h :: lo :: r =>
      match hex_val h, hex_val lo, unhex r with
      | Some a, Some b, Some t => Some (16 * a + b :: t)
      | _, _, _ => None
      end
  | _ => None
  end.
(* literal helper for generated case files: x "0aff" ; malformed literal -> [] (never
   produced by the printer, which only prints hex.EncodeToString output) *)
Definition x (s : string) : bytes :=
  match unhex (bytes_of_string s) with Some b => b | None => [] end.
Arguments x s%string.

(* --- decimal -------------------------------------------------------------------- *)
Definition is_digit (c : N) : bool := (48 <=? c) && (c <=? 57).
Definition all_digits (l : bytes) : bool := forallb is_digit l.
(* value of a digit string, most significant first (strconv.ParseUint without range) *)
Definition dec_value (l : bytes) : N := fold_left (fun acc c => 10 * acc + (c - 48)) l 0.
Definition parse_dec (l : bytes) : option N :=
  match l with
  | [] => None
  | _ => if all_digits l then Some (dec_value l) else None
  end.
(* printing: least-significant digit first with fuel, then reversed *)
Fixpoint show_dec_rev (fuel : nat) (n : N) : bytes :=
  match fuel with
  | O => []
  | S k => if n <? 10 then [48 + n] else (48 + n mod 10) :: show_dec_rev k (n / 10)
  end.
Definition show_dec (n : N) : bytes := rev (show_dec_rev (S (N.to_nat (N.log2 n))) n).

(* --- splitting and joining -------------------------------------------------------- *)
Fixpoint split (sep : N) (l : bytes) : list bytes :=   (* strings.Split(s, sep) for 1-byte sep *)
  match l with
  | [] => [[]]
  | c :: r =>
      if c =? sep then [] :: split sep r
      else match split sep r with
           | h :: t => (c :: h) :: t
           | [] => [[c]]
           end
  end.
Fixpoint join (sep : N) (ls : list bytes) : bytes :=   (* strings.Join(ls, sep) *)
  match ls with
  | [] => []
  | [a] => a
  | a :: r => a ++ sep :: join sep r
  end.

(* --- fixed-width big endian --------------------------------------------------------- *)
Fixpoint le (n : nat) (v : N) : bytes :=
  match n with O => [] | S k => (v mod 256) :: le k (v / 256) end.
Fixpoint unle (l : bytes) : N :=
  match l with [] => 0 | b :: r => b + 256 * unle r end.
Definition be (n : nat) (v : N) : bytes := rev (le n v).
Definition unbe (l : bytes) : N := unle (rev l).

(* outcome of a Go call that may return an error or panic *)
Inductive outcome (A : Type) := Ok (a : A) | Err (c : N) | Panic.
Arguments Ok {A} a. Arguments Err {A} c. Arguments Panic {A}.
