(* Correspondence + property checker for C05, evaluated on observations of the real SendBid
   (pkg/preconfirmation) driven with real signers, the real topology and scripted streams.
   Definitions only. *)
From Coq Require Import String List NArith ZArith Bool.
From MevVerif Require Import lib.Bytes gen.Generated model.PreconfBidder.
Import ListNotations.
Open Scope N_scope.

(* --- finite multisets as lists ------------------------------------------------------------ *)
Section Multiset.
  Context {A : Type} (eqb : A -> A -> bool).
  Fixpoint remove1 (a : A) (l : list A) : option (list A) :=
    match l with
    | [] => None
    | y :: r => if eqb a y then Some r
                else match remove1 a r with Some r' => Some (y :: r') | None => None end
    end.
  Fixpoint sub_multiset (l1 l2 : list A) : bool :=
    match l1 with
    | [] => true
    | a :: r => match remove1 a l2 with Some l2' => sub_multiset r l2' | None => false end
    end.
  Definition perm_eqb (l1 l2 : list A) : bool :=
    Nat.eqb (length l1) (length l2) && sub_multiset l1 l2.
End Multiset.

Fixpoint list_eqb {A} (eqb : A -> A -> bool) (a b : list A) : bool :=
  match a, b with
  | [], [] => true
  | u :: a', v :: b' => eqb u v && list_eqb eqb a' b'
  | _, _ => false
  end.

Definition contact_eqb (a b : bytes * list bid) : bool :=
  bytes_eqb (fst a) (fst b) && list_eqb bid_eqb (snd a) (snd b).
Definition timed_eqb (a b : N * commitment) : bool :=
  (fst a =? fst b) && commitment_eqb (snd a) (snd b).

(* --- recorded oracle answers ----------------------------------------------------------- *)
Fixpoint lookup {K V} (eqb : K -> K -> bool) (k : K) (t : list (K * V)) : option V :=
  match t with
  | [] => None
  | (k', v) :: r => if eqb k k' then Some v else lookup eqb k r
  end.

(* a miss is never defaulted silently: [oracle_misses] reports it as a broken correspondence;
   the value used meanwhile is an error the code under test never produces *)
Definition miss_code : N := 255.
Definition construct_of (t : list (call_args * outcome bid)) (a : call_args) : outcome bid :=
  match lookup args_eqb a t with Some v => v | None => Err miss_code end.
Definition verify_of (t : list (commitment * outcome bytes)) (c : commitment) : outcome bytes :=
  match lookup commitment_eqb c t with Some v => v | None => Err miss_code end.

(* --- one case ---------------------------------------------------------------------------- *)
(* o_ret: 0 = a channel was returned, 1 = an error was returned, 2 = the process crashed,
          3 = the call did not come to rest (goroutines left / channel not closed in time) *)
Record case := mkCase {
  id : N;
  args : call_args;                                  (* arguments of SendBid *)
  csb : list (call_args * outcome bid);              (* ConstructSignedBid: arguments received, answer *)
  vtbl : list (commitment * outcome bytes);          (* VerifyPreConfirmation of the real signer *)
  view : list peer;                                  (* connected peers, their scripts and times *)
  deadline : N;
  on_real : bool;                                    (* class real-stream: the streams were libp2p's *)
  inconclusive : bool;                               (* the run says nothing about SendBid (slow machine,
                                                        environment): kept for the statistics only *)
  o_ret : N;
  o_contacted : list (bytes * list bid);             (* per NewStream call: peer, messages written *)
  o_delivered : list (N * commitment);               (* (step, value) received on the channel *)
  o_closed : option N                                (* step at which the channel was seen closed *)
}.

Definition oracles_of (c : case) : oracles := mkOracles (construct_of (csb c)) (verify_of (vtbl c)).

Definition first_frames (ps : list peer) : list commitment :=
  flat_map (fun p => match p_reply p with RFrames c _ => [c] | _ => [] end) ps.

Definition has_key {K V} (eqb : K -> K -> bool) (t : list (K * V)) (k : K) : bool :=
  match lookup eqb k t with Some _ => true | None => false end.

(* every oracle question the model or the checker can ask has a recorded answer *)
Definition oracle_complete (c : case) : bool :=
  has_key args_eqb (csb c) (args c) &&
  forallb (has_key commitment_eqb (vtbl c)) (first_frames (get_peers TProvider (view c))) &&
  forallb (fun tc => has_key commitment_eqb (vtbl c) (snd tc)) (o_delivered c).

(* --- correspondence: model prediction = observation -------------------------------------- *)
(* the transport as it is in the repository, read off pkg/p2p/libp2p on every run: does
   Service.NewStream hand the caller's context to host.NewStream, do stream.WriteMsg and
   stream.ReadMsg select on ctx.Done().  (In the final select the driver's schedules never make
   both cases ready, see class reply-at-deadline for the one that does.) *)
Definition repo_transport : transport :=
  mkTransport c05_newstream_ctx
              (c05_write_ctx && c05_write_ctx_err && c05_write_async)   (* blocking write on a helper   *)
              (c05_read_ctx && c05_read_ctx_err && c05_read_async)      (* goroutine, select on         *)
              false.                                                    (* ctx.Done() answering ctx.Err() *)

(* the scripted streams of the driver always watch the context *)
Definition transport_of (c : case) : transport := if on_real c then repo_transport else ctx_transport.

Definition agrees (c : case) : bool :=
  match send_bid_op (transport_of c) (oracles_of c) (args c) (view c) (deadline c) with
  | XErr => o_ret c =? 1
  | XPanic => o_ret c =? 2
  | XRun r =>
      match xr_close r with
      | Never => o_ret c =? 3                      (* the call never comes to rest *)
      | At t =>
          (o_ret c =? 0) &&
          perm_eqb contact_eqb (xr_contacted r) (o_contacted c) &&
          perm_eqb timed_eqb (xr_delivered r) (o_delivered c) &&
          match o_closed c with Some t' => t' =? t | None => false end
      end
  end.

Definition mismatches (cs : list case) : list N :=
  map id (filter (fun c => negb (inconclusive c) && negb (oracle_complete c && agrees c)) cs).

(* --- the property, evaluated on the implementation's own observation --------------------- *)
(* Nothing below looks at the model's prediction: only at the input of the case (who was
   connected, what each provider's stream did and when, when the deadline fired), the recorded
   signer answers, and what the implementation was seen to do. *)

Definition strip (c : commitment) : commitment := set_prov c [].

(* the frames that can legitimately be surfaced: the first frame of every provider whose
   answer arrived before the deadline, one each *)
Definition candidates (D : N) (provs : list peer) : list commitment :=
  flat_map (fun p => match p_reply p with
                     | RFrames c _ => if arrives D p then [strip c] else []
                     | _ => [] end) provs.

(* what was handed to WriteMsg on one contacted stream: never anything but the signed bid, at
   most once; and the signed bid unless the stream could not be opened (the script makes NewStream
   fail, or the context had already expired when the call was made) *)
Definition offered_ok (sent : bid) (provs : list peer) (D : N) (ct : bytes * list bid) : bool :=
  match find (fun p => bytes_eqb (p_addr p) (fst ct)) provs with
  | None => false
  | Some p => match snd ct with
              | [] => match p_reply p with RNewStreamErr => true | _ => D =? 0 end
              | ws => list_eqb bid_eqb ws [sent] &&
                      match p_reply p with RNewStreamErr => false | _ => true end
              end
  end.

Definition clause (ok : bool) (key : string) : list string := if ok then [] else [key].

Definition check_run (vf : commitment -> outcome bytes) (sent : bid) (provs : list peer) (D : N)
           (contacted : list (bytes * list bid)) (delivered : list (N * commitment))
           (closed : option N) : list string :=
  clause (forallb (fun tc => obid_eqb (c_bid (snd tc)) (Some sent)) delivered) "surfaced:other-bid" ++
  clause (forallb (fun tc => match vf (snd tc) with Ok _ => true | _ => false end) delivered)
         "surfaced:unverified" ++
  clause (forallb (fun tc => match vf (snd tc) with Ok a => bytes_eqb (c_prov (snd tc)) a | _ => true end)
                  delivered) "surfaced:wrong-address" ++
  clause (sub_multiset commitment_eqb (map (fun tc => strip (snd tc)) delivered) (candidates D provs))
         "surfaced:duplicate" ++
  clause (perm_eqb bytes_eqb (map fst contacted) (map p_addr provs) &&
          forallb (offered_ok sent provs D) contacted) "not-offered" ++
  clause (match closed with
          | Some t => t =? max_list (map (finish_time D) provs)
          | None => false end) "not-closed".

(* A question to the signer that the driver did not record is a defect of the driver: it is
   reported as a broken correspondence ([mismatches]), never as a verdict on the implementation. *)
Definition violation_keys (c : case) : list string :=
  if inconclusive c || negb (oracle_complete c) then [] else
  let provs := get_peers TProvider (view c) in
  match construct_of (csb c) (args c), provs with
  | Ok sent, _ :: _ =>
      if o_ret c =? 0 then
        check_run (verify_of (vtbl c)) sent provs (deadline c) (o_contacted c) (o_delivered c) (o_closed c)
      else if o_ret c =? 1 then ["not-offered"%string]
      else ["not-closed"%string]
  | _, _ =>
      (* no signed bid or nobody to offer it to: the call must just report an error *)
      if o_ret c =? 1 then []
      else if o_ret c =? 0 then ["not-offered"%string] else ["not-closed"%string]
  end.

Definition violations (cs : list case) : list (N * string) :=
  flat_map (fun c => map (fun k => (id c, k)) (violation_keys c)) cs.

(* cases that exercise the property non-vacuously: a channel is owed and at least one provider's
   frame arrives before the deadline *)
Definition nontrivial (cs : list case) : list N :=
  map id (filter (fun c => negb (inconclusive c) &&
    match construct_of (csb c) (args c) with
    | Ok _ => negb (Nat.eqb (length (candidates (deadline c) (get_peers TProvider (view c)))) 0)
    | _ => false
    end) cs).
