(* Correspondence + property checker for C17, evaluated on observations of the real
   blockPeer / isBlocked / BlockedPeers and of the gater.  Definitions only. *)
From Coq Require Import String List NArith ZArith Bool.
From MevVerif Require Import lib.Bytes gen.Generated model.Blocklist.
Import ListNotations.
Open Scope Z_scope.

(* one observed call: the event (with the nominal time of the call), its answers
   (booleans 0/1; Listing: one code per peer, 0 absent / 1 timed / 2 "Forever"), and the raw
   map afterwards projected on the case's peers (-1 = no entry, otherwise the duration) *)
Definition ostep := (event * list Z * list Z)%type.
Record case := { id : N; c_peers : list pid; c_evs : list ostep }.

Fixpoint zlist_eqb (a b : list Z) : bool :=
  match a, b with
  | [], [] => true
  | x :: a', y :: b' => (x =? y) && zlist_eqb a' b'
  | _, _ => false
  end.

Definition raw_of (ps : list pid) (m : bmap) : list Z :=
  map (fun p => match lookup p m with Some i => e_dur i | None => -1 end) ps.

(* --- correspondence: the model run on the same events ------------------------------------ *)
Fixpoint agree (ps : list pid) (m : bmap) (l : list ostep) : bool :=
  match l with
  | [] => true
  | (e, a, r) :: rest =>
      let '(m', a') := step wiring_now m e in
      zlist_eqb a a' && zlist_eqb r (raw_of ps m') && agree ps m' rest
  end.

Definition mismatches (cs : list case) : list N :=
  map id (filter (fun c => negb (agree (c_peers c) [] (c_evs c))) cs).

(* --- the property on the implementation's own answers -------------------------------------- *)
(* the instant t = t0 + d itself is left open ("at least its full duration"): a peer must be
   blocked when some block strictly covers t and may be blocked only when some block covers t *)
Definition strictly_covered (hist : list event) (p : pid) (t : Z) : bool :=
  existsb (fun e => match e with
                    | Block q d t0 => (q =? p)%N && ((d =? 0) || (t <? t0 + d))
                    | _ => false end) hist.

(* [ordered = false]: the time stamps of the case are not monotone; only the clauses that need no
   ordering are judged (a permanent block never lapses, a never-blocked peer is unaffected) *)
Definition classify_gen (ordered : bool) (hist : list event) (p : pid) (t : Z) (said_blocked : bool)
  : option string :=
  let perm := existsb (blocks_permanently p) hist in
  let any := existsb (blocks p) hist in
  if said_blocked then
    (if negb any then Some "unblocked-affected"
     else if ordered && negb (covered hist p t) then Some "not-lifted" else None)%string
  else
    (if perm then Some "lapsed-permanent"
     else if ordered && strictly_covered hist p t then Some "lapsed-early" else None)%string.
Definition classify := classify_gen true.

Definition first_some (a b : option string) : option string :=
  match a with Some _ => a | None => b end.

(* a listing code against the blocks placed so far *)
Definition check_listed (ordered : bool) (hist : list event) (t : Z) (p : pid) (code : Z) : option string :=
  let perm := existsb (blocks_permanently p) hist in
  if (code =? 2) && negb perm then classify_gen ordered hist p t true
  else if negb (code =? 2) && perm then Some "lapsed-permanent"%string
  else if negb (code =? 0) then classify_gen ordered hist p t true
  else if ordered && strictly_covered hist p t then Some "lapsed-early"%string
  else None.
Fixpoint check_listing (ordered : bool) (hist : list event) (t : Z) (ps : list pid) (codes : list Z) : option string :=
  match ps, codes with
  | p :: pr, c :: cr => first_some (check_listed ordered hist t p c) (check_listing ordered hist t pr cr)
  | [], [] => None
  | _, _ => Some "gater"%string   (* malformed observation *)
  end.

(* the gater's answer for a Dial/Secured event: against the isBlocked probe that follows it at
   the same time when there is one (clause "gater"), otherwise against the specification *)
Definition check_gated (ordered : bool) (hist : list event) (p : pid) (t : Z) (a : Z) (next : list ostep) : option string :=
  match next with
  | (Query q t', [b], _) :: _ =>
      if (q =? p)%N && (t' =? t) then (if a =? 1 - b then None else Some "gater"%string)
      else classify_gen ordered hist p t (a =? 0)
  | _ => classify_gen ordered hist p t (a =? 0)
  end.

Fixpoint check_from (ordered : bool) (hist : list event) (prev_raw : list Z) (l : list ostep) : option string :=
  match l with
  | [] => None
  | (e, a, r) :: rest =>
      let here :=
        match e, a with
        | Block _ _ _, [] => None
        | Query p t, [b] => classify_gen ordered hist p t (b =? 1)
        | Dial p t, [x] => check_gated ordered hist p t x rest
        | Secured p t, [x] => check_gated ordered hist p t x rest
        | AddrDial _ _, [x] | Upgraded _ _, [x] =>
            if (x =? 1) && zlist_eqb r prev_raw then None else Some "gater"%string
        | Accept _ _, [_] => if zlist_eqb r prev_raw then None else Some "gater"%string
        | Listing ps t, codes => check_listing ordered hist t ps codes
        | _, _ => Some "gater"%string   (* malformed observation *)
        end in
      first_some here (check_from ordered (hist ++ [e]) r rest)
  end.

Fixpoint nondecreasing (t : Z) (l : list ostep) : bool :=
  match l with
  | [] => true
  | (e, _, _) :: rest => (t <=? time_of e) && nondecreasing (time_of e) rest
  end.

Definition violation (c : case) : option string :=
  match c_evs c with
  | [] => None
  | (e0, _, _) :: _ =>
      (* without monotone time stamps the clauses that need no ordering are still judged *)
      check_from (nondecreasing (time_of e0) (c_evs c)) [] (map (fun _ => -1) (c_peers c)) (c_evs c)
  end.

Definition violations (cs : list case) : list (N * string) :=
  flat_map (fun c => match violation c with Some k => [(id c, k)] | None => [] end) cs.

(* a block is placed and the same peer is asked about afterwards *)
Fixpoint asked_after_block (blocked : list pid) (l : list ostep) : bool :=
  match l with
  | [] => false
  | (e, _, _) :: rest =>
      match e with
      | Block p _ _ => asked_after_block (p :: blocked) rest
      | Query p _ | Dial p _ | Secured p _ =>
          existsb (fun q => (q =? p)%N) blocked || asked_after_block blocked rest
      | Listing _ _ => negb (match blocked with [] => true | _ => false end) || asked_after_block blocked rest
      | _ => asked_after_block blocked rest
      end
  end.
Definition nontrivial (cs : list case) : list N :=
  map id (filter (fun c => asked_after_block [] (c_evs c)) cs).
