(* Correspondence + property checker for C14, evaluated on observations of the real
   peerRegistry and of the real stream-handler wrapper.  Definitions only. *)
From Coq Require Import String List NArith ZArith Bool.
From MevVerif Require Import lib.Bytes gen.Generated model.PeerRegistry.
Import ListNotations.
Open Scope Z_scope.

(* what the driver sees after every event (peers, addresses, streams are 0 .. n-1) *)
Record snap := {
  sn_over : list (list Z);     (* per peer id: [] or [address; role]           (getPeer) *)
  sn_under : list (list Z);    (* per address: [] or [peer id]                 (getPeerID) *)
  sn_conns : list (list Z);    (* per peer id: [-1] = no key, else the sorted serials *)
  sn_streams : list (list Z);  (* per peer id: [-1] = no key, else the sorted stream ids *)
  sn_notes : list Z;           (* all disconnect notifications so far: address, role, ... *)
  sn_sw : list Z;              (* per stream: 0 new 1 looked-up 2 tracked 3 handler running
                                  4 reset 5 ended *)
  sn_ctx : list Z;             (* per stream: 0 not tracked and no handler start reported, 1 ctx live,
                                  2 cancelled *)
  sn_started : list Z          (* handler starts so far: stream, peer id, address, role, ... *)
}.
(* [o_seen = false]: the state right after this event could not be observed (the event happened
   inside another call, see the driver's close-during-enrol class); its snapshot is ignored *)
(* [o_pending]: disconnect notifications that had been started but had not yet returned when the
   call of this step returned.  The registry runs its notifier inside the critical section of
   Disconnected, so the notification of a transition is complete before any later registry call
   returns: always 0 in the model. *)
(* [o_out]: -1 for a direct addPeer call; otherwise the enrolment was made by Service.Connect
   (outbound path, after its real handshake) and o_out is what Connect returned to its caller:
   1 = the peer, 0 = an error.  addPeer's own answer is then not observable (o_ret is ignored). *)
Record ostep := { o_ev : event; o_ret : Z; o_panic : bool; o_seen : bool; o_pending : Z; o_out : Z;
                  o_snap : snap }.
Record case := { id : N; c_np : N; c_nc : N; c_na : N; c_ns : N; c_evs : list ostep }.

Fixpoint zlist_eqb (a b : list Z) : bool :=
  match a, b with
  | [], [] => true
  | x :: a', y :: b' => (x =? y) && zlist_eqb a' b'
  | _, _ => false
  end.
Fixpoint zll_eqb (a b : list (list Z)) : bool :=
  match a, b with
  | [], [] => true
  | x :: a', y :: b' => zlist_eqb x y && zll_eqb a' b'
  | _, _ => false
  end.
Definition snap_eqb (a b : snap) : bool :=
  zll_eqb (sn_over a) (sn_over b) && zll_eqb (sn_under a) (sn_under b) &&
  zll_eqb (sn_conns a) (sn_conns b) && zll_eqb (sn_streams a) (sn_streams b) &&
  zlist_eqb (sn_notes a) (sn_notes b) && zlist_eqb (sn_sw a) (sn_sw b) &&
  zlist_eqb (sn_ctx a) (sn_ctx b) && zlist_eqb (sn_started a) (sn_started b).

Definition upto (n : N) : list N := map N.of_nat (seq 0 (N.to_nat n)).

Fixpoint insert (x : Z) (l : list Z) : list Z :=
  match l with [] => [x] | y :: r => if x <=? y then x :: l else y :: insert x r end.
Definition sortz (l : list Z) : list Z := fold_right insert [] l.

Definition sw_code (o : option sw_state) : Z :=
  match o with
  | None => 0
  | Some (SwLooked _ _) => 1
  | Some (SwTracked _ _ _) => 2
  | Some (SwStarted _ _) => 3
  | Some SwReset => 4
  | Some SwEnded => 5
  end.

(* the model state seen through the same window *)
Definition snap_of (np na ns : N) (r : reg) : snap :=
  {| sn_over := map (fun p => match get p (overlays r) with
                              | Some pe => [Z.of_N (p_addr pe); p_role pe] | None => [] end) (upto np);
     sn_under := map (fun a => match get a (underlays r) with
                               | Some p => [Z.of_N p] | None => [] end) (upto na);
     sn_conns := map (fun p => match get p (conns r) with
                               | Some cs => sortz (map (fun c => Z.of_N (snd c)) cs) | None => [-1] end) (upto np);
     sn_streams := map (fun p => match get p (streams r) with
                                 | Some ss => sortz (map Z.of_N ss) | None => [-1] end) (upto np);
     sn_notes := flat_map (fun pe => [Z.of_N (p_addr pe); p_role pe]) (notes r);
     sn_sw := map (fun s => sw_code (get s (sw r))) (upto ns);
     sn_ctx := map (fun s => if existsb (fun x => match x with (s', _, _, _) => (s' =? s)%N end) (started r)
                                || match get s (sw r) with Some (SwTracked _ _ _) => true | _ => false end
                             then (if ctx_cancelled r s then 2 else 1) else 0) (upto ns);
     sn_started := flat_map (fun x => match x with (s, p, pe, _) =>
                                        [Z.of_N s; Z.of_N p; Z.of_N (p_addr pe); p_role pe] end) (started r) |}.

Definition ret_of (r : reg) (e : event) : Z :=
  match e with
  | Enrol c pe closed => if enrol_result r c pe closed then 1 else 0
  | _ => 0
  end.

(* --- correspondence ------------------------------------------------------------------------- *)
Fixpoint agree (np na ns : N) (r : reg) (l : list ostep) : bool :=
  match l with
  | [] => true
  | o :: rest =>
      let via_connect := 0 <=? o_out o in
      let r' := match o_ev o with
                | Enrol c pe closed => if via_connect then fst (connect r c pe closed) else step r (o_ev o)
                | _ => step r (o_ev o)
                end in
      (if via_connect
       then match o_ev o with
            | Enrol c pe closed =>
                o_out o =? (match snd (connect r c pe closed) with Some _ => 1 | None => 0 end)
            | _ => false
            end
       else o_ret o =? ret_of r (o_ev o)) && (o_pending o =? 0) &&
      Bool.eqb (o_panic o) (negb (panicked r) && panicked r') &&
      (negb (o_seen o) || snap_eqb (o_snap o) (snap_of np na ns r')) &&
      agree np na ns (if o_panic o then
                        (* a recovered panic is not sticky in the implementation *)
                        {| overlays := overlays r'; underlays := underlays r'; conns := conns r';
                           streams := streams r'; ctxs := ctxs r'; sw := sw r'; notes := notes r';
                           started := started r'; panicked := false |}
                      else r') rest
  end.
Definition mismatches (cs : list case) : list N :=
  map id (filter (fun c => negb (agree (c_np c) (c_na c) (c_ns c) init (c_evs c))) cs).

(* --- the property on the implementation's own observations ----------------------------------- *)
Definition row (l : list (list Z)) (i : N) : list Z := nth (N.to_nat i) l [].
Definition cell (l : list Z) (i : N) : Z := nth (N.to_nat i) l 0.
Definition is_nil {A : Type} (l : list A) : bool := match l with [] => true | _ => false end.
Definition reg_in (sn : snap) (p : pid) : bool := negb (is_nil (row (sn_over sn) p)).

(* overlays and underlays are mutually inverse *)
Definition maps_agree (np na : N) (sn : snap) : bool :=
  forallb (fun p => match row (sn_over sn) p with
                    | [] => true
                    | a :: _ => (0 <=? a) && zlist_eqb (row (sn_under sn) (Z.to_N a)) [Z.of_N p]
                    end) (upto np) &&
  forallb (fun a => match row (sn_under sn) a with
                    | [] => true
                    | p :: _ => (0 <=? p) && match row (sn_over sn) (Z.to_N p) with
                                             | a' :: _ => a' =? Z.of_N a | [] => false end
                    end) (upto na).

(* registered exactly while some connection enrolled open has not been reported closed (neither
   since nor, against the library's order, before) *)
Definition spec_registered (nc : N) (hist : list event) (p : pid) : bool :=
  existsb (fun k => truly_open hist (p, k)) (upto nc).
Definition check_registered (np nc : N) (hist : list event) (sn : snap) : option string :=
  fold_right (fun p acc =>
    match reg_in sn p, spec_registered nc hist p with
    | true, false => Some "stale-peer"%string
    | false, true => Some "missing-peer"%string
    | _, _ => acc
    end) None (upto np).

Fixpoint drop_prefix (pre l : list Z) : option (list Z) :=
  match pre, l with
  | [], _ => Some l
  | x :: pre', y :: l' => if x =? y then drop_prefix pre' l' else None
  | _ :: _, [] => None
  end.

(* notifications: exactly one, carrying the registered record, when an event takes a peer from
   registered to unregistered; none otherwise *)
Definition check_notes (np : N) (prev sn : snap) : bool :=
  match drop_prefix (sn_notes prev) (sn_notes sn) with
  | None => false
  | Some fresh =>
      zlist_eqb fresh
        (flat_map (fun p => if reg_in prev p && negb (reg_in sn p) then row (sn_over prev) p else []) (upto np))
  end.

Definition stream_peer (hist : list event) (s : sid) : option pid :=
  fold_left (fun acc e => match acc, e with
                          | None, SLookup s' p => if (s' =? s)%N then Some p else None
                          | _, _ => acc end) hist None.

Definition proven (hist : list event) (p : pid) (a r : Z) : bool :=
  existsb (fun e => match e with
                    | Enrol c pe false => (remote c =? p)%N && (Z.of_N (p_addr pe) =? a) && (p_role pe =? r)
                    | _ => false end) hist.

(* handler starts reported by this event: the peer must have been registered in the state the
   stream was tracked in ([tracked_in]: stream -> was its peer registered then), and the identity
   handed over must be the record the peer was registered with when the wrapper looked it up
   ([looked_in]: stream -> that record; when that state was not observed: proven in some earlier
   handshake of that peer) *)
Fixpoint check_starts (hist : list event) (tracked_in : list (sid * bool)) (looked_in : list (sid * list Z))
  (fresh : list Z) : option string :=
  match fresh with
  | [] => None
  | s :: p :: a :: r :: rest =>
      match get (Z.to_N s) tracked_in with
      | Some true =>
          if match get (Z.to_N s) looked_in with
             | Some rec => zlist_eqb rec [a; r]
             | None => proven hist (Z.to_N p) a r
             end
          then check_starts hist tracked_in looked_in rest
          else Some "handler-identity"%string
      | _ => Some "handler-unregistered"%string
      end
  | _ => Some "handler-identity"%string
  end.

(* a wrapper run past addStream (handler running or about to be invoked) whose peer is not
   registered must have a cancelled context *)
Definition check_ctx (ns : N) (hist : list event) (sn : snap) : bool :=
  forallb (fun s => if (cell (sn_sw sn) s =? 3) || (cell (sn_sw sn) s =? 2)
                    then match stream_peer hist s with
                         | Some p => reg_in sn p || (cell (sn_ctx sn) s =? 2)
                         | None => true
                         end
                    else true) (upto ns).

Definition first_some (a b : option string) : option string :=
  match a with Some _ => a | None => b end.
Definition guard (b : bool) (k : string) : option string := if b then None else Some k.

Fixpoint check_from (np nc na ns : N) (hist : list event) (tracked_in : list (sid * bool))
  (looked_in : list (sid * list Z)) (blind : bool) (prev : snap)
  (l : list ostep) : option string :=
  match l with
  | [] => None
  | o :: rest =>
      let e := o_ev o in
      let sn := o_snap o in
      let hist' := hist ++ [e] in
      if negb (wfb hist') then None   (* outside the claim from here on: one address, two peer ids *)
      else
        let tracked_in' :=
          match e with
          | STrack s => match get s tracked_in, stream_peer hist s with
                        | None, Some p => if cell (sn_sw prev) s =? 1 then put s (reg_in prev p) tracked_in else tracked_in
                        | _, _ => tracked_in end
          | _ => tracked_in
          end in
        let looked_in' :=
          match e with
          | SLookup s p => if negb blind && o_seen o && (cell (sn_sw prev) s =? 0) && negb (is_nil (row (sn_over prev) p))
                           then put s (row (sn_over prev) p) looked_in else looked_in
          | _ => looked_in
          end in
        let here :=
          (* notifications are delivered in the order of the registry transitions: none may still
             be in flight when a later registry call (an enrolment, which the inbound path follows
             with Connected) has returned *)
          first_some (guard (o_pending o =? 0) "notifications") (
          if negb (o_seen o) then guard (negb (o_panic o)) "panic" else
          if blind then
            (* the previous state was not observed: only the clauses that need no predecessor *)
            first_some (guard (negb (o_panic o)) "panic")
            (first_some (guard (maps_agree np na sn) "maps-disagree")
            (first_some (check_registered np nc hist' sn)
                        (guard (check_ctx ns hist' sn) "ctx-not-cancelled")))
          else
          first_some (guard (negb (o_panic o)) "panic")
          (first_some (guard (maps_agree np na sn) "maps-disagree")
          (first_some (check_registered np nc hist' sn)
          (first_some (guard (check_notes np prev sn) "notifications")
          (first_some (match drop_prefix (sn_started prev) (sn_started sn) with
                       | Some fresh => check_starts hist' tracked_in' looked_in' fresh
                       | None => Some "handler-identity"%string end)
          (first_some (match e with
                       | Enrol c _ _ =>
                           (* Connect told its caller that the peer is connected: it must be
                              registered; and it withholds no registered peer *)
                           if o_out o =? 1 then guard (reg_in sn (remote c)) "announced-unregistered:outbound"
                           else if o_out o =? 0 then guard (negb (reg_in sn (remote c))) "withheld-registered:outbound"
                           else None
                       | _ => None end)
          (first_some (match e with
                       | Enrol c pe _ => if 0 <=? o_out o then None else
                           (* addPeer answered "not yet there" (the inbound path then announces
                              Connected): this call must have registered the peer with this record;
                              otherwise the peer's registration is untouched *)
                           let p := remote c in
                           if o_ret o =? 0
                           then guard (negb (reg_in prev p) &&
                                       zlist_eqb (row (sn_over sn) p) [Z.of_N (p_addr pe); p_role pe])
                                      "announced-unregistered"
                           else guard (zlist_eqb (row (sn_over sn) p) (row (sn_over prev) p))
                                      "unannounced-registration"
                       | _ => None end)
          (first_some (match e with
                       | SLookup s p =>
                           (* a new stream from a peer that is not registered is reset *)
                           if (cell (sn_sw prev) s =? 0) && negb (reg_in prev p)
                           then guard (cell (sn_sw sn) s =? 4) "handler-unregistered" else None
                       | _ => None end)
                      (guard (check_ctx ns hist' sn) "ctx-not-cancelled"))))))))) in
        first_some here (if o_seen o then check_from np nc na ns hist' tracked_in' looked_in' false sn rest
                         else check_from np nc na ns hist' tracked_in' looked_in' true prev rest)
  end.

Definition empty_snap (np na ns : N) : snap := snap_of np na ns init.

Definition violation (c : case) : option string :=
  check_from (c_np c) (c_nc c) (c_na c) (c_ns c) [] [] [] false (empty_snap (c_np c) (c_na c) (c_ns c)) (c_evs c).
Definition violations (cs : list case) : list (N * string) :=
  flat_map (fun c => match violation c with Some k => [(id c, k)] | None => [] end) cs.

(* a well-formed history that enrols an open connection and later closes a connection or runs a
   stream through the wrapper *)
Fixpoint after_enrol (seen : bool) (l : list ostep) : bool :=
  match l with
  | [] => false
  | o :: rest =>
      match o_ev o with
      | Enrol _ _ false => after_enrol true rest
      | ConnClosed _ | STrack _ => seen || after_enrol seen rest
      | _ => after_enrol seen rest
      end
  end.
Definition nontrivial (cs : list case) : list N :=
  map id (filter (fun c => wfb (map o_ev (c_evs c)) && after_enrol false (c_evs c)) cs).
