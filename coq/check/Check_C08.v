(* Correspondence + property checker for C08, evaluated on histories observed at a scripted
   chain node driven by the real EvmClient.Send.  Definitions only. *)
From Coq Require Import String List NArith Bool.
From MevVerif Require Import lib.Bytes gen.Generated model.EvmSend.
Import ListNotations.
Open Scope N_scope.

(* one operation of a history with what was observed:
   CSend rq a cr res ok : request kind, the answers the node / signer gave for this request,
       the value of lastConfirmedNonce read right before it, what reached the node
       (nothing / rejected nonce / accepted nonce), and whether Send returned a nil error;
   CConf v : the node answered v to the monitor's NonceAt call and the monitor stored it;
   CRestart : a new client was created on the same node. *)
Inductive cop :=
| CSend (rq : request) (a : answers) (cr : N) (res : result) (ok : bool)
| CConf (v : N)
| CRestart.

Record case := { id : N; ops : list cop }.

Definition to_op (o : cop) : op :=
  match o with
  | CSend rq a _ _ _ => Send rq a
  | CConf v => Conf v
  | CRestart => Restart
  end.

Definition result_eqb (a b : result) : bool :=
  match a, b with
  | NoTx, NoTx => true
  | Rejected n, Rejected m => n =? m
  | Accepted n, Accepted m => n =? m
  | _, _ => false
  end.
Definition is_accepted (r : result) : bool := match r with Accepted _ => true | _ => false end.

(* the model replays the same history: same answers, same order *)
Fixpoint agrees (s : st) (l : list cop) : bool :=
  match l with
  | [] => true
  | o :: r =>
      let '(s', e) := step_with get_nonce s (to_op o) in
      match o, e with
      | CSend _ _ cr res ok, TSend _ mr =>
          (conf s =? cr) && result_eqb mr res && Bool.eqb ok (is_accepted res)
      | CSend _ _ _ _ _, _ => false
      | _, _ => true
      end && agrees s' r
  end.

Definition mismatches (cs : list case) : list N :=
  map id (filter (fun c => negb (agrees init (ops c))) cs).

(* --- the property on the observed history ------------------------------------------- *)

Definition obs_trace (l : list cop) : list tev :=
  map (fun o => match o with
                | CSend _ a _ res _ => TSend (pending a) res
                | CConf v => TConf v
                | CRestart => TRestart
                end) l.

Definition spec_window : N := 1024.     (* the number in the property text *)

Record cst := {
  k_last : option N;    (* last nonce accepted from the current client *)
  k_hi : option N;      (* highest nonce accepted so far, all clients *)
  k_seen : N;           (* largest pending answer since that acceptance / since the client started *)
  k_failed : bool;      (* a request failed since then *)
  k_unsync : bool;      (* current client has not learnt a non-zero nonce yet *)
  k_prem : bool;        (* premise of the cross-restart clause has held so far *)
  k_maxconf : N }.      (* highest confirmed nonce reported so far *)

Definition k0 : cst :=
  {| k_last := None; k_hi := None; k_seen := 0; k_failed := false; k_unsync := true; k_prem := true;
     k_maxconf := 0 |}.

Fixpoint first_err (l : list (option string)) : option string :=
  match l with
  | [] => None
  | Some k :: _ => Some k
  | None :: r => first_err r
  end.

Definition check_send (k : cst) (p : option N) (r : result) : option string * cst :=
  let seen' := match p with Some q => N.max (k_seen k) q | None => k_seen k end in
  let prem' := k_prem k &&
               match p, k_hi k with
               | Some q, Some h => negb (k_unsync k) || (h <? q)
               | _, _ => true
               end in
  let still := match p with Some q => q =? 0 | None => true end in
  let e_window := match reached r with
                  | Some n => if n <=? k_maxconf k + spec_window then None else Some "window"%string
                  | None => None
                  end in
  let e_pending := match reached r, p with
                   | Some n, Some q => if q <=? n then None else Some "below-pending"%string
                   | Some n, None => Some "below-pending"%string
                   | None, _ => None
                   end in
  match r with
  | Accepted n =>
      let e_life := match k_last k with
                    | Some m => if m <? n then None else Some "nonce-reuse"%string
                    | None => None
                    end in
      let e_all := if prem' then
                     match k_hi k with
                     | Some h => if h <? n then None else Some "nonce-reuse"%string
                     | None => None
                     end
                   else None in
      let expected := N.max (match k_last k with Some m => m + 1 | None => 0 end) seen' in
      let e_skip := if n <=? expected then None
                    else Some (if k_failed k then "failure-consumed" else "skipped")%string in
      (first_err [e_life; e_all; e_pending; e_skip; e_window],
       {| k_last := Some n; k_hi := hi_max (k_hi k) n; k_seen := 0; k_failed := false;
          k_unsync := false; k_prem := prem'; k_maxconf := k_maxconf k |})
  | _ =>
      (first_err [e_pending; e_window],
       {| k_last := k_last k; k_hi := k_hi k; k_seen := seen'; k_failed := true;
          k_unsync := k_unsync k && still; k_prem := prem'; k_maxconf := k_maxconf k |})
  end.

Definition check_ev (k : cst) (e : tev) : option string * cst :=
  match e with
  | TSend p r => check_send k p r
  | TConf v =>
      (None, {| k_last := k_last k; k_hi := k_hi k; k_seen := k_seen k; k_failed := k_failed k;
                k_unsync := k_unsync k; k_prem := k_prem k; k_maxconf := N.max (k_maxconf k) v |})
  | TRestart =>
      (None, {| k_last := None; k_hi := k_hi k; k_seen := 0; k_failed := false;
                k_unsync := true; k_prem := k_prem k; k_maxconf := k_maxconf k |})
  end.

(* first violated clause of a trace, if any *)
Fixpoint check_from (k : cst) (t : list tev) : option string :=
  match t with
  | [] => None
  | e :: r => match check_ev k e with
              | (Some key, _) => Some key
              | (None, k') => check_from k' r
              end
  end.
Definition check_trace (t : list tev) : option string := check_from k0 t.

(* a request that failed towards its caller (Send returned an error) although the node took its
   transaction has consumed a nonce *)
Definition error_but_accepted (l : list cop) : bool :=
  existsb (fun o => match o with CSend _ _ _ (Accepted _) false => true | _ => false end) l.

Definition violations (cs : list case) : list (N * string) :=
  flat_map (fun c => match check_trace (obs_trace (ops c)) with
                     | Some key => [(id c, key)]
                     | None => if error_but_accepted (ops c) then [(id c, "failure-consumed"%string)] else []
                     end) cs.

(* histories in which at least two transactions were accepted (so that ordering, successor and
   no-skip clauses all have something to say) *)
Definition nontrivial (cs : list case) : list N :=
  map id (filter (fun c => 2 <=? N.of_nat (length (accepted (obs_trace (ops c))))) cs).
