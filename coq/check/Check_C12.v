(* Correspondence + property checker for C12, evaluated on observations of the real
   providerapi.Service (ProcessBid / ReceiveBids / SendProcessedBids, real protovalidate
   validator) driven through a gated schedule.  Definitions only. *)
From Coq Require Import String List NArith ZArith Bool.
From MevVerif Require Import lib.Bytes model.Rules model.ProviderSvc.
Import ListNotations.
Open Scope N_scope.

(* one stimulus of the driver; OTake carries the call the driver saw being served *)
Inductive op :=
| OSubmit (h : N) (b : bid) | OTake (h : N) | OTakeNone | OAbandon (h : N)
| ODecision (sid : N) (d : bytes) (st : Z) | ORecvErr (sid : N)
(* a decision whose two halves the driver separated (stream parked at the service's log call) *)
| OLookup (sid : N) (d : bytes) (st : Z) | OCallback (sid : N).

(* co_res: 0 ProcessBid returned a non-context error, 1 returned the context error,
           2 returned the channel, 3 still blocked in its select at the end of the case
   co_vals: values received from the returned channel; co_closed: the channel was closed *)
Record call_obs := { co_h : N; co_res : N; co_vals : list Z; co_closed : bool }.
(* so_state: 0 SendProcessedBids still serving, 1 returned an error of its own,
             2 returned the error injected into Recv, 3 panicked *)
Record stream_obs := { so_sid : N; so_state : N }.
Record obs := { o_calls : list call_obs; o_emitted : list (N * engine_bid);
                o_streams : list stream_obs; o_pending : N }.
Record case := { id : N; ops : list op; ob : obs }.

Definition events_of (o : op) : list event :=
  match o with
  | OSubmit h b => [Submit h b]
  | OTake h => [EngineTake h]
  | OTakeNone => []
  | OAbandon h => [Abandon h]
  | ODecision sid d st => [Lookup sid d st; Callback sid]
  | ORecvErr sid => [RecvErr sid]
  | OLookup sid d st => [Lookup sid d st]
  | OCallback sid => [Callback sid]
  end.

Definition model_state (c : case) : svc := run rules_validators (flat_map events_of (ops c)).

(* --- equality tests ---------------------------------------------------------------------- *)
Fixpoint list_eqb {A} (eqb : A -> A -> bool) (a b : list A) : bool :=
  match a, b with
  | [], [] => true
  | x :: a', y :: b' => eqb x y && list_eqb eqb a' b'
  | _, _ => false
  end.
Definition engine_bid_eqb (a b : engine_bid) : bool :=
  list_eqb bytes_eqb (e_txs a) (e_txs b) && bytes_eqb (e_amt a) (e_amt b) && (e_bn a =? e_bn b)%Z &&
  bytes_eqb (e_dig a) (e_dig b) && (e_ds a =? e_ds b)%Z && (e_de a =? e_de b)%Z.
Definition call_obs_eqb (a b : call_obs) : bool :=
  (co_h a =? co_h b) && (co_res a =? co_res b) && list_eqb Z.eqb (co_vals a) (co_vals b) &&
  Bool.eqb (co_closed a) (co_closed b).

(* --- the model's prediction, projected ------------------------------------------------------ *)
Definition submitted (l : list op) : list (N * bid) :=
  flat_map (fun o => match o with OSubmit h b => [(h, b)] | _ => [] end) l.
Fixpoint dedup_first (seen l : list N) : list N :=   (* order of first appearance *)
  match l with
  | [] => []
  | x :: r => if existsb (N.eqb x) seen then dedup_first seen r else x :: dedup_first (x :: seen) r
  end.
Definition stream_ids (l : list op) : list N :=
  dedup_first [] (flat_map (fun o => match o with ODecision sid _ _ | OLookup sid _ _ | ORecvErr sid => [sid] | _ => [] end) l).

Definition predict_call (s : svc) (h : N) : call_obs :=
  let res := match nget h (calls s) with
             | Some (PRefused _) => 0 | Some (PAbandoned _) => 1 | Some (PHanded _) => 2
             | Some (POffered _) => 3 | None => 4 end in
  (* the channel is visible to the caller only when ProcessBid returned it *)
  match (if res =? 2 then cget h s else CEmpty) with
  | CFull st => {| co_h := h; co_res := res; co_vals := [st]; co_closed := true |}
  | CDrained => {| co_h := h; co_res := res; co_vals := []; co_closed := true |}
  | CEmpty => {| co_h := h; co_res := res; co_vals := []; co_closed := false |}
  end.
Definition ended_by_service (s : svc) (sid : N) : bool :=
  existsb (fun e => match e with EStreamEnd x true => x =? sid | _ => false end) (eff s).
Definition predict_stream (s : svc) (sid : N) : stream_obs :=
  {| so_sid := sid;
     so_state := match sget sid s with
                 | SIdle => 0
                 | SCalling _ _ _ => 0
                 | SEnded => if panicked s then 3 else if ended_by_service s sid then 1 else 2
                 end |}.
Definition predict (c : case) : obs :=
  let s := model_state c in
  {| o_calls := map (fun hb => predict_call s (fst hb)) (submitted (ops c));
     o_emitted := emitted s;
     o_streams := map (predict_stream s) (stream_ids (ops c));
     o_pending := N.of_nat (length (pending s)) |}.

Definition obs_eqb (a b : obs) : bool :=
  list_eqb call_obs_eqb (o_calls a) (o_calls b) &&
  list_eqb (fun x y => (fst x =? fst y) && engine_bid_eqb (snd x) (snd y)) (o_emitted a) (o_emitted b) &&
  list_eqb (fun x y => (so_sid x =? so_sid y) && (so_state x =? so_state y)) (o_streams a) (o_streams b) &&
  (o_pending a =? o_pending b).

Definition mismatches (cs : list case) : list N :=
  map id (filter (fun c => negb (obs_eqb (predict c) (ob c))) cs).

(* --- the property, evaluated on the implementation's observation ------------------------------ *)
Definition bid_of (l : list op) (h : N) : option bid := nget h (submitted l).
Definition ebid_ok (e : engine_bid) : bool := vbid rules_validators e.

(* forwarded only if well-formed *)
Definition chk_forwarded_valid (c : case) : bool :=
  forallb (fun he => ebid_ok (snd he)) (o_emitted (ob c)).
(* forwarded with exactly its fields, each call at most once *)
Fixpoint nodupb (l : list N) : bool :=
  match l with [] => true | x :: r => negb (existsb (N.eqb x) r) && nodupb r end.
Definition chk_fields (c : case) : bool :=
  forallb (fun he => match bid_of (ops c) (fst he) with
                     | Some b => engine_bid_eqb (snd he) (to_engine b)
                     | None => false end) (o_emitted (ob c)) &&
  nodupb (map fst (o_emitted (ob c))).
(* at most one value per channel, every value is a well-formed decision sent for that digest, no
   decision is consumed by two calls, no panic *)
Definition decisions_for (l : list op) (d : bytes) (st : Z) : nat :=
  length (filter (fun o => match o with ODecision _ d' st' | OLookup _ d' st' => bytes_eqb d d' && (st =? st')%Z | _ => false end) l).
Definition deliveries_for (c : case) (d : bytes) (st : Z) : nat :=
  length (filter (fun co => match bid_of (ops c) (co_h co), co_vals co with
                            | Some b, [st'] => bytes_eqb d (b_dig b) && (st =? st')%Z
                            | _, _ => false end) (o_calls (ob c))).
Definition chk_delivery (c : case) : bool :=
  forallb (fun co => match co_vals co with
                     | [] => true
                     | [st] => match bid_of (ops c) (co_h co) with
                               | Some b => provider_response_ok (b_dig b) st &&
                                           (1 <=? decisions_for (ops c) (b_dig b) st)%nat &&
                                           (deliveries_for c (b_dig b) st <=? decisions_for (ops c) (b_dig b) st)%nat
                               | None => false end
                     | _ => false end) (o_calls (ob c)) &&
  forallb (fun so => negb (so_state so =? 3)) (o_streams (ob c)).
(* the decision stream survives every well-formed decision *)
Definition stream_has_cause (l : list op) (sid : N) : bool :=
  existsb (fun o => match o with
                    | ODecision sid' d st | OLookup sid' d st => (sid' =? sid) && negb (provider_response_ok d st)
                    | ORecvErr sid' => sid' =? sid
                    | _ => false end) l.
Definition chk_stream (c : case) : bool :=
  forallb (fun so => (so_state so =? 0) || ((so_state so <? 3) && stream_has_cause (ops c) (so_sid so)))
          (o_streams (ob c)).
(* entries at quiescence belong to calls that are still live and unanswered; equal digests share one *)
(* a call that got its channel back counts as handed over only if its bid really reached an engine stream *)
Definition was_emitted (c : case) (h : N) : bool := existsb (fun he => fst he =? h) (o_emitted (ob c)).
Definition live_digests (c : case) : list bytes :=
  flat_map (fun co => if (((co_res co =? 2) && was_emitted c (co_h co)) || (co_res co =? 3)) &&
                         (match co_vals co with [] => true | _ => false end)
                      then match bid_of (ops c) (co_h co) with Some b => [b_dig b] | None => [] end
                      else []) (o_calls (ob c)).
Fixpoint dedup_bytes (l : list bytes) : list bytes :=
  match l with [] => [] | x :: r => if existsb (bytes_eqb x) r then dedup_bytes r else x :: dedup_bytes r end.
(* a call whose hand-off the driver abandoned (context cancelled before any engine stream had taken the
   bid) never reaches an engine afterwards *)
Fixpoint taken_after_abandon (l : list op) (subm ab : list N) : bool :=
  match l with
  | [] => false
  | OSubmit h _ :: r => taken_after_abandon r (h :: subm) ab
  | OAbandon h :: r => taken_after_abandon r subm (if existsb (N.eqb h) subm then h :: ab else ab)
  | OTake h :: r => existsb (N.eqb h) ab || taken_after_abandon r (filter (fun x => negb (x =? h)) subm) ab
  | _ :: r => taken_after_abandon r subm ab
  end.
Definition chk_leak (c : case) : bool :=
  (o_pending (ob c) <=? N.of_nat (length (dedup_bytes (live_digests c)))) &&
  negb (taken_after_abandon (ops c) [] []).

(* a well-formed decision for the digest of a pending bid reaches it (C12_delivered).  Judged from the
   stimuli alone: the entry of a digest belongs to the call that registered it last (well-formed bids only),
   unless an abandon of a still-offered call with that digest removed it or an earlier decision consumed it;
   streams that were ended (malformed decision, receive error) deliver nothing *)
Record xst := { x_pend : list (bytes * N); x_offered : list N; x_digs : list (N * bytes); x_ended : list N;
                x_calling : list (N * (N * Z));   (* stream parked between lookup and callback: call, status *)
                x_expect : list (N * Z) }.
Definition x_init : xst := {| x_pend := []; x_offered := []; x_digs := []; x_ended := []; x_calling := []; x_expect := [] |}.
Definition x_with (x : xst) pend offered digs ended calling expect : xst :=
  {| x_pend := pend; x_offered := offered; x_digs := digs; x_ended := ended; x_calling := calling; x_expect := expect |}.
(* the two halves of a decision on stream sid; a parked or ended stream reads nothing *)
Definition x_lookup (x : xst) (sid : N) (d : bytes) (st : Z) : xst :=
  if existsb (N.eqb sid) (x_ended x) then x
  else match nget sid (x_calling x) with
       | Some _ => x
       | None =>
           if provider_response_ok d st then
             match pget d (x_pend x) with
             | Some h => x_with x (pdel d (x_pend x)) (x_offered x) (x_digs x) (x_ended x)
                                ((sid, (h, st)) :: x_calling x) (x_expect x)
             | None => x
             end
           else x_with x (x_pend x) (x_offered x) (x_digs x) (sid :: x_ended x) (x_calling x) (x_expect x)
       end.
Definition x_callback (x : xst) (sid : N) : xst :=
  match nget sid (x_calling x) with
  | Some hs => x_with x (x_pend x) (x_offered x) (x_digs x) (x_ended x)
                      (filter (fun e => negb (fst e =? sid)) (x_calling x)) (hs :: x_expect x)
  | None => x
  end.
Definition x_step (x : xst) (o : op) : xst :=
  match o with
  | OSubmit h b =>
      match nget h (x_digs x) with
      | Some _ => x
      | None =>
          if ebid_ok (to_engine b)
          then x_with x (pset (b_dig b) h (x_pend x)) (h :: x_offered x) ((h, b_dig b) :: x_digs x) (x_ended x)
                      (x_calling x) (x_expect x)
          else x_with x (x_pend x) (x_offered x) ((h, b_dig b) :: x_digs x) (x_ended x) (x_calling x) (x_expect x)
      end
  | OTake h => x_with x (x_pend x) (filter (fun y => negb (y =? h)) (x_offered x)) (x_digs x) (x_ended x)
                      (x_calling x) (x_expect x)
  | OAbandon h =>
      match existsb (N.eqb h) (x_offered x), nget h (x_digs x) with
      | true, Some d => x_with x (pdel d (x_pend x)) (filter (fun y => negb (y =? h)) (x_offered x)) (x_digs x)
                               (x_ended x) (x_calling x) (x_expect x)
      | _, _ => x
      end
  | ODecision sid d st => x_callback (x_lookup x sid d st) sid
  | OLookup sid d st => x_lookup x sid d st
  | OCallback sid => x_callback x sid
  | ORecvErr sid =>
      match nget sid (x_calling x) with
      | Some _ => x
      | None => x_with x (x_pend x) (x_offered x) (x_digs x) (sid :: x_ended x) (x_calling x) (x_expect x)
      end
  | OTakeNone => x
  end.
Definition expected_deliveries (l : list op) : list (N * Z) := x_expect (fold_left x_step l x_init).

(* every expected delivery to a call that got its channel back is there, with that status *)
Definition chk_not_dropped (c : case) : bool :=
  forallb (fun hs => forallb (fun co => negb ((co_h co =? fst hs) && (co_res co =? 2)) ||
                                        list_eqb Z.eqb (co_vals co) [snd hs]) (o_calls (ob c)))
          (expected_deliveries (ops c)).

Definition violation (c : case) : option string :=
  if negb (chk_forwarded_valid c) then Some "forwarded-invalid"%string
  else if negb (chk_fields c) then Some "fields-differ"%string
  else if negb (chk_delivery c) then Some "double-delivery"%string
  else if negb (chk_stream c) then Some "stream-ended"%string
  else if negb (chk_leak c) then Some "leak"%string
  else if negb (chk_not_dropped c) then Some "decision-dropped"%string
  else None.

Definition violations (cs : list case) : list (N * string) :=
  flat_map (fun c => match violation c with Some k => [(id c, k)] | None => [] end) cs.

(* non-trivial: a well-formed bid was registered and a decision, an abandon or a competing
   registration acted on the map *)
Definition nontrivial (cs : list case) : list N :=
  map id (filter (fun c =>
    existsb (fun hb => ebid_ok (to_engine (snd hb))) (submitted (ops c)) &&
    existsb (fun o => match o with ODecision _ _ _ | OLookup _ _ _ | OAbandon _ => true | _ => false end) (ops c)) cs).
