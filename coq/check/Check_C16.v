(* Correspondence + property checker for C16, evaluated on observations of the real
   matchProtocolIDWithSemver.  Definitions only. *)
From Coq Require Import String List NArith Bool.
From MevVerif Require Import lib.Bytes model.Semver.
Import ListNotations.
Open Scope N_scope.

(* observation: 0 = (false, any error), 1 = (true, nil), 2 = panic *)
Record case := { id : N; incoming : bytes; hname : bytes; supported : bytes; obs : N }.

Definition agrees (v : verdict) (o : N) : bool :=
  match v with
  | Match => o =? 1
  | NoMatch => o =? 0
  | Unspec => (o =? 0) || (o =? 1)
  end.

Definition mismatches (cs : list case) : list N :=
  map id (filter (fun c => negb (agrees (match_id (incoming c) (hname c) (supported c)) (obs c))) cs).

(* The property itself on the implementation's answer: never a panic; on the claimed domain
   (verdict specified) the answer is the rule's. *)
Definition violation (c : case) : option string :=
  if obs c =? 2 then Some "panic"%string
  else match match_id (incoming c) (hname c) (supported c) with
       | Unspec => None
       | v => if agrees v (obs c) then None else Some "decision"%string
       end.

Definition violations (cs : list case) : list (N * string) :=
  flat_map (fun c => match violation c with Some k => [(id c, k)] | None => [] end) cs.

(* cases on which the model's verdict is specified (the claimed domain) *)
Definition nontrivial (cs : list case) : list N :=
  map id (filter (fun c => match match_id (incoming c) (hname c) (supported c) with Unspec => false | _ => true end) cs).
