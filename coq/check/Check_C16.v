(* Correspondence + property checker for C16, evaluated on observations of the real
   matchProtocolIDWithSemver.  Definitions only. *)
From Coq Require Import String List NArith Bool.
From MevVerif Require Import lib.Bytes model.Semver.
Import ListNotations.
Open Scope N_scope.

(* kind 0 (function level): observation 0 = (false, any error), 1 = (true, nil), 2 = panic.
   kind 1 (routing, two real services): [descs] are the (name, version) pairs one node registered with
   AddStreamHandlers, [incoming] the identifier a connected peer opened; observation 0 = no handler was
   invoked (the stream could not be opened), k > 0 = the k-th registered handler was invoked, 99 = more than one. *)
Record case := { id : N; kind : N; descs : list (bytes * bytes); incoming : bytes; hname : bytes; supported : bytes; obs : N }.

Definition agrees (v : verdict) (o : N) : bool :=
  match v with
  | Match => o =? 1
  | NoMatch => o =? 0
  | Unspec => (o =? 0) || (o =? 1)
  end.

(* routing: verdict of every registered descriptor on the incoming identifier *)
Definition verdicts (c : case) : list verdict := map (fun d => match_id (incoming c) (fst d) (snd d)) (descs c).
Definition is_match (v : verdict) : bool := match v with Match => true | _ => false end.
Definition is_unspec (v : verdict) : bool := match v with Unspec => true | _ => false end.
Fixpoint index_of_match (vs : list verdict) (k : N) : N :=
  match vs with [] => 0 | v :: r => if is_match v then k else index_of_match r (k + 1) end.
(* expected handler: specified only when no verdict is Unspec and at most one descriptor matches *)
Definition route_expect (c : case) : option N :=
  let vs := verdicts c in
  if existsb is_unspec vs then None
  else match List.length (filter is_match vs) with
       | O => Some 0
       | S O => Some (index_of_match vs 1)
       | _ => None
       end.
Definition agrees_case (c : case) : bool :=
  if kind c =? 0 then agrees (match_id (incoming c) (hname c) (supported c)) (obs c)
  else match route_expect c with Some k => obs c =? k | None => true end.

Definition mismatches (cs : list case) : list N := map id (filter (fun c => negb (agrees_case c)) cs).

(* The property itself on the implementation's answer: never a panic; on the claimed domain
   (verdict specified) the answer is the rule's. *)
Definition violation (c : case) : option string :=
  if kind c =? 0 then
    if obs c =? 2 then Some "panic"%string
    else match match_id (incoming c) (hname c) (supported c) with
         | Unspec => None
         | v => if agrees v (obs c) then None else Some "decision"%string
         end
  else
    (* an incoming stream is routed to a handler exactly when the rule matches that handler *)
    match route_expect c with
    | Some k => if obs c =? k then None else Some "routing"%string
    | None => None
    end.

Definition violations (cs : list case) : list (N * string) :=
  flat_map (fun c => match violation c with Some k => [(id c, k)] | None => [] end) cs.

(* cases on which the model's verdict is specified (the claimed domain) *)
Definition nontrivial (cs : list case) : list N :=
  map id (filter (fun c => if kind c =? 0
                           then match match_id (incoming c) (hname c) (supported c) with Unspec => false | _ => true end
                           else match route_expect c with Some _ => true | None => false end) cs).
