(* Correspondence + property checker for C16, evaluated on observations of the real
   matchProtocolIDWithSemver and of two real services.  Definitions only. *)
From Coq Require Import String List NArith Bool.
From MevVerif Require Import lib.Bytes model.Semver.
Import ListNotations.
Open Scope N_scope.

(* kind 0 (function level, arbitrary byte strings): observation 0 = (false, any error), 1 = (true, nil), 2 = panic.
   kind 2 (function level, generated numeric identifiers): as kind 0; in addition the generator's own data:
          [ipre] what it put in front of the first '/' (must be empty for a match), [iname] the name it put into
          the identifier and [nums] = [M; m; p; HM; Hm; Hp] the numbers it spelled
          into the identifier (M.m.p) and into the handler's version (HM.Hm.Hp).  The property is evaluated on
          these numbers, not on the model's reading of the strings.
   kind 1 (routing, two real services): [descs] are the (name, version) pairs one node registered with
          AddStreamHandlers (in this order), [incoming] the identifier a connected peer opened; observation
          0 = the negotiation refused the identifier (no handler ran), k in 1..90 = the k-th registered handler
          ran (and only it), 99 = more than one handler ran, 98 = the stream was opened but no handler ran within
          the wait, 97 = the stream could not be opened for another reason than a refusal (timeout, reset).
          97 and 98 are inconclusive observations of a slow machine: never a violation, re-run as mismatches.
   kind 3 (concurrent negotiations in a child process): 0 = all verdicts right, 1 = a wrong verdict, 2 = crash.
   kind 4 (hostile identifiers end to end: two real services in a child process, the identifier opened with the raw
          host.NewStream by a connected peer; [descs] as in kind 1): 0 = refused, k = the k-th handler ran, 99, 98, 97
          as in kind 1, 2 = the child process (the node) crashed. *)
Record case := { id : N; kind : N; descs : list (bytes * bytes); incoming : bytes; hname : bytes; supported : bytes;
                 ipre : bytes; iname : bytes; nums : list N; obs : N }.

Definition agrees (v : verdict) (o : N) : bool :=
  match v with
  | Match => o =? 1
  | NoMatch => o =? 0
  | Unspec => (o =? 0) || (o =? 1)
  end.

(* --- kind 2: the RULE on the generator's numbers (independent of match_id) --- *)
Definition rule_expect (c : case) : option N :=
  match nums c with
  | [M; m; p; HM; Hm; Hp] =>
      (* a '/' inside the name or the prefix: more than three segments, never matched *)
      if existsb (N.eqb slash) (iname c) || existsb (N.eqb slash) (ipre c) then Some 0
      else if negb (is_nil (ipre c)) then Some 0      (* something in front of the first '/': never matched *)
      else if forallb (fun z => z <? two64) [M; m; p; HM; Hm; Hp]
           then Some (if bytes_eqb (iname c) (hname c) && (HM =? M) && (m <=? Hm) then 1 else 0)
           else Some 0                       (* a component that is no 64-bit number: a parse error, no match *)
  | _ => None
  end.
(* the driver's strings spell exactly these numbers (read back with the model's parser) *)
Definition vres_eqb (a b : vres) : bool :=
  match a, b with
  | VNum x y z, VNum x' y' z' => (x =? x') && (y =? y') && (z =? z')
  | VErr, VErr => true
  | VOther, VOther => true
  | _, _ => false
  end.
Definition expect_parse (M m p : N) : vres :=
  if (M <? two64) && (m <? two64) && (p <? two64) then VNum M m p else VErr.
Definition spelling_ok (c : case) : bool :=
  if existsb (N.eqb slash) (iname c) || existsb (N.eqb slash) (ipre c) then true else
  match nums c, split slash (incoming c) with
  | [M; m; p; HM; Hm; Hp], [pre; n; v] =>
      bytes_eqb pre (ipre c) && bytes_eqb n (iname c) && vres_eqb (parse_version v) (expect_parse M m p)
      && vres_eqb (parse_version (supported c)) (expect_parse HM Hm Hp)
  | _, _ => false
  end.

(* --- kind 1: routing through the model of AddStreamHandlers / go-multistream --- *)
Definition is_unspec (v : verdict) : bool := match v with Unspec => true | _ => false end.
(* specified when no registered descriptor is judged by the lenient dialect *)
Definition route_expect (c : case) : option N :=
  if existsb (fun d => is_unspec (match_id (incoming c) (fst d) (snd d))) (descs c) then None
  else match route (descs c) (incoming c) with
       | Some (k, _) => Some k
       | None => Some 0
       end.
Definition inconclusive (o : N) : bool := (o =? 97) || (o =? 98).

Definition agrees_case (c : case) : bool :=
  if kind c =? 0 then agrees (match_id (incoming c) (hname c) (supported c)) (obs c)
  else if kind c =? 2 then agrees (match_id (incoming c) (hname c) (supported c)) (obs c) && spelling_ok c
  else if kind c =? 1 then
    match route_expect c with
    | Some k => obs c =? k
    | None => negb (inconclusive (obs c)) && negb (obs c =? 99)
    end
  else if kind c =? 4 then
    match route_expect c with
    | Some 0 => (obs c =? 0) || (obs c =? 97)      (* not matched: refused, or the stream failed some other way *)
    | Some k => obs c =? k
    | None => negb (obs c =? 98) && negb (obs c =? 99) && negb (obs c =? 2)
    end
  else obs c =? 0.

Definition mismatches (cs : list case) : list N := map id (filter (fun c => negb (agrees_case c)) cs).

(* The property itself on the implementation's answer: never a panic; on the claimed domain the answer is the
   rule's. *)
Definition violation (c : case) : option string :=
  if kind c =? 0 then
    if obs c =? 2 then Some "panic"%string
    else match match_id (incoming c) (hname c) (supported c) with
         | Unspec => None
         | v => if agrees v (obs c) then None else Some "decision"%string
         end
  else if kind c =? 2 then
    if obs c =? 2 then Some "panic"%string
    else match rule_expect c with
         | Some k => if obs c =? k then None else Some "decision"%string
         | None => None
         end
  else if kind c =? 1 then
    (* an incoming stream is routed to a handler exactly when the rule matches that handler; two handlers for one
       stream is wrong whatever the descriptors are *)
    if obs c =? 99 then Some "routing"%string
    else if inconclusive (obs c) then None
    else match route_expect c with
         | Some k => if obs c =? k then None else Some "routing"%string
         | None => None
         end
  else if kind c =? 4 then
    (* no identifier, however malformed, crashes the node; a handler runs exactly when the rule matches it *)
    if obs c =? 2 then Some "panic:protocol-id"%string
    else if obs c =? 99 then Some "routing"%string
    else if obs c =? 98 then None
    else match route_expect c with
         | Some 0 => if (obs c =? 0) || (obs c =? 97) then None else Some "routing"%string
         | Some k => if (obs c =? k) || (obs c =? 97) then None else Some "routing"%string
         | None => None
         end
  else
    if obs c =? 2 then Some "panic"%string
    else if obs c =? 0 then None else Some "decision"%string.

Definition violations (cs : list case) : list (N * string) :=
  flat_map (fun c => match violation c with Some k => [(id c, k)] | None => [] end) cs.

(* cases on which the verdict is specified (the claimed domain) *)
Definition nontrivial (cs : list case) : list N :=
  map id (filter (fun c => if kind c =? 0
                           then match match_id (incoming c) (hname c) (supported c) with Unspec => false | _ => true end
                           else if kind c =? 2 then match rule_expect c with Some _ => true | None => false end
                           else if (kind c =? 1) || (kind c =? 4) then match route_expect c with Some _ => true | None => false end
                           else true) cs).
