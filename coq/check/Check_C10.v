(* Correspondence + property checker for C10, evaluated on observations of the real
   EvmClient.CancelTx against a scripted chain node.  Definitions only. *)
From Coq Require Import String List NArith ZArith Bool.
From MevVerif Require Import lib.Bytes gen.Generated model.Cancel.
Import ListNotations.
Open Scope Z_scope.

(* what the driver saw: the replacement that reached SendTransaction (decoded from its raw
   encoding; if several were submitted by one CancelTx: the one the node ACCEPTED, else the first),
   whether the node took one, and CancelTx's return (nil error / NotFound class / panic) *)
Record obs := { b_sub : option ctx; b_acc : bool; b_ok : bool; b_notfound : bool; b_panic : bool }.

Record case := { id : N; cl : client; lk : lookup; tp : tipans; pr : priceans; sg : bool; sb : bool;
                 ob : obs }.

Definition ctx_eqb (a b : ctx) : bool :=
  (x_nonce a =? x_nonce b) && (x_chain a =? x_chain b) && bytes_eqb (x_to a) (x_to b) &&
  (x_value a =? x_value b) && bytes_eqb (x_data a) (x_data b) && (x_gas a =? x_gas b) &&
  (x_tip a =? x_tip b) && (x_fee a =? x_fee b).

Definition agrees (c : case) : bool :=
  let r := cancel (cl c) (lk c) (tp c) (pr c) (sg c) (sb c) in
  let o := ob c in
  match r with
  | CPanic => b_panic o && match b_sub o with None => true | Some _ => false end
  | CRefuse _ =>
      negb (b_panic o) && negb (b_ok o) && Bool.eqb (b_notfound o) (ret_notfound r) &&
      match b_sub o with None => true | Some _ => false end
  | CSubmit t acc =>
      negb (b_panic o) && Bool.eqb (b_ok o) acc && Bool.eqb (b_acc o) acc &&
      (if acc then true else negb (b_notfound o)) &&
      match b_sub o with Some t' => ctx_eqb t t' | None => false end
  end.

Definition mismatches (cs : list case) : list N := map id (filter (fun c => negb (agrees c)) cs).

(* --- the property on the observation (numbers as in the property text) ---------------------- *)
Definition violation (c : case) : option string :=
  let o := ob c in
  match b_sub o with
  | Some t =>
      match lk c, tp c with
      | LFound (Some g) true, TipOk sug =>
          if negb (x_nonce t =? o_nonce g) then Some "cancel-shape:nonce"%string
          else if negb (x_chain t =? chain (cl c)) then Some "cancel-shape:chain"%string
          else if negb (bytes_eqb (x_to t) (owner (cl c))) then Some "cancel-shape:to"%string
          else if negb (x_value t =? 0) then Some "cancel-shape:value"%string
          else if negb (bytes_eqb (x_data t) []) then Some "cancel-shape:data"%string
          else if negb (x_gas t =? 21000) then Some "cancel-shape:gas"%string
          else if negb ((Z.max (o_tip g) sug * 110) / 100 <=? x_tip t) then Some "cancel-shape:tip"%string
          else if negb (o_fee g + x_tip t <=? x_fee t) then Some "cancel-shape:fee"%string
          else if b_ok o && negb (b_acc o) then Some "submitted-on-refusal"%string
          else if b_acc o && negb (b_ok o) then Some "submitted-on-refusal"%string   (* error returned, yet the node took one *)
          else None
      | _, _ => Some "submitted-on-refusal"%string     (* target not pending, or a call failed *)
      end
  | None => if b_ok o then Some "submitted-on-refusal"%string else None  (* nil error, nothing sent *)
  end.

Definition violations (cs : list case) : list (N * string) :=
  flat_map (fun c => match violation c with Some k => [(id c, k)] | None => [] end) cs.

(* cases that exercise a clause: a replacement was observed, or the target was unknown / mined /
   its lookup failed *)
Definition nontrivial (cs : list case) : list N :=
  map id (filter (fun c => match b_sub (ob c), lk c with
                           | Some _, _ => true
                           | None, LFound (Some _) true => false
                           | None, _ => true
                           end) cs).
