(* Correspondence + property checker for C11, evaluated on observations of the real
   provider_registry / bidder_registry packages (and of the RegisterStake / PrepayAllowance
   RPC methods built on them) run over a scripted evmclient.Interface.  Definitions only. *)
From Coq Require Import String List NArith ZArith Bool.
From MevVerif Require Import lib.Bytes lib.Abi model.Registry.
Import ListNotations.
Open Scope N_scope.

(* what was observed *)
Inductive obsres :=
| ObsBool (b : bool)                   (* Check... *)
| ObsNum (v : option N)                (* getters: value, or None for an error *)
| ObsReg (r : N)                       (* RegisterProvider/PrepayAllowance: 0 nil, 1 error, 2 panic *)
| ObsSvc (code : N) (amount : option N) (* gRPC status code (0 OK, 3 InvalidArgument, 13 Internal;
                                           99 = panic) and the amount of the response *)
| ObsPack (packed : option bytes)
| ObsUnpack (vals : option (list val))
| ObsNone.                             (* sessions: the results are in the steps *)

(* the operation run and the answers the scripted client holds ready (an answer that is never
   asked for is simply unused) *)
Inductive opk :=
| OpCheck (addr : bytes) (a_min a_stake : callres)
| OpGetMin (a : callres)
| OpGetStake (addr : bytes) (a : callres)
| OpRegister (amount : option Z) (s : sendres) (w : receiptres)
| OpSvcRegister (owner : bytes) (valid : bool) (parsed : option Z)
                (s : sendres) (w : receiptres) (a_stake : callres)
| OpAbiPack (args : list val)                    (* library correspondence: Arguments.Pack *)
| OpAbiUnpack (tys : list ty) (data : bytes)     (* library correspondence: Arguments.Unpack *)
(* several operations, one after the other, on ONE registry object: each step with the answers
   the client holds at that moment, the requests recorded during that step and its result *)
| OpSession (steps : list (opk * (list effect * obsres)))
(* stake / prepay through a real evmclient.EvmClient over a scripted chain node: [s] is the
   outcome of the Send (SHash: the hash of the transaction the node received), [w] what the
   chain holds for that transaction, [late]: the client's own watcher had consumed the receipt
   before the registry started to wait.  The recorded Send is the transaction the node received.
   The driver may keep OTHER transactions of the same client outstanding (sent directly, own
   nonces) and have them mined in the same block with different receipt statuses; they are
   irrelevant context: they appear neither in this term nor in the recorded trace (only in the
   JSON input), and the model function and the checker stay the same - the outcome depends on
   [w], the transaction's own receipt, alone. *)
| OpRegisterVia (amount : option Z) (s : sendres) (w : receiptres) (late : bool).

(* kind: 0 = provider registry, 1 = bidder registry.
   abi: for every method of the bindings' ABI JSON whose selector occurs in an observed request:
   (Method.Sig, (Keccak-256 of it as go-ethereum computes it, comma-joined output types)). *)
Record case := { id : N; kind : N; reg : bytes; abi : list (bytes * (bytes * bytes));
                 op : opk; trace : list effect; res : obsres }.

(* --- equality on observables ---------------------------------------------------------------- *)
Definition optZ_eqb (a b : option Z) : bool :=
  match a, b with
  | None, None => true
  | Some u, Some v => Z.eqb u v
  | _, _ => false
  end.
Definition optN_eqb (a b : option N) : bool :=
  match a, b with
  | None, None => true
  | Some u, Some v => u =? v
  | _, _ => false
  end.
Definition txreq_eqb (a b : txreq) : bool :=
  bytes_eqb (tx_to a) (tx_to b) && optZ_eqb (tx_value a) (tx_value b)
  && bytes_eqb (tx_data a) (tx_data b) && Bool.eqb (tx_gas a) (tx_gas b).
Definition effect_eqb (a b : effect) : bool :=
  match a, b with
  | ECall r, ECall s => txreq_eqb r s
  | ESend r, ESend s => txreq_eqb r s
  | EWait h, EWait k => bytes_eqb h k
  | _, _ => false
  end.
Fixpoint trace_eqb (a b : list effect) : bool :=
  match a, b with
  | [], [] => true
  | u :: a', v :: b' => effect_eqb u v && trace_eqb a' b'
  | _, _ => false
  end.

(* --- the oracle tables --------------------------------------------------------------------- *)
Fixpoint lookup (t : list (bytes * (bytes * bytes))) (k : bytes) : option (bytes * bytes) :=
  match t with
  | [] => None
  | (k', v) :: r => if bytes_eqb k k' then Some v else lookup r k
  end.
(* Keccak-256 restricted to the signatures go-ethereum hashed for this case; anything else
   hashes to the empty string, which can match no selector *)
Definition kec_of (t : list (bytes * (bytes * bytes))) (sig : bytes) : bytes :=
  match lookup t sig with Some (d, _) => d | None => [] end.
Definition outs_of (t : list (bytes * (bytes * bytes))) (sig : bytes) : option bytes :=
  match lookup t sig with Some (_, o) => Some o | None => None end.

Definition cfg_of (k : N) : registry := if k =? 0 then provider_registry else bidder_registry.

(* --- correspondence -------------------------------------------------------------------------- *)
Definition reg_code (o : outcome unit) : N :=
  match o with Ok _ => 0 | Err _ => 1 | Panic => 2 end.

Definition svc_agrees (r : svcres) (o : obsres) : bool :=
  match r, o with
  | SvcInvalidArgument, ObsSvc c None => c =? 3
  | SvcInternal, ObsSvc c None => c =? 13
  | SvcOk v, ObsSvc c (Some w) => (c =? 0) && (v =? w)
  | SvcPanic, ObsSvc c None => c =? 99
  | _, _ => false
  end.

(* the outputs of the method named in Unpack must be the single uint256 the model decodes *)
Definition outputs_uint256 (c : case) (name : bytes) (tys : list ty) : bool :=
  match outs_of (abi c) (method_sig name tys) with
  | Some o => bytes_eqb o (bos "uint256")
  | None => false
  end.

Definition agrees1 (c : case) : bool :=
  let kec := kec_of (abi c) in
  let cfg := cfg_of (kind c) in
  match op c with
  | OpCheck addr a1 a2 =>
      let (t, b) := check kec cfg (reg c) addr a1 a2 in
      trace_eqb t (trace c)
      && match res c with ObsBool o => Bool.eqb b o | _ => false end
      && outputs_uint256 c (r_min_unpack cfg) []
      && ((length t <? 2)%nat || outputs_uint256 c (r_stake_unpack cfg) [TAddress])
  | OpGetMin a =>
      let (t, v) := get_min kec cfg (reg c) a in
      trace_eqb t (trace c)
      && match res c with ObsNum o => optN_eqb v o | _ => false end
      && outputs_uint256 c (r_min_unpack cfg) []
  | OpGetStake addr a =>
      let (t, v) := get_stake kec cfg (reg c) addr a in
      trace_eqb t (trace c)
      && match res c with ObsNum o => optN_eqb v o | _ => false end
      && outputs_uint256 c (r_stake_unpack cfg) [TAddress]
  | OpRegister amt s w =>
      let (t, r) := register kec cfg (reg c) amt s w in
      trace_eqb t (trace c)
      && match res c with ObsReg o => reg_code r =? o | _ => false end
  | OpSvcRegister owner valid parsed s w a =>
      let (t, r) := svc_register kec cfg (reg c) owner valid parsed s w a in
      trace_eqb t (trace c) && svc_agrees r (res c)
  | OpAbiPack args =>
      match res c with
      | ObsPack (Some p) => bytes_eqb (encode args) p
      | _ => false
      end
  | OpAbiUnpack tys d =>
      match res c, decode tys d with
      | ObsUnpack (Some vs), Some ws => vals_eqb vs ws
      | ObsUnpack None, None => true
      | _, _ => false
      end
  | OpSession _ => false
  | OpRegisterVia amt s w late =>
      let (t, r) := register kec cfg (reg c) amt s (evm_wait late w) in
      trace_eqb t (trace c)
      && match res c with ObsReg o => reg_code r =? o | _ => false end
  end.

(* one step of a session, seen as a case of its own (same registry, same tables) *)
Definition sub (c : case) (st : opk * (list effect * obsres)) : case :=
  {| id := id c; kind := kind c; reg := reg c; abi := abi c;
     op := fst st; trace := fst (snd st); res := snd (snd st) |}.

(* a session agrees when every step agrees with the model of the single operation run on the
   answers of that step (model/Registry.v: [session] is the map of [run_request]) *)
Definition agrees (c : case) : bool :=
  match op c with
  | OpSession steps => forallb (fun st => agrees1 (sub c st)) steps
  | _ => agrees1 c
  end.

Definition mismatches (cs : list case) : list N :=
  map id (filter (fun c => negb (agrees c)) cs).

(* --- the property, evaluated on the observation ------------------------------------------------ *)
(* What the property calls "the registry's minimum", "the account's amount" and "the stake /
   prepay call": fixed here, independently of the code under test. *)
Definition spec_register (k : N) : bytes := if k =? 0 then bos "registerAndStake" else bos "prepay".
Definition spec_min (k : N) : bytes := if k =? 0 then bos "minStake" else bos "minAllowance".
Definition spec_stake (k : N) : bytes := if k =? 0 then bos "checkStake" else bos "getAllowance".

Definition want_read (c : case) (name : bytes) (args : list val) : txreq :=
  read_req (kec_of (abi c)) (reg c) name args.
Definition want_send (c : case) (amount : option Z) : txreq :=
  {| tx_to := reg c; tx_value := amount;
     tx_data := encode_call (kec_of (abi c)) (spec_register (kind c)) []; tx_gas := false |}.

(* answer number i of the scripted client to the i-th Call *)
Definition nth_answer (l : list callres) (i : nat) : callres := nth i l CErr.

(* position, among the Calls of the trace, of the first Call that is the wanted request *)
Fixpoint find_call (t : list effect) (want : txreq) (i : nat) : option nat :=
  match t with
  | [] => None
  | ECall r :: t' => if txreq_eqb r want then Some i else find_call t' want (S i)
  | _ :: t' => find_call t' want i
  end.

(* value read by the wanted request: it was made, its answer was bytes, and they decode *)
Definition value_read (c : case) (answers : list callres) (want : txreq) : option N :=
  match find_call (trace c) want 0 with
  | None => None
  | Some i => match nth_answer answers i with
              | CErr => None
              | CBytes b => decode_uint256 b
              end
  end.

Fixpoint waited_after_send (t : list effect) (h : bytes) (sent : bool) : bool :=
  match t with
  | [] => false
  | ESend _ :: t' => waited_after_send t' h true
  | EWait k :: t' => (sent && bytes_eqb k h) || waited_after_send t' h sent
  | _ :: t' => waited_after_send t' h sent
  end.

(* every Send carries the requested amount to the registry with the stake/prepay calldata,
   and there is at most one; no Send at all when nothing was requested *)
Definition sends_ok (c : case) (amount : option (option Z)) : bool :=
  match amount, sends (trace c) with
  | _, [] => true
  | Some a, [r] => txreq_eqb r (want_send c a)
  | _, _ => false
  end.

(* success requires: the Send returned a hash, the receipt of that hash was waited for after
   the Send, and the receipt carries the success status *)
Definition mined_ok (c : case) (s : sendres) (w : receiptres) : bool :=
  match s, w with
  | SHash h, WReceipt st =>
      (st =? 1) && negb (match sends (trace c) with [] => true | _ => false end)
      && waited_after_send (trace c) h false
  | _, _ => false
  end.

(* the one answer of the client that is outside its contract: a nil receipt without an error.
   The code dereferences it; the real EvmClient.WaitForReceipt cannot return it (see
   props/C11.json, level_note). *)
Definition nil_receipt (s : sendres) (w : receiptres) : bool :=
  match s, w with SHash _, WNil => true | _, _ => false end.

(* Clauses.  yes-without:{min,stake,compare}: a yes that is not backed by both values read through
   the wanted requests, decoded, minimum <= amount.  value: a Send that is not the wanted one, or
   more than one.  ok-on-failed-receipt: success reported without the sent transaction's receipt
   with status 1 having been waited for.  panic-on-receipt: a failure is not "reported as an
   error" when the call panics instead.
   A refusal although both values were read and minimum <= amount is NOT a clause: the statement
   only bounds the yes answers ("answer yes only when ..."); such a divergence from the model is
   reported as a mismatch ([agrees]), not as a violation of C11. *)
Definition violation1 (c : case) : option string :=
  match op c with
  | OpCheck addr a1 a2 =>
      let m := value_read c [a1; a2] (want_read c (spec_min (kind c)) []) in
      let s := value_read c [a1; a2] (want_read c (spec_stake (kind c)) [VAddress addr]) in
      match res c with
      | ObsBool true =>
          match m, s with
          | None, _ => Some "yes-without:min"%string
          | _, None => Some "yes-without:stake"%string
          | Some mn, Some st => if mn <=? st then None else Some "yes-without:compare"%string
          end
      | _ => None
      end
  | OpRegister amt s w =>
      if negb (sends_ok c (Some amt)) then Some "value"%string
      else match res c with
           | ObsReg o =>
               if o =? 0 then (if mined_ok c s w then None else Some "ok-on-failed-receipt"%string)
               else if (o =? 2) && negb (nil_receipt s w) then Some "panic-on-receipt"%string
               else None
           | _ => None
           end
  | OpRegisterVia amt s w late =>
      (* judged against what the chain holds, not against what the client handed over *)
      if negb (sends_ok c (Some amt)) then Some "value"%string
      else match res c with
           | ObsReg o =>
               if o =? 0 then (if mined_ok c s w then None else Some "ok-on-failed-receipt"%string)
               else if (o =? 2) && negb (nil_receipt s w) then Some "panic-on-receipt"%string
               else None
           | _ => None
           end
  | OpSvcRegister owner valid parsed s w a =>
      let requested := if valid then match parsed with Some z => Some (Some z) | None => None end else None in
      if negb (sends_ok c requested) then Some "value"%string
      else match res c with
           | ObsSvc code _ =>
               if code =? 0 then (if mined_ok c s w then None else Some "ok-on-failed-receipt"%string)
               else if (code =? 99) && negb (nil_receipt s w) then Some "panic-on-receipt"%string
               else None
           | _ => None
           end
  | _ => None
  end.

Fixpoint first_violation (c : case) (steps : list (opk * (list effect * obsres))) : option string :=
  match steps with
  | [] => None
  | st :: r => match violation1 (sub c st) with Some k => Some k | None => first_violation c r end
  end.

(* every step of a session must satisfy the property on its own requests and answers *)
Definition violation (c : case) : option string :=
  match op c with
  | OpSession steps => first_violation c steps
  | _ => violation1 c
  end.

Definition violations (cs : list case) : list (N * string) :=
  flat_map (fun c => match violation c with Some k => [(id c, k)] | None => [] end) cs.

(* cases that reach the evm client (or the codec): every one of them exercises a clause *)
Definition nontrivial (cs : list case) : list N :=
  map id (filter (fun c => match op c, trace c with
                           | OpAbiPack _, _ | OpAbiUnpack _ _, _ => true
                           | OpSession steps, _ => existsb (fun st => match fst (snd st) with [] => false | _ => true end) steps
                           | _, [] => false
                           | _, _ => true
                           end) cs).
