(* Correspondence + property checker for C03, evaluated by vm_compute with lib/Keccak on the
   observations of the real GetBidHash / GetPreConfirmationHash / Construct*, of go-ethereum's
   apitypes.TypedDataAndHash (independent EIP-712 implementation) and of crypto.Keccak256.
   Definitions only. *)
From Coq Require Import String List NArith ZArith Bool.
From MevVerif Require Import lib.Bytes lib.Keccak gen.Generated model.Eip712 model.Signer.
Import ListNotations.
Open Scope N_scope.

(* kind 0: crypto.Keccak256(raw)                      obs = Ok digest
   kind 1: GetBidHash(msg)                            obs = Ok digest | Err 1 | Panic
   kind 2: GetPreConfirmationHash({Bid: msg})         obs likewise
   kind 3: ConstructSignedBid(fields of msg)          obs = Ok (digest ++ signature) | Err class | Panic
   kind 4: ConstructPreConfirmation(msg), signing step obs = Ok (digest ++ signature) | Err class | Panic
   kind 5: GetPreConfirmationHash({Bid: nil})         obs = Panic
   api  : digest computed by apitypes.TypedDataAndHash for the published schema when the
          values fit it (kinds 1, 2), else None
   asked / answer : the hash SignHash was called with and what it returned (kinds 3, 4) *)
Record case := { id : N; kind : N; msg : bid; raw : bytes;
                 asked : option bytes; answer : outcome bytes;
                 obs : outcome bytes; api : option bytes }.

Definition K := keccak256.

Definition outcome_eqb (a b : outcome bytes) : bool :=
  match a, b with
  | Ok u, Ok v => bytes_eqb u v
  | Err c, Err d => c =? d
  | Panic, Panic => true
  | _, _ => false
  end.
Definition obytes_eqb (a b : option bytes) : bool :=
  match a, b with
  | Some u, Some v => bytes_eqb u v
  | None, None => true
  | _, _ => false
  end.

(* the claimed domain of C03: amount in [0,2^64), the three int64 in [0,2^63) *)
Definition in_u (bound : Z) (z : Z) : bool := (0 <=? z)%Z && (z <? bound)%Z.
Definition domain_values (b : bid) : option (N * N * N * N) :=
  match parse_amount (b_amt b) with
  | Some A =>
      if in_u (2 ^ 64) A && in_u (2 ^ 63) (b_bn b) && in_u (2 ^ 63) (b_ds b) && in_u (2 ^ 63) (b_de b)
      then Some (Z.to_N A, Z.to_N (b_bn b), Z.to_N (b_ds b), Z.to_N (b_de b)) else None
  | None => None
  end.

(* the independent specification's digest, when the message is in the claimed domain *)
Definition spec_digest (k : N) (b : bid) : option bytes :=
  match domain_values b with
  | Some (A, bn, ds, de) =>
      if k =? 2 then Some (eip712_commitment K (b_tx b) A bn ds de (obytes (b_dig b)) (obytes (b_sig b)))
      else Some (eip712_bid K (b_tx b) A bn ds de)
  | None => None
  end.

Definition as_preconf (b : bid) : preconf := {| c_bid := Some b; c_dig := None; c_sig := None; c_prov := [] |}.

(* the signer oracle of a case: the recorded answer for the recorded hash; anything else is a
   miss, answered with an error class the model maps to E_SIGNER -- and flagged separately by
   [asked_ok] *)
Definition case_crypto (c : case) : crypto :=
  {| recover := fun _ _ => Err 0;
     verify_rs := fun _ _ _ => false;
     addr_of := fun p => p;
     sign := fun h => match asked c with
                      | Some a => if bytes_eqb a h then answer c else Err 99
                      | None => Err 99
                      end |}.

Definition flat (dig sig : option bytes) : bytes := obytes dig ++ obytes sig.

(* model answer, projected as the driver projects the implementation's answer *)
Definition model (c : case) : outcome bytes :=
  match kind c with
  | 0 => Ok (K (raw c))
  | 1 => bid_hash K (msg c)
  | 2 => commitment_hash K (as_preconf (msg c))
  | 3 => match construct_bid K (case_crypto c) (b_tx (msg c)) (b_amt (msg c)) (b_bn (msg c))
                             (b_ds (msg c)) (b_de (msg c)) with
         | Ok b => Ok (flat (b_dig b) (b_sig b))
         | Err e => Err e
         | Panic => Panic
         end
  | 4 => match commitment_hash K (as_preconf (msg c)) with
         | Ok h => match sign_normalised (case_crypto c) h with
                   | Ok s => Ok (h ++ s)
                   | Err e => Err e
                   | Panic => Panic
                   end
         | Err e => Err e
         | Panic => Panic
         end
  | _ => commitment_hash K {| c_bid := None; c_dig := None; c_sig := None; c_prov := [] |}
  end.

(* the hash the model hands to the signer is the one the implementation handed to it *)
Definition asked_ok (c : case) : bool :=
  match kind c with
  | 3 => match bid_hash K (msg c), asked c with
         | Ok h, Some a => bytes_eqb h a
         | Ok _, None => match obs c with Err 7 => true | _ => false end   (* refused before hashing *)
         | _, None => true
         | _, Some _ => false
         end
  | 4 => match commitment_hash K (as_preconf (msg c)), asked c with
         | Ok h, Some a => bytes_eqb h a
         | _, None => true
         | _, Some _ => false
         end
  | _ => true
  end.

(* the generic specification agrees with apitypes wherever apitypes produced a digest, and
   apitypes produced one wherever the message is in the claimed domain *)
Definition spec_ok (c : case) : bool :=
  if (kind c =? 1) || (kind c =? 2) then obytes_eqb (spec_digest (kind c) (msg c)) (api c) else true.

Definition agrees (c : case) : bool := outcome_eqb (model c) (obs c) && asked_ok c && spec_ok c.

Definition mismatches (cs : list case) : list N := map id (filter (fun c => negb (agrees c)) cs).

(* --- the property on the implementation's observation ------------------------------------- *)
Definition shape_ok (sig : bytes) : bool :=
  Nat.eqb (length sig) 65 && match nth_error sig 64 with Some v => (v =? 27) || (v =? 28) | None => false end.

(* premise of the shape claim: the key signer answered 65 bytes with v in {0,1,27,28} *)
Definition answer_shaped (c : case) : bool :=
  match answer c with
  | Ok s => Nat.eqb (length s) 65 &&
            match nth_error s 64 with Some v => (v =? 0) || (v =? 1) || (v =? 27) || (v =? 28) | None => false end
  | _ => false
  end.

Definition violation (c : case) : option string :=
  match kind c with
  | 1 | 2 =>
      match spec_digest (kind c) (msg c) with
      | Some d =>
          if outcome_eqb (obs c) (Ok d) &&
             match api c with Some d' => outcome_eqb (obs c) (Ok d') | None => true end
          then None else Some "digest-differs"%string
      | None => None
      end
  | 3 | 4 =>
      match obs c with
      | Ok ds =>
          let dig := firstn 32 ds in let sig := skipn 32 ds in
          (* the hash handed to the key signer is the digest stored in the message ... *)
          if negb (match asked c with Some h => bytes_eqb h dig | None => false end)
          then Some "signed-other-hash"%string
          (* ... the emitted r||s is the key signer's r||s ... *)
          else if negb (match answer c with Ok s => bytes_eqb (firstn 64 s) (firstn 64 sig) | _ => false end)
          then Some "sig-shape"%string
          else if answer_shaped c && negb (shape_ok sig) then Some "sig-shape"%string
          else match (if kind c =? 3 then spec_digest 1 (msg c) else spec_digest 2 (msg c)) with
               | Some d => if bytes_eqb d dig then None else Some "digest-differs"%string
               | None => None
               end
      | _ => None
      end
  | _ => None
  end.

Definition violations (cs : list case) : list (N * string) :=
  flat_map (fun c => match violation c with Some k => [(id c, k)] | None => [] end) cs.

(* cases inside the claimed domain (digest claim) or with a well-shaped signer answer (shape claim) *)
Definition nontrivial (cs : list case) : list N :=
  map id (filter (fun c =>
    match kind c with
    | 1 | 2 => match domain_values (msg c) with Some _ => true | None => false end
    | 3 | 4 => match obs c with Ok _ => answer_shaped c | _ => false end
    | _ => false
    end) cs).
