(* Correspondence + property checker for C18 on observations of the real util.PadKeyTo32Bytes,
   libp2p key unmarshalling / peer-id derivation, GetEthAddressFromPeerID, libp2p.New, the repository's key
   signers and the signature code paths of the node (handshake, bids, commitments).  Definitions only. *)
From Coq Require Import String List NArith Bool.
From MevVerif Require Import lib.Bytes lib.Keccak gen.Generated model.Identity.
Import ListNotations.
Open Scope N_scope.

(* one key signer that was given the scalar d (0 = mock holding the key, 1 = private-key file, 2 = keystore) *)
Record signer_obs := {
  s_kind : N;
  s_priv : N;                     (* GetPrivateKey().D *)
  s_addr : bytes;                 (* GetAddress() *)
  s_tr : option bytes;            (* GetEthAddressFromPeerID of the identity built, as libp2p.New builds it, from the key
                                     this signer hands out (PadKeyTo32Bytes, unmarshal, peer id); None: no identity *)
  s_rec : option bytes;           (* address pkg/signer Verify recovers from (Sig, PeerType ++ Token) of the handshake
                                     request the node actually SENT (captured on the wire of the exchange below) *)
  s_rec_raw : option bytes;       (* the same from SignHash(Keccak256(role ++ configured secret)), what createSignature signs *)
  s_hs : option bytes;            (* address a real peer (handshake.Service.Handle: verifyReq with its address-binding
                                     check against s_tr's peer id) enrolled this node under; None: refused *)
  s_bid : option bytes;           (* preconfsigner VerifyBid (ConstructSignedBid ...) *)
  s_commit : option bytes         (* preconfsigner VerifyPreConfirmation (ConstructPreConfirmation ...) *)
}.

Record case := {
  id : N;
  d : N;                          (* private scalar *)
  pad_obs : bytes;                (* util.PadKeyTo32Bytes(d) *)
  unmarshal_ok : bool;            (* transport library accepted the padded key *)
  comp : bytes;                   (* compressed public key derived by the transport library *)
  pid_obs : bytes;                (* peer id derived by the transport library *)
  px : N; py : N;                 (* crypto.DecompressPubkey(comp) *)
  qx : N; qy : N;                 (* the public key of d by go-ethereum's curve (ScalarBaseMult), independent of the padding *)
  addr_pid_obs : option bytes;    (* GetEthAddressFromPeerID(pid) *)
  addr_pub_obs : bytes;           (* crypto.PubkeyToAddress of (qx, qy) *)
  signers : list signer_obs;
  full : bool;                    (* a real Service was started with the signer of kind [full_signer] *)
  full_signer : N;
  start_ok : bool;
  host_pid : bytes;
  host_addr : option bytes;
  conc_n : N;                     (* derivations of peer-id addresses made from concurrent goroutines (0: class not run) *)
  conc_wrong : N                  (* ... how many of them differed from the sequential answer (or panicked) *)
}.

Definition opt_bytes_eqb (a b : option bytes) : bool :=
  match a, b with
  | Some u, Some v => bytes_eqb u v
  | None, None => true
  | _, _ => false
  end.

(* the library's curve answers for this case, as oracles of the model *)
Definition pub_of (c : case) : N -> point := fun _ => (px c, py c).
Definition compress_of (c : case) : point -> bytes := fun _ => comp c.
Definition decompress_of (c : case) : bytes -> option point :=
  fun b => if bytes_eqb b (comp c) then Some (px c, py c) else None.

Definition model_addr (c : case) : option bytes :=
  node_peer_addr keccak256 (pub_of c) (compress_of c) (decompress_of c) (d c).
(* libp2p.New, as written now, with a signer that hands out the scalar [k] *)
Definition model_addr_now (c : case) (k : N) : option bytes :=
  node_peer_addr_now keccak256 (pub_of c) (compress_of c) (decompress_of c) (fun _ => k) (d c).

(* the address of d's public key, computed here from the reference point *)
Definition ref_addr (c : case) : bytes := eth_addr keccak256 (qx c, qy c).

(* the three binding premises of C18_coherent, tested on this signer ([r] is [ref_addr c], computed once) *)
Definition binding_priv (c : case) (s : signer_obs) : bool := s_priv s =? d c.
Definition binding_addr (r : bytes) (s : signer_obs) : bool := bytes_eqb (s_addr s) r.
Definition binding_recover (r : bytes) (s : signer_obs) : bool :=
  opt_bytes_eqb (s_rec s) (Some r) && opt_bytes_eqb (s_rec_raw s) (Some r) && opt_bytes_eqb (s_hs s) (Some r) &&
  opt_bytes_eqb (s_bid s) (Some r) && opt_bytes_eqb (s_commit s) (Some r).

Definition full_signer_obs (c : case) : option signer_obs := find (fun s => s_kind s =? full_signer c) (signers c).

Definition agrees (c : case) : bool :=
  let r := ref_addr c in
  let mnow := model_addr_now c (d c) in
  wiring_ok && (conc_wrong c =? 0) &&
  bytes_eqb (pad32 (min_be (d c))) (pad_obs c) &&
  Bool.eqb (unmarshal_ok c) (match unmarshal_priv (pad_obs c) with Some _ => true | None => false end) &&
  bytes_eqb (peerid (comp c)) (pid_obs c) &&
  opt_bytes_eqb (model_addr c) (addr_pid_obs c) &&
  (* the transport library derived the public key of d, and go-ethereum's address of it is the model's *)
  (px c =? qx c) && (py c =? qy c) &&
  bytes_eqb r (addr_pub_obs c) &&
  negb (match signers c with [] => true | _ => false end) &&
  forallb (fun s => binding_priv c s && binding_addr r s && binding_recover r s &&
                    opt_bytes_eqb (if s_priv s =? d c then mnow else model_addr_now c (s_priv s)) (s_tr s)) (signers c) &&
  (negb (full c) ||
   (start_ok c && bytes_eqb (host_pid c) (pid_obs c) && opt_bytes_eqb (host_addr c) (addr_pid_obs c) &&
    match full_signer_obs c with Some _ => true | None => false end)).

Definition mismatches (cs : list case) : list N := map id (filter (fun c => negb (agrees c)) cs).

(* the property on the implementation's own answers: the node can start, and the address peers derive from its
   transport identity is the address the key signer reports and the address every kind of signature it makes is
   recovered to (so a real peer's binding check enrols it, under that address) *)
Definition signer_cannot_start (s : signer_obs) : bool := match s_tr s with None => true | Some _ => false end.
Definition signer_differs (s : signer_obs) : bool :=
  negb (opt_bytes_eqb (s_tr s) (Some (s_addr s))) ||
  negb (opt_bytes_eqb (s_rec s) (Some (s_addr s))) ||
  negb (opt_bytes_eqb (s_rec_raw s) (Some (s_addr s))) ||
  negb (opt_bytes_eqb (s_hs s) (Some (s_addr s))) ||
  negb (opt_bytes_eqb (s_bid s) (Some (s_addr s))) ||
  negb (opt_bytes_eqb (s_commit s) (Some (s_addr s))).

Definition violation (c : case) : option string :=
  if negb (unmarshal_ok c) || (full c && negb (start_ok c)) || existsb signer_cannot_start (signers c)
  then Some "cannot-start"%string
  else if negb (opt_bytes_eqb (addr_pid_obs c) (Some (addr_pub_obs c))) then Some "address-differs"%string
  else if existsb signer_differs (signers c) then Some "address-differs"%string
  else if negb (conc_wrong c =? 0) then Some "address-differs"%string   (* one key, one address - also under concurrency *)
  else if full c && negb (match full_signer_obs c with
                          | Some s => opt_bytes_eqb (host_addr c) (Some (s_addr s))
                          | None => true
                          end) then Some "address-differs"%string
  else None.

Definition violations (cs : list case) : list (N * string) :=
  flat_map (fun c => match violation c with Some k => [(id c, k)] | None => [] end) cs.

Definition nontrivial (cs : list case) : list N :=
  map id (filter (fun c => unmarshal_ok c && (0 <? d c)) cs).
