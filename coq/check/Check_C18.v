(* Correspondence + property checker for C18 on observations of the real util.PadKeyTo32Bytes,
   libp2p key unmarshalling / peer-id derivation, GetEthAddressFromPeerID and libp2p.New.
   Definitions only. *)
From Coq Require Import String List NArith Bool.
From MevVerif Require Import lib.Bytes lib.Keccak gen.Generated model.Identity.
Import ListNotations.
Open Scope N_scope.

Record case := {
  id : N;
  d : N;                          (* private scalar *)
  pad_obs : bytes;                (* util.PadKeyTo32Bytes(d) *)
  unmarshal_ok : bool;            (* transport library accepted the padded key *)
  comp : bytes;                   (* compressed public key derived by the transport library *)
  pid_obs : bytes;                (* peer id derived by the transport library *)
  px : N; py : N;                 (* crypto.DecompressPubkey(comp) *)
  addr_pid_obs : option bytes;    (* GetEthAddressFromPeerID(pid) *)
  addr_sign_obs : bytes;          (* the address the key signer reports (GetAddress; PubkeyToAddress for the mock) *)
  addr_recovered : bytes;         (* address recovered from a signature the key signer made *)
  full : bool;                    (* a real Service was started with this key *)
  start_ok : bool;
  host_pid : bytes;
  host_addr : option bytes
}.

Definition opt_bytes_eqb (a b : option bytes) : bool :=
  match a, b with
  | Some u, Some v => bytes_eqb u v
  | None, None => true
  | _, _ => false
  end.

(* the library's curve answers for this case, as oracles of the model *)
Definition pub_of (c : case) : N -> point := fun _ => (px c, py c).
Definition compress_of (c : case) : point -> bytes := fun _ => comp c.
Definition decompress_of (c : case) : bytes -> option point :=
  fun b => if bytes_eqb b (comp c) then Some (px c, py c) else None.

Definition model_addr (c : case) : option bytes :=
  node_peer_addr keccak256 (pub_of c) (compress_of c) (decompress_of c) (d c).

Definition wiring_ok : bool :=
  c18_new_pads_key &&
  match c18_new_unmarshal_args with [[a]] => bytes_eqb a (bos "padded32BytePrivKey") | _ => false end &&
  match c18_new_identity_args with [[a]] => bytes_eqb a (bos "libp2pKey") | _ => false end.

Definition agrees (c : case) : bool :=
  wiring_ok &&
  bytes_eqb (pad32 (min_be (d c))) (pad_obs c) &&
  Bool.eqb (unmarshal_ok c) (match unmarshal_priv (pad_obs c) with Some _ => true | None => false end) &&
  bytes_eqb (peerid (comp c)) (pid_obs c) &&
  opt_bytes_eqb (model_addr c) (addr_pid_obs c) &&
  bytes_eqb (signing_addr keccak256 (pub_of c) (d c)) (addr_sign_obs c) &&
  bytes_eqb (addr_recovered c) (addr_sign_obs c) &&
  (negb (full c) || (start_ok c && bytes_eqb (host_pid c) (pid_obs c) && opt_bytes_eqb (host_addr c) (addr_pid_obs c))).

Definition mismatches (cs : list case) : list N := map id (filter (fun c => negb (agrees c)) cs).

(* the property on the implementation's own answers *)
Definition violation (c : case) : option string :=
  if negb (unmarshal_ok c) || (full c && negb (start_ok c)) then Some "cannot-start"%string
  else if negb (opt_bytes_eqb (addr_pid_obs c) (Some (addr_sign_obs c))) then Some "address-differs"%string
  else if full c && negb (opt_bytes_eqb (host_addr c) (Some (addr_sign_obs c))) then Some "address-differs"%string
  else if full c && negb (bytes_eqb (addr_recovered c) (addr_sign_obs c)) then Some "address-differs"%string
  else None.

Definition violations (cs : list case) : list (N * string) :=
  flat_map (fun c => match violation c with Some k => [(id c, k)] | None => [] end) cs.

Definition nontrivial (cs : list case) : list N :=
  map id (filter (fun c => unmarshal_ok c && (0 <? d c)) cs).
