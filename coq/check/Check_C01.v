(* Correspondence + property checker for C01 (and the observation record shared with C07),
   evaluated on observations of the real handleBid with the real preconfsigner, the real
   providerapi.Service + protovalidate validator as BidProcessor, the real preconfcontract over a
   recording chain client, driven by a scripted engine.  Definitions only. *)
From Coq Require Import String List NArith ZArith Bool.
From MevVerif Require Import lib.Bytes lib.Abi lib.Keccak gen.Generated model.Rules model.ProviderSvc model.PreconfProvider.
Import ListNotations.
Open Scope N_scope.

(* return codes: 0 nil | 1 ErrInvalidBidderTypeForBid | 2 read error | 3 InvalidArgument |
   4 FailedPrecondition | 5 other (validation) error | 6 context error | 7 Internal |
   8 write error | 9 panic *)
Record write_obs := { wo_h : N; wo_c : preconf; wo_sends_ok_before : N }.
Record obs := { o_rets : list (N * N);                 (* handler, return code *)
                o_signed : list bytes;                 (* digests passed to SignHash of the node key *)
                o_sends : list (bytes * bytes * bool); (* destination, calldata, result ok *)
                o_send_seq : list N;                   (* per send: its rank among the successful ones in order of
                                                          completion, 0 if it failed (used by C07's checker) *)
                o_writes : list write_obs;             (* commitments written to bidders' streams *)
                o_asked : list bytes;                  (* addresses the allowance store was asked about *)
                o_pending : N }.                       (* entries left in bidsInProcess *)
(* timed cases (outer context without deadline): evs_after was issued timed_at ms after the handler
   started; the model orders it against the handler's own deadline, the literal of handleBid *)
(* mode 0: everything observed; 1: end-to-end run of a real node (only the transactions that reached the
   chain endpoint and the frame returned to the bidder are observable); 2: the harness failed to start *)
Record case := { id : N; mode : N; contract : bytes; evs : list event; timed_at : option N; evs_after : list event; ob : obs }.

Definition all_evs (c : case) : list event :=
  match timed_at c with
  | None => evs c ++ evs_after c
  | Some t => timed_history 1 t (evs c) (evs_after c)
  end.

Definition wiring_of (c : case) : wiring := node_wiring (contract c).
Definition model_state (c : case) : st :=
  PreconfProvider.run keccak256 rules_validators (wiring_of c) (all_evs c).

Definition ret_code (r : retclass) : N :=
  match r with
  | RWritten | RNil => 0 | RRole => 1 | RRead => 2 | RVerify => 3 | RAllow => 4 | RFormat => 5
  | RCtx => 6 | RRejected | RConstruct | RStore => 7 | RWriteErr => 8 | RPanic => 9
  end.

Fixpoint list_eqb {A} (eqb : A -> A -> bool) (a b : list A) : bool :=
  match a, b with
  | [], [] => true
  | x :: a', y :: b' => eqb x y && list_eqb eqb a' b'
  | _, _ => false
  end.
Definition bid_eqb (a b : bid) : bool :=
  bytes_eqb (b_tx a) (b_tx b) && bytes_eqb (b_amt a) (b_amt b) && (b_bn a =? b_bn b)%Z &&
  (b_ds a =? b_ds b)%Z && (b_de a =? b_de b)%Z && bytes_eqb (b_dig a) (b_dig b) && bytes_eqb (b_sig a) (b_sig b).
Definition preconf_eqb (a b : preconf) : bool :=
  bid_eqb (c_bid a) (c_bid b) && bytes_eqb (c_dig a) (c_dig b) && bytes_eqb (c_sig a) (c_sig b).

(* handlers in order of arrival *)
Definition arrivals (l : list event) : list (N * (Z * arrive_oracle)) :=
  flat_map (fun e => match e with Arrive h role o => [(h, (role, o))] | _ => [] end) l.

(* --- projection of the model ------------------------------------------------------------------- *)
Definition chron (s : st) : list heffect := rev (heff s).
Definition m_rets (c : case) (s : st) : list (N * N) :=
  map (fun a => (fst a, match nget (fst a) (hs s) with Some (HDone r) => ret_code r | _ => 99 end)) (arrivals (all_evs c)).
Definition m_signed (s : st) : list bytes :=
  flat_map (fun e => match e with HSign _ d => [d] | _ => [] end) (chron s).
Definition m_sends (s : st) : list (bytes * bytes * bool) :=
  flat_map (fun e => match e with
                     | HSend h to cd =>
                         [(to, cd, existsb (fun x => match x with HStored h' true => h' =? h | _ => false end) (heff s))]
                     | _ => [] end) (chron s).
Fixpoint m_writes_from (l : list heffect) (oks : N) : list write_obs :=
  match l with
  | [] => []
  | HStored _ true :: r => m_writes_from r (oks + 1)
  | HWrite h c :: r => {| wo_h := h; wo_c := c; wo_sends_ok_before := oks |} :: m_writes_from r oks
  | _ :: r => m_writes_from r oks
  end.
(* the allowance store is consulted for the address recovered from the bid's signature, once per
   handler that passed the role check, the read and VerifyBid *)
Definition m_asked (c : case) : list bytes :=
  flat_map (fun a => let role := fst (snd a) in let o := snd (snd a) in
                     if (role =? role_bidder)%Z then
                       match o_read o, o_verify o with Some _, VOk ad => [ad] | _, _ => [] end
                     else []) (arrivals (all_evs c)).
Definition predict (c : case) : obs :=
  let s := model_state c in
  {| o_rets := m_rets c s; o_signed := m_signed s; o_sends := m_sends s; o_send_seq := [];
     o_writes := m_writes_from (chron s) 0; o_asked := m_asked c; o_pending := N.of_nat (length (pending (svc s))) |}.

Definition obs_eqb (a b : obs) : bool :=
  list_eqb (fun x y => (fst x =? fst y) && (snd x =? snd y)) (o_rets a) (o_rets b) &&
  list_eqb bytes_eqb (o_signed a) (o_signed b) &&
  list_eqb (fun x y => bytes_eqb (fst (fst x)) (fst (fst y)) && bytes_eqb (snd (fst x)) (snd (fst y)) &&
                       Bool.eqb (snd x) (snd y)) (o_sends a) (o_sends b) &&
  list_eqb (fun x y => (wo_h x =? wo_h y) && preconf_eqb (wo_c x) (wo_c y) &&
                       (wo_sends_ok_before x =? wo_sends_ok_before y)) (o_writes a) (o_writes b) &&
  list_eqb bytes_eqb (o_asked a) (o_asked b).
(* o_pending is not observable from outside the providerapi package: compared by C12's driver *)

Definition obs_eqb_e2e (a b : obs) : bool :=
  list_eqb (fun x y => bytes_eqb (fst (fst x)) (fst (fst y)) && bytes_eqb (snd (fst x)) (snd (fst y)) &&
                       Bool.eqb (snd x) (snd y)) (o_sends a) (o_sends b) &&
  list_eqb (fun x y => (wo_h x =? wo_h y) && preconf_eqb (wo_c x) (wo_c y) &&
                       (wo_sends_ok_before x =? wo_sends_ok_before y)) (o_writes a) (o_writes b).

Definition mismatches (cs : list case) : list N :=
  map id (filter (fun c => negb (if mode c =? 0 then obs_eqb (predict c) (ob c)
                                 else if mode c =? 1 then obs_eqb_e2e (predict c) (ob c)
                                 else false)) cs).

(* --- the property on the implementation's observation -------------------------------------------- *)
(* the history up to (excluding) the first DeadlineFire / Abandon of handler h *)
Fixpoint before_deadline (h : N) (l : list event) : list event :=
  match l with
  | [] => []
  | DeadlineFire h' :: r => if h' =? h then [] else DeadlineFire h' :: before_deadline h r
  | Abandon h' :: r => if h' =? h then [] else Abandon h' :: before_deadline h r
  | e :: r => e :: before_deadline h r
  end.
(* the history after handler h's own Arrive: only a decision processed after the registration can name its entry *)
Fixpoint after_arrive (h : N) (l : list event) : list event :=
  match l with
  | [] => []
  | Arrive h' _ _ :: r => if h' =? h then r else after_arrive h r
  | _ :: r => after_arrive h r
  end.
Definition accepted_in (l : list event) (d : bytes) : bool :=
  existsb (fun e => match e with Lookup _ d' st => bytes_eqb d d' && (st =? status_accepted)%Z | _ => false end) l.

(* first gate that handler (h, role, o) fails, in the order of the statement *)
Definition failing_gate (c : case) (h : N) (role : Z) (o : arrive_oracle) : option string :=
  if negb (role =? role_bidder)%Z then Some "role"%string else
  match o_read o with
  | None => Some "verify"%string
  | Some b =>
      match o_verify o with
      | VErr => Some "verify"%string
      | VOk _ =>
          if negb (o_allow o) then Some "allowance"%string
          else if negb (vbid rules_validators (to_engine b)) then Some "format"%string
          else if negb (accepted_in (after_arrive h (all_evs c)) (b_dig b)) then Some "decision"%string
          else if negb (accepted_in (before_deadline h (after_arrive h (all_evs c))) (b_dig b)) then Some "deadline"%string
          else None
      end
  end.

Definition handler_bid (c : case) (h : N) : option bid :=
  match nget h (arrivals (all_evs c)) with Some (_, o) => o_read o | None => None end.

(* effects are attributed to handlers: a written commitment to the handler of the stream; signatures
   and transactions to the handlers whose gates all hold (there must be at least as many of them) *)
Definition passing (c : case) : list N :=
  flat_map (fun a => match failing_gate c (fst a) (fst (snd a)) (snd (snd a)) with None => [fst a] | Some _ => [] end)
           (arrivals (all_evs c)).
Definition first_failure (c : case) : string :=
  match flat_map (fun a => match failing_gate c (fst a) (fst (snd a)) (snd (snd a)) with
                           | Some k => [k] | None => [] end) (arrivals (all_evs c)) with
  | k :: _ => k
  | [] => "decision"%string
  end.

(* attribution by content: what each passing handler may sign and submit, from the answer the real signer
   gave for its bid (the TakeDecision event of that handler) *)
Definition kterm_of (c : case) (h : N) : option construct_res :=
  match flat_map (fun e => match e with TakeDecision h' k => if h' =? h then [k] else [] | _ => [] end) (all_evs c) with
  | k :: _ => Some k
  | [] => None
  end.
(* handlers whose observed return code is a refusal that excludes any use of the node key / chain client:
   role, read, verify, allowance, format, context (codes 1..6) *)
Definition refused_early (c : case) (h : N) : bool :=
  existsb (fun r => (fst r =? h) && (1 <=? snd r) && (snd r <=? 6)) (o_rets (ob c)).
Definition may_sign_of (c : case) (hl : list N) : list bytes :=
  flat_map (fun h => match kterm_of c h with
                     | Some (KOk d _) | Some (KSignFail d) => [d]
                     | _ => [] end) hl.
Definition may_send_of (c : case) (hl : list N) : list (bytes * bytes) :=
  flat_map (fun h => match kterm_of c h, handler_bid c h with
                     | Some (KOk d sg), Some b =>
                         match parse_bigint (b_amt b) with
                         | Some amt => [(contract c, calldata keccak256 amt {| c_bid := b; c_dig := d; c_sig := sg |})]
                         | None => []
                         end
                     | _, _ => [] end) hl.
Definition may_sign (c : case) : list bytes :=
  flat_map (fun h => match kterm_of c h with
                     | Some (KOk d _) | Some (KSignFail d) => [d]
                     | _ => [] end) (passing c).
Definition may_send (c : case) : list (bytes * bytes) :=
  flat_map (fun h => match kterm_of c h, handler_bid c h with
                     | Some (KOk d sg), Some b =>
                         match parse_bigint (b_amt b) with
                         | Some amt => [(contract c, calldata keccak256 amt {| c_bid := b; c_dig := d; c_sig := sg |})]
                         | None => []
                         end
                     | _, _ => [] end) (passing c).
(* every observed item is one of the allowed items, each allowed item used at most once *)
Fixpoint remove_first {A} (eqb : A -> A -> bool) (x : A) (l : list A) : option (list A) :=
  match l with
  | [] => None
  | y :: r => if eqb x y then Some r else option_map (cons y) (remove_first eqb x r)
  end.
Fixpoint covered {A} (eqb : A -> A -> bool) (obsd allowed : list A) : bool :=
  match obsd with
  | [] => true
  | x :: r => match remove_first eqb x allowed with Some a' => covered eqb r a' | None => false end
  end.

Definition violation (c : case) : option string :=
  let o := ob c in
  (* return codes 97 / 98: the handler was still running 2.5 s after its own deadline / did not return
     within the driver's wall-clock limit (longer than that deadline) *)
  if existsb (fun r => (snd r =? 97) || (snd r =? 98)) (o_rets o) then Some "effect-without-gate:deadline-hang"%string else
  (* effects although the allowance was obtained for another address than the bid's signer *)
  if (mode c =? 0) && negb (list_eqb bytes_eqb (o_asked o) (m_asked c)) &&
     negb (match o_signed o, o_sends o, o_writes o with [], [], [] => true | _, _, _ => false end)
  then Some "effect-without-gate:allowance"%string else
  (* a commitment written on a stream whose handler fails a gate, or embedding another bid *)
  match flat_map (fun w => match nget (wo_h w) (arrivals (all_evs c)) with
                           | Some (role, ao) =>
                               match failing_gate c (wo_h w) role ao with
                               | Some k => [String.append "effect-without-gate:" k]
                               | None => match o_read ao with
                                         | Some b => if bid_eqb b (c_bid (wo_c w)) then [] else ["effect-without-gate:verify"%string]
                                         | None => ["effect-without-gate:verify"%string]
                                         end
                               end
                           | None => ["effect-without-gate:role"%string]
                           end) (o_writes o) with
  | k :: _ => Some k
  | [] =>
      (* signatures / transactions beyond what the passing handlers may produce *)
      if (length (passing c) <? length (o_signed o))%nat || (length (passing c) <? length (o_sends o))%nat ||
         negb (covered bytes_eqb (o_signed o) (may_sign c)) ||
         negb (covered (fun x y => bytes_eqb (fst x) (fst y) && bytes_eqb (snd x) (snd y))
                       (map fst (o_sends o)) (may_send c))
      then Some (String.append "effect-without-gate:" (first_failure c))
      else
        (* a handler that reported a refusal must not have written a commitment, nor signed or submitted one:
           the signatures / transactions must be attributable to passing handlers that did NOT return an early
           refusal *)
        let quiet := filter (fun h => negb (refused_early c h)) (passing c) in
        if existsb (fun w => existsb (fun r => (fst r =? wo_h w) && negb (snd r =? 0) && negb (snd r =? 8)) (o_rets o))
                   (o_writes o) ||
           negb (covered bytes_eqb (o_signed o) (may_sign_of c quiet)) ||
           negb (covered (fun x y => bytes_eqb (fst x) (fst y) && bytes_eqb (snd x) (snd y))
                         (map fst (o_sends o)) (may_send_of c quiet))
        then Some "refusal-with-effect"%string
        else None
  end.

Definition violations (cs : list case) : list (N * string) :=
  flat_map (fun c => match violation c with Some k => [(id c, k)] | None => [] end) cs.

(* non-trivial: a handler arrived and either some gate refuses or the accepted path ran *)
Definition nontrivial (cs : list case) : list N :=
  map id (filter (fun c => match arrivals (all_evs c) with [] => false | _ => true end) cs).
