(* Correspondence + property checker for C20, evaluated on observations of real libp2p
   services on loopback (driver: harness/overlays/pkg/p2p/libp2p/zz_verif_c20_test.go).
   Definitions only. *)
From Coq Require Import String List NArith Bool Arith.
From MevVerif Require Import lib.Bytes gen.Generated model.ConnectRace.
Import ListNotations.
Open Scope N_scope.

(* what the initiator and the responder's handler saw of one stream *)
Inductive sres :=
| SHandled (addr : bytes) (t : N)   (* header and message round trip completed; the handler was
                                       called with this peer identity *)
| SRefused                          (* NewStream or the round trip failed (reset, closed, unknown) *)
| SPending.                         (* neither within the case's time limit *)

(* schedule classes realised by the driver
   0  gated: the responder is held inside KeySigner.GetAddress (after it read the final
      handshake message, before it registers the peer); Connect has returned; the streams are
      opened and given time to reach the wrapper; then the gate is released
   1  the streams are opened after the responder finished its side (registered or refused)
   2  free running: GetAddress sleeps for a delay, the initiator opens streams immediately
   3  mutual dial: B = (i_addr, ...) dials A = (r_addr, ...); B is held between the last
      message of its outbound handshake and its addPeer; A's handler registers B; A's Connect(B)
      returns through the shortcut ([connect_ok], [ret_*] describe THIS connect); A opens the
      streams, which B answers ([outcomes]: the identity B's handler saw); then B goes on
   4  cross dial: both nodes call Connect towards each other at the same time (two handshakes in
      opposite directions); one case per direction: the i_ fields describe the node that opened the streams, the r_
      fields the node that answered.
      Compared with the final outcome of the cross-dial world of the model under one canonical
      schedule, and judged by the property checker
   5 .. 10  cross dial under six schedules the driver enforces (see [x2_explains] below and
      [x_pre] in the model); fields as in class 4, [early] and [ga] compared as well *)
Record case := {
  id : N;
  klass : N;
  nstreams : N;
  ninit : N;                 (* initiators handshaking concurrently with this responder *)
  i_addr : bytes; i_type : N; i_staked : bool;   (* i_staked: answer of the responder's registry *)
  r_addr : bytes; r_type : N; r_staked : bool;   (* r_staked: answer of the initiator's registry *)
  r_ks_ok : bool;            (* responder's GetAddress reports the address of its own key *)
  prior : N;                 (* an earlier handshake between the same two peer ids, finished before
                                this one started: 0 none; 1 refused -- the initiating node's registry
                                did not know the (provider) responder, so it gave up after reading the
                                responder's request and the responder's final read failed; 2 accepted
                                -- the node then reconnected with the same key, and the old connection
                                was closed (its registry entry removed) while the responder was held;
                                3 as 2, but the old connection was closed only after the responder had
                                finished the new handshake (the registry then keeps its entry through the
                                new connection -- connection bookkeeping is not in this model, which is
                                evaluated as for 2) *)
  prior_ok : bool;           (* observation: that earlier Connect reported success *)
  conn_close_other : bool;   (* class 0: while the responder was held, another connection made
                                under the initiator's peer id was closed at the responder *)
  (* observation *)
  connect_ok : bool;
  ret_addr : bytes; ret_type : N;   (* the peer Connect returned *)
  early : N;                 (* class 0: streams that completed (either way) before the release *)
  reg_at_gate : bool;        (* class 0: the responder had already registered the initiator while
                                it was held inside GetAddress *)
  outcomes : list sres;
  ga : N                     (* calls of the responder's GetAddress during the case *)
}.

Definition addrN (b : bytes) : N := unbe b.

Definition cfg_of (c : case) : cfg :=
  let ia := addrN (i_addr c) in
  let ra := addrN (r_addr c) in
  {| ini := {| pid_addr := ia; sig_addr := Some ia; ks_addr := ia; ptype := i_type c; staked := i_staked c |};
     rsp := {| pid_addr := ra; sig_addr := Some ra; ks_addr := (if r_ks_ok c then ra else ra + 1);
               ptype := r_type c; staked := r_staked c |} |}.

Definition sres_agrees (s : wstate) (o : sres) : bool :=
  match s, o with
  | WHandled (a, t), SHandled b t' => (a =? addrN b) && (t =? t')
  | WUnknown, SRefused | WTorn, SRefused => true
  | WNew, SPending | WWait, SPending | WLook2, SPending => true
  | _, _ => false
  end.

Fixpoint all2 {A B : Type} (f : A -> B -> bool) (l : list A) (m : list B) : bool :=
  match l, m with
  | [], [] => true
  | a :: l', b :: m' => f a b && all2 f l' m'
  | _, _ => false
  end.

Definition finished (s : wstate) : bool :=
  match s with WHandled _ | WUnknown | WTorn => true | _ => false end.

Definition ret_agrees (w : world) (c : case) : bool :=
  match returned w with
  | Some (a, t) => connect_ok c && (a =? addrN (ret_addr c)) && (t =? ret_type c)
  | None => negb (connect_ok c)
  end.

(* the earlier attempt, run to its end on both sides *)
Definition prior_cfg (c : case) : cfg :=
  let c0 := cfg_of c in
  if prior c =? 1 then
    {| ini := ini c0;
       rsp := {| pid_addr := pid_addr (rsp c0); sig_addr := sig_addr (rsp c0); ks_addr := ks_addr (rsp c0);
                 ptype := ptype (rsp c0); staked := false |} |}
  else c0.
Definition prior_world (c : case) : world := run deployed (prior_cfg c) sched_handshake.
Definition is_some {A : Type} (o : option A) : bool := match o with Some _ => true | None => false end.

(* the world in which the observed attempt starts; None: the earlier attempt did not end the way
   the class says (then nothing explains the case) *)
Definition start_of (p : N) (w1 : world) : option world :=
  if p =? 0 then Some init
  else if p =? 1 then
    (if is_done (rpc w1) && negb (is_some (registered w1)) && negb (is_some (returned w1))
     then Some (next_attempt w1) else None)
  else
    (if is_done (rpc w1) && is_some (registered w1) && is_some (returned w1)
     then Some (forget_registration (next_attempt w1)) else None).
Definition start_world (c : case) : option world := start_of (prior c) (prior_world c).

Definition prior_agrees (c : case) : bool :=
  if prior c =? 0 then negb (prior_ok c)
  else Bool.eqb (is_some (returned (prior_world c))) (prior_ok c).

(* does the world reached by the model under one schedule explain the observation? *)
Definition explains (c : case) (sched : list who) : bool :=
  match start_world c with
  | None => false
  | Some w0 =>
      let w := run_from deployed (cfg_of c) w0 sched in
      ret_agrees w c && all2 sres_agrees (wr w) (outcomes c) &&
      (N.of_nat (ga_calls w) * ninit c =? ga c)
  end.

Definition candidates (c : case) : list (list who) :=
  let n := N.to_nat (nstreams c) in
  if klass c =? 0 then [sched_open_before_release_env (conn_close_other c) n]
  else if klass c =? 1 then [sched_open_after_release n]
  else [sched_open_before_release n; sched_open_mid n; sched_open_after_release n].

Definition early_agrees (c : case) : bool :=
  if klass c =? 0 then
    let w := run_from deployed (cfg_of c) (match start_world c with Some w0 => w0 | None => init end)
                      (sched_before_env (conn_close_other c) (N.to_nat (nstreams c))) in
    (N.of_nat (length (filter finished (wr w))) =? early c) &&
    Bool.eqb (match registered w with Some _ => true | None => false end) (reg_at_gate c)
  else (early c =? 0) && negb (reg_at_gate c).

(* class 3: the mutual-dial world *)
Definition m_ret_agrees (m : mworld) (c : case) : bool :=
  match a_ret m with
  | Some (a, t) => connect_ok c && (a =? addrN (ret_addr c)) && (t =? ret_type c)
  | None => negb (connect_ok c)
  end.
Definition m_explains (c : case) (sched : list mwho) : bool :=
  let m := mrun ob_deployed (cfg_of c) sched in
  m_ret_agrees m c && all2 sres_agrees (bw m) (outcomes c) &&
  (N.of_nat (ga_calls (base m)) * ninit c =? ga c).
Definition m_candidates (c : case) : list (list mwho) :=
  let n := N.to_nat (nstreams c) in
  [msched_first_lookup_before n; msched_all_before n ++ m_rests n].
Definition m_early_agrees (c : case) : bool :=
  let n := N.to_nat (nstreams c) in
  existsb (fun sched => N.of_nat (length (filter finished (bw (mrun ob_deployed (cfg_of c) sched)))) =? early c)
          [msched_held n; msched_held n ++ m_rests n].

Definition explains_outcome_only (c : case) (sched : list who) : bool :=
  let w := run deployed (cfg_of c) sched in
  ret_agrees w c && all2 sres_agrees (wr w) (outcomes c).

(* class 4 against the cross-dial world: a = the node that opened the streams, b = the one that
   answered; final outcome and Connect result only (which Connect takes the shortcut, and how
   many streams end before the release, depends on the race between the two dials) *)
Definition x_explains (c : case) : bool :=
  let x := xrun (ini (cfg_of c)) (rsp (cfg_of c)) (x_full (N.to_nat (nstreams c))) in
  match ret1 x with
  | Some (a, t) => connect_ok c && (a =? addrN (ret_addr c)) && (t =? ret_type c)
  | None => negb (connect_ok c)
  end && all2 sres_agrees (sA x) (outcomes c).

(* classes 5 .. 10: the cross-dial world under the schedule the driver enforced with its gates and
   positive synchronisation (model/ConnectRace.v, [x_pre]): Connect result, the streams that had
   ended while the handlers were still held ([early], counted for this direction), the final
   outcomes, and the calls of GetAddress by the answering node's handler ([ga]: none when the
   opener's Connect took the shortcut, one when it dialled) *)
Definition is_xsched (k : N) : bool := (5 <=? k) && (k <=? 10).
Definition x2_explains (c : case) : bool :=
  let a := ini (cfg_of c) in
  let b := rsp (cfg_of c) in
  let n := N.to_nat (nstreams c) in
  let xg := xrun a b (x_sched_gate (klass c) n) in
  let x := xrun a b (x_sched_end (klass c) n) in
  match ret1 x with
  | Some (a, t) => connect_ok c && (a =? addrN (ret_addr c)) && (t =? ret_type c)
  | None => negb (connect_ok c)
  end && all2 sres_agrees (sA x) (outcomes c) &&
  (N.of_nat (length (filter finished (sA xg))) =? early c) &&
  (N.of_nat (ga_calls (h1 x)) =? ga c).

Definition agrees (c : case) : bool :=
  if is_xsched (klass c) then x2_explains c
  else
  if klass c =? 4 then x_explains c
  else
  if klass c =? 3 then
    existsb (m_explains c) (m_candidates c) && m_early_agrees c && negb (reg_at_gate c) &&
    (prior c =? 0) && negb (prior_ok c)
  else existsb (explains c) (candidates c) && early_agrees c && prior_agrees c.

Definition mismatches (cs : list case) : list N :=
  map id (filter (fun c => negb (agrees c)) cs).

(* The property on the implementation's own observation: once Connect reported success (and
   the responder is not misconfigured against its own identity) every stream the initiator
   opened is handled, with the initiator's identity. *)
(* class 3: the streams are A's, answered by B: the identity to be seen is A's *)
Definition expected_addr (c : case) : bytes := if klass c =? 3 then r_addr c else i_addr c.
Definition expected_type (c : case) : N := if klass c =? 3 then r_type c else i_type c.
Definition stream_violation (c : case) (o : sres) : option string :=
  match o with
  | SHandled a t =>
      if bytes_eqb a (expected_addr c) && (t =? expected_type c) then None
      else Some "wrong-identity"%string
  | SRefused =>
      if klass c =? 3 then Some "reset-after-connect:mutual-dial"%string
      else Some "reset-after-connect"%string
  | SPending =>                      (* neither handled nor refused within the case's bound *)
      if klass c =? 3 then Some "never-handled:mutual-dial"%string
      else Some "never-handled"%string
  end.

Definition in_claim (c : case) : bool := connect_ok c && (r_ks_ok c || (klass c =? 3)).

Definition violation (c : case) : option string :=
  if in_claim c then
    fold_left (fun acc o => match acc with Some k => Some k | None => stream_violation c o end)
              (outcomes c) None
  else None.

Definition violations (cs : list case) : list (N * string) :=
  flat_map (fun c => match violation c with Some k => [(id c, k)] | None => [] end) cs.

Definition nontrivial (cs : list case) : list N :=
  map id (filter (fun c => in_claim c && (0 <? N.of_nat (length (outcomes c)))) cs).
