(* Correspondence + property checker for C09, evaluated on recorded runs of the real
   EvmClient/txmonitor (both transports).  Definitions only.

   A case is the linearised log of one gated schedule: the events the monitor performed
   (driver stimuli and the chain node's answers as seen by the monitor), interleaved with
   samples of PendingTxns(), plus what every external waiter found in its channel. *)
From Coq Require Import String List NArith Bool.
From MevVerif Require Import lib.Bytes model.TxMonitor.
Import ListNotations.
Open Scope N_scope.

Inductive item :=
| Ev (e : event)
| ObsPending (l : list N)       (* PendingTxns() at a quiescent point *)
| ObsBusy (b : bool)            (* at a quiescent point: is a receipt batch / individual query of check() in progress? *)
| ObsProc (h : N) (r : reply)   (* wire level: the batch element of hash h, answered r, is the one the next [Proc] hands over *)
| ObsOut (w : N) (o : wout).    (* waiter w found o in its channel (logged when it arrives: position in the run) *)

Record case := {
  id : N;
  transport : N;                      (* 0 = function mock, 1 = rpc.Client over HTTP JSON-RPC *)
  items : list item;
  outs : list (N * list wout);        (* external waiters: every value read from the channel / the call's result *)
  refusedw : list N;                  (* WaitForReceipt calls that returned "tx not found" *)
  gaveup : list N;                    (* WaitForReceipt callers whose context the driver ended: they left, nothing is owed *)
  crashed : bool;                     (* the process running the case died with a Go panic *)
  close_ok : bool                     (* Close() returned nil *)
}.

Definition wout_eqb (a b : wout) : bool :=
  match a, b with
  | OReceipt h s, OReceipt h' s' => (h =? h') && (s =? s')
  | OCancelled, OCancelled => true
  | OClosed, OClosed => true
  | _, _ => false
  end.
Fixpoint wouts_eqb (a b : list wout) : bool :=
  match a, b with
  | [], [] => true
  | x :: a', y :: b' => wout_eqb x y && wouts_eqb a' b'
  | _, _ => false
  end.
Definition subsetN (a b : list N) : bool := forallb (fun x => memN x b) a.
Definition same_set (a b : list N) : bool := subsetN a b && subsetN b a.

Fixpoint obs_of (w : N) (o : list (N * list wout)) : option (list wout) :=
  match o with
  | [] => None
  | (w', l) :: r => if w' =? w then Some l else obs_of w r
  end.

(* what the chain node's answers oblige the monitor to tell the waiters of that transaction *)
Definition expect (h : N) (r : reply) (fb : option reply) : option wout :=
  match r with
  | RReceipt st => Some (OReceipt h st)
  | RNotFound => Some OCancelled
  | RNullOverWire =>
      match fb with
      | Some (RReceipt st) => Some (OReceipt h st)
      | Some RRpcErr | Some RNullOverWire => None
      | Some RNotFound | None => Some OCancelled     (* null IS the node's "no receipt" *)
      end
  | RRpcErr =>
      match fb with
      | Some (RReceipt st) => Some (OReceipt h st)
      | Some RNotFound => Some OCancelled
      | _ => None
      end
  end.

Record acc := {
  st : mon;                    (* the model, run alongside *)
  due : list (N * wout);       (* (waiter, outcome) owed after a definite answer of the node *)
  stale : bool; foreign : bool;
  pend_mis : bool;
  stalled : bool;              (* a check that had to run (snapshot taken, waiters in it) issued no query *)
  busy_mis : bool;
  proc_mis : bool              (* the element announced on the wire is not the one the model processes *)
}.

(* observation-level bookkeeping of the prefix of the run, independent of the model *)
Record oacc := {
  nid : N;                                   (* next waiter identity (allocation order of the run) *)
  sents : list (N * N);                      (* Sent h n so far, newest first *)
  regs : list (N * N * N);                   (* (waiter, hash, nonce) of the registrations so far *)
  nonces : list N;                           (* confirmed nonces the node has reported so far *)
  curp : option (N * reply);                 (* element announced by ObsProc, consumed by the next Proc *)
  bans : list (option N * N * reply);        (* (confirmed nonce of the check that asked, hash, answer) of every batch element received so far;
                                                None: no check was due when the batch came back *)
  sans : list (option N * N * reply);        (* the same for the individual queries *)
  closing : bool;                            (* Close seen *)
  watch_ok : list (N * bool);                (* WaitForReceipt callers: may this call be refused? *)
  bad : list string                          (* truthfulness clauses violated by an ObsOut *)
}.

Definition start : acc := {| st := init; due := []; stale := false; foreign := false; pend_mis := false;
                             stalled := false; busy_mis := false; proc_mis := false |}.
Definition ostart : oacc := {| nid := 0; sents := []; regs := []; nonces := []; curp := None; bans := []; sans := [];
                               closing := false; watch_ok := []; bad := [] |}.

Definition reply_eqb (a b : reply) : bool :=
  match a, b with
  | RReceipt s, RReceipt s' => s =? s'
  | RNotFound, RNotFound | RNullOverWire, RNullOverWire | RRpcErr, RRpcErr => true
  | _, _ => false
  end.
Definition is_rcpt (st : N) (r : reply) : bool := match r with RReceipt st' => st' =? st | _ => false end.
Definition opt_is (p : reply -> bool) (o : option reply) : bool := match o with Some r => p r | None => false end.
Definition is_notfound (r : reply) : bool := match r with RNotFound => true | _ => false end.

(* What the node has answered FOR HASH h so far, at the wire: elements of the batch replies received
   (batch part [bs]) and answers to individual queries for h (part [ss], the hash being the one
   announced by ObsProc). *)
Definition said_receipt (bs ss : list (option N * N * reply)) (h st : N) : bool :=
  existsb (fun e => let '(_, h', r) := e in (h' =? h) && is_rcpt st r) (bs ++ ss).
Definition said_any_receipt (bs ss : list (option N * N * reply)) (h : N) : bool :=
  existsb (fun e => let '(_, h', r) := e in (h' =? h) && match r with RReceipt _ => true | _ => false end) (bs ++ ss).
(* "no receipt" for (h, nonce n): the sentinel or null in a batch, NotFound to the individual query,
   asked by a check whose confirmed nonce c -- the one reported to the poll that handed this check
   over -- is above n *)
Definition passed (n : N) (c : option N) : bool := match c with Some c => n <? c | None => false end.
Definition said_none (bs ss : list (option N * N * reply)) (h n : N) : bool :=
  existsb (fun e => let '(c, h', r) := e in (h' =? h) && no_receipt r && passed n c) bs ||
  existsb (fun e => let '(c, h', r) := e in (h' =? h) && is_notfound r && passed n c) ss.

Fixpoint tx_of (w : N) (ws : list (N * N * N)) : option (N * N) :=
  match ws with
  | [] => None
  | (w', h, n) :: r => if w' =? w then Some (h, n) else tx_of w r
  end.

(* one observed outcome against the prefix of the run before it *)
Definition out_ok (a : oacc) (w : N) (o : wout) : option string :=
  match tx_of w (regs a) with
  | None => None
  | Some (h, n) =>
      match o with
      | OReceipt h' st => if (h' =? h) && said_receipt (bans a) (sans a) h st then None else Some "false-receipt"%string
      | OCancelled =>
          if said_none (bans a) (sans a) h n then None else Some "false-cancel"%string
      | OClosed => if closing a then None else Some "closed-before-close"%string
      end
  end.

Definition waiters_at (s : mon) (n h : N) : list N := map waiter_of (filter (key_is n h) (wait s)).

(* a sampled pending entry h is stale when some external waiter of h has, by now, been told
   "receipt" or "cancelled" (model position) and really found that in its channel (observation) *)
Definition told (outs : list (N * list wout)) (s : mon) (h : N) : bool :=
  existsb (fun e => let '(w, h', _) := e in
                    (h' =? h) &&
                    match out_of w (delivered s), obs_of w outs with
                    | Some OClosed, _ => false
                    | Some o, Some [o'] => wout_eqb o o'
                    | _, _ => false
                    end) (watchers s).

Definition step_item (outs : list (N * list wout)) (a : acc) (it : item) : acc :=
  match it with
  | Ev e =>
      let s := st a in
      let d :=
        match e, chk s with
        | Proc fb, InFlight c snap ((n, h, r) :: q) =>
            if panicked s then [] else
            match expect h r fb with
            | Some o => map (fun w => (w, o)) (waiters_at s n h)
            | None => []
            end
        | _, _ => []
        end in
      {| st := step current s e; due := due a ++ d; stale := stale a; foreign := foreign a; pend_mis := pend_mis a;
         stalled := stalled a; busy_mis := busy_mis a; proc_mis := proc_mis a |}
  | ObsPending l =>
      let s := st a in
      {| st := s; due := due a;
         stale := stale a || existsb (told outs s) l;
         foreign := foreign a || negb (subsetN l (sent s));
         pend_mis := pend_mis a || negb (same_set l (pending_hashes s));
         stalled := stalled a; busy_mis := busy_mis a; proc_mis := proc_mis a |}
  | ObsBusy b =>
      (* the checker is inside check() exactly while the model is InFlight (C09_new_block_starts_check,
         C09_snapshot_covers: a handed-over check with waiters below the confirmed nonce asks the node) *)
      let s := st a in
      let inflight := match chk s with InFlight _ _ _ => true | _ => false end in
      {| st := s; due := due a; stale := stale a; foreign := foreign a; pend_mis := pend_mis a;
         stalled := stalled a || (negb b && negb (panicked s) &&
                                  match chk s with InFlight _ (_ :: _) [] => true | _ => false end);
         busy_mis := busy_mis a || negb (Bool.eqb b inflight); proc_mis := proc_mis a |}
  | ObsProc h r =>
      let s := st a in
      {| st := s; due := due a; stale := stale a; foreign := foreign a; pend_mis := pend_mis a;
         stalled := stalled a; busy_mis := busy_mis a;
         proc_mis := proc_mis a || negb (panicked s) &&
                     negb (match chk s with
                           | InFlight _ _ ((_, h', r') :: _) => (h' =? h) && reply_eqb r' r
                           | _ => false
                           end) |}
  | ObsOut _ _ => a
  end.

Definition replay (c : case) : acc := fold_left (step_item (outs c)) (items c) start.

Fixpoint lookupN (h : N) (l : list (N * N)) : option N :=
  match l with [] => None | (k, v) :: r => if k =? h then Some v else lookupN h r end.

Definition oset (a : oacc) nid' sents' regs' nonces' curp' bans' sans' closing' watch_ok' bad' : oacc :=
  {| nid := nid'; sents := sents'; regs := regs'; nonces := nonces'; curp := curp'; bans := bans'; sans := sans';
     closing := closing'; watch_ok := watch_ok'; bad := bad' |}.

Definition step_obs (s : mon) (a : oacc) (it : item) : oacc :=
  let cur := match chk s with InFlight c _ _ => if panicked s then None else Some c | _ => None end in
  match it with
  | Ev (Sent h n) => oset a (nid a) ((h, n) :: sents a) (regs a) (nonces a) (curp a) (bans a) (sans a) (closing a) (watch_ok a) (bad a)
  | Ev (InternalWatch h n) | Ev (WatchRaw h n) =>
      oset a (nid a + 1) (sents a) ((nid a, h, n) :: regs a) (nonces a) (curp a) (bans a) (sans a) (closing a) (watch_ok a) (bad a)
  | Ev (Watch h) =>
      (* a refusal is in order only if h was never sent or a receipt for h has been handed over *)
      let ok := match lookupN h (sents a) with None => true | Some _ => said_any_receipt (bans a) (sans a) h end in
      let regs' := match lookupN h (sents a) with Some n => (nid a, h, n) :: regs a | None => regs a end in
      oset a (nid a + 1) (sents a) regs' (nonces a) (curp a) (bans a) (sans a) (closing a) ((nid a, ok) :: watch_ok a) (bad a)
  | Ev (Poll (Some _) (Some c) _) =>
      oset a (nid a) (sents a) (regs a) (c :: nonces a) (curp a) (bans a) (sans a) (closing a) (watch_ok a) (bad a)
  | Ev (BatchReply rs) =>
      oset a (nid a) (sents a) (regs a) (nonces a) (curp a) (map (fun hr => (cur, fst hr, snd hr)) rs ++ bans a) (sans a) (closing a) (watch_ok a) (bad a)
  | Ev (Proc fb) =>
      match curp a, fb with
      | Some (h, _), Some r => oset a (nid a) (sents a) (regs a) (nonces a) None (bans a) ((cur, h, r) :: sans a) (closing a) (watch_ok a) (bad a)
      | _, _ => oset a (nid a) (sents a) (regs a) (nonces a) None (bans a) (sans a) (closing a) (watch_ok a) (bad a)
      end
  | Ev Close => oset a (nid a) (sents a) (regs a) (nonces a) (curp a) (bans a) (sans a) true (watch_ok a) (bad a)
  | ObsProc h r => oset a (nid a) (sents a) (regs a) (nonces a) (Some (h, r)) (bans a) (sans a) (closing a) (watch_ok a) (bad a)
  | ObsOut w o =>
      match out_ok a w o with
      | Some k => oset a (nid a) (sents a) (regs a) (nonces a) (curp a) (bans a) (sans a) (closing a) (watch_ok a) (bad a ++ [k])
      | None => a
      end
  | _ => a
  end.
(* both accumulators side by side: the observation-level one reads the confirmed nonce of the check in
   flight from the model run alongside (state BEFORE the item) *)
Definition both (c : case) : acc * oacc :=
  fold_left (fun p it => (step_item (outs c) (fst p) it, step_obs (st (fst p)) (snd p) it)) (items c) (start, ostart).
Definition oreplay (c : case) : oacc := snd (both c).

(* ---- correspondence: model prediction = observation (projected observables only) --------- *)
Definition agrees (c : case) : bool :=
  let a := replay c in
  let s := st a in
  if crashed c then panicked s
  else
    negb (panicked s) && close_ok c && negb (pend_mis a) && negb (busy_mis a) && negb (proc_mis a) &&
    forallb (fun e => memN (fst e) (gaveup c) || wouts_eqb (outcomes_of s (fst e)) (snd e)) (outs c) &&
    same_set (refusedw c) (refused s).

Definition mismatches (cs : list case) : list N := map id (filter (fun c => negb (agrees c)) cs).

(* ---- the property on the implementation's own observation ------------------------------- *)
Definition evs_of (c : case) : list event :=
  flat_map (fun it => match it with Ev e => [e] | _ => [] end) (items c).

Definition opt_list {A} (o : option A) : list A := match o with Some a => [a] | None => [] end.

Fixpoint lookupB (w : N) (l : list (N * bool)) : option bool :=
  match l with [] => None | (k, v) :: r => if k =? w then Some v else lookupB w r end.

Definition violation_keys (c : case) : list string :=
  if crashed c then ["panic"%string] else
  let a := replay c in
  let o := oreplay c in
  let s := st a in
  (* at most one outcome per waiter *)
  (if existsb (fun e => match snd e with _ :: _ :: _ => true | _ => false end) (outs c)
   then ["two-outcomes"%string] else []) ++
  (* truthfulness of every observed outcome, against the prefix of the run before it arrived: the answer
     must be FOR THAT HASH, in an element already handed to the monitor; the confirmed nonce must have
     passed before; Close must have happened before *)
  bad o ++
  (* resolution: owed outcomes were delivered; a check that had to run ran; after the final drain nobody
     who registered is left without an outcome; nobody is refused while the transaction is unresolved *)
  (if existsb (fun d => negb (memN (fst d) (gaveup c)) &&
                        match obs_of (fst d) (outs c) with
                        | Some [x] => negb (wout_eqb x (snd d))
                        | Some _ => true
                        | None => false
                        end) (due a)
      || stalled a
      || (wl_exited s &&
          existsb (fun e => match snd e, tx_of (fst e) (regs o) with
                            | [], Some _ => negb (memN (fst e) (refusedw c)) && negb (memN (fst e) (gaveup c))
                            | _, _ => false
                            end) (outs c))
      || existsb (fun w => match lookupB w (watch_ok o) with Some false => true | _ => false end) (refusedw c)
   then ["unresolved"%string] else []) ++
  (if stale a then ["pending-stale"%string] else []) ++
  (if foreign a then ["pending-foreign"%string] else []).

Definition violations (cs : list case) : list (N * string) :=
  flat_map (fun c => map (fun k => (id c, k)) (violation_keys c)) cs.

(* cases in which some external waiter was answered through a check or the drain *)
Definition nontrivial (cs : list case) : list N :=
  map id (filter (fun c =>
    existsb (fun e => match snd e with [] => false | _ => true end) (outs c) &&
    existsb (fun e => match e with BatchReply _ | Drain => true | _ => false end) (evs_of c)) cs).
