(* Correspondence + property checker for C09, evaluated on recorded runs of the real
   EvmClient/txmonitor (both transports).  Definitions only.

   A case is the linearised log of one gated schedule: the events the monitor performed
   (driver stimuli and the chain node's answers as seen by the monitor), interleaved with
   samples of PendingTxns(), plus what every external waiter found in its channel. *)
From Coq Require Import String List NArith Bool.
From MevVerif Require Import lib.Bytes model.TxMonitor.
Import ListNotations.
Open Scope N_scope.

Inductive item :=
| Ev (e : event)
| ObsPending (l : list N)       (* PendingTxns() at a quiescent point *)
| ObsBusy (b : bool).           (* at a quiescent point: is a receipt batch / individual query of check() in progress? *)

Record case := {
  id : N;
  transport : N;                      (* 0 = function mock, 1 = rpc.Client over HTTP JSON-RPC *)
  items : list item;
  outs : list (N * list wout);        (* external waiters: every value read from the channel / the call's result *)
  refusedw : list N;                  (* WaitForReceipt calls that returned "tx not found" *)
  crashed : bool;                     (* the process running the case died with a Go panic *)
  close_ok : bool                     (* Close() returned nil *)
}.

Definition wout_eqb (a b : wout) : bool :=
  match a, b with
  | OReceipt h s, OReceipt h' s' => (h =? h') && (s =? s')
  | OCancelled, OCancelled => true
  | OClosed, OClosed => true
  | _, _ => false
  end.
Fixpoint wouts_eqb (a b : list wout) : bool :=
  match a, b with
  | [], [] => true
  | x :: a', y :: b' => wout_eqb x y && wouts_eqb a' b'
  | _, _ => false
  end.
Definition subsetN (a b : list N) : bool := forallb (fun x => memN x b) a.
Definition same_set (a b : list N) : bool := subsetN a b && subsetN b a.

Fixpoint obs_of (w : N) (o : list (N * list wout)) : option (list wout) :=
  match o with
  | [] => None
  | (w', l) :: r => if w' =? w then Some l else obs_of w r
  end.

(* what the chain node's answers oblige the monitor to tell the waiters of that transaction *)
Definition expect (h : N) (r : reply) (fb : option reply) : option wout :=
  match r with
  | RReceipt st => Some (OReceipt h st)
  | RNotFound => Some OCancelled
  | RNullOverWire =>
      match fb with
      | Some (RReceipt st) => Some (OReceipt h st)
      | Some RRpcErr | Some RNullOverWire => None
      | Some RNotFound | None => Some OCancelled     (* null IS the node's "no receipt" *)
      end
  | RRpcErr =>
      match fb with
      | Some (RReceipt st) => Some (OReceipt h st)
      | Some RNotFound => Some OCancelled
      | _ => None
      end
  end.

Record acc := {
  st : mon;                    (* the model, run alongside *)
  due : list (N * wout);       (* (waiter, outcome) owed after a definite answer of the node *)
  stale : bool; foreign : bool;
  pend_mis : bool;
  stalled : bool;              (* a check that had to run (snapshot taken, waiters in it) issued no query *)
  busy_mis : bool
}.

Definition start : acc := {| st := init; due := []; stale := false; foreign := false; pend_mis := false;
                             stalled := false; busy_mis := false |}.

Definition waiters_at (s : mon) (n h : N) : list N := map waiter_of (filter (key_is n h) (wait s)).

(* a sampled pending entry h is stale when some external waiter of h has, by now, been told
   "receipt" or "cancelled" (model position) and really found that in its channel (observation) *)
Definition told (outs : list (N * list wout)) (s : mon) (h : N) : bool :=
  existsb (fun e => let '(w, h', _) := e in
                    (h' =? h) &&
                    match out_of w (delivered s), obs_of w outs with
                    | Some OClosed, _ => false
                    | Some o, Some [o'] => wout_eqb o o'
                    | _, _ => false
                    end) (watchers s).

Definition step_item (outs : list (N * list wout)) (a : acc) (it : item) : acc :=
  match it with
  | Ev e =>
      let s := st a in
      let d :=
        match e, chk s with
        | Proc fb, InFlight c snap ((n, h, r) :: q) =>
            if panicked s then [] else
            match expect h r fb with
            | Some o => map (fun w => (w, o)) (waiters_at s n h)
            | None => []
            end
        | _, _ => []
        end in
      {| st := step current s e; due := due a ++ d; stale := stale a; foreign := foreign a; pend_mis := pend_mis a;
         stalled := stalled a; busy_mis := busy_mis a |}
  | ObsPending l =>
      let s := st a in
      {| st := s; due := due a;
         stale := stale a || existsb (told outs s) l;
         foreign := foreign a || negb (subsetN l (sent s));
         pend_mis := pend_mis a || negb (same_set l (pending_hashes s));
         stalled := stalled a; busy_mis := busy_mis a |}
  | ObsBusy b =>
      (* the checker is inside check() exactly while the model is InFlight (C09_new_block_starts_check,
         C09_snapshot_covers: a handed-over check with waiters below the confirmed nonce asks the node) *)
      let s := st a in
      let inflight := match chk s with InFlight _ _ _ => true | _ => false end in
      {| st := s; due := due a; stale := stale a; foreign := foreign a; pend_mis := pend_mis a;
         stalled := stalled a || (negb b && negb (panicked s) &&
                                  match chk s with InFlight _ (_ :: _) [] => true | _ => false end);
         busy_mis := busy_mis a || negb (Bool.eqb b inflight) |}
  end.

Definition replay (c : case) : acc := fold_left (step_item (outs c)) (items c) start.

(* ---- correspondence: model prediction = observation (projected observables only) --------- *)
Definition agrees (c : case) : bool :=
  let a := replay c in
  let s := st a in
  if crashed c then panicked s
  else
    negb (panicked s) && close_ok c && negb (pend_mis a) && negb (busy_mis a) &&
    forallb (fun e => wouts_eqb (outcomes_of s (fst e)) (snd e)) (outs c) &&
    same_set (refusedw c) (refused s).

Definition mismatches (cs : list case) : list N := map id (filter (fun c => negb (agrees c)) cs).

(* ---- the property on the implementation's own observation ------------------------------- *)
Definition evs_of (c : case) : list event :=
  flat_map (fun it => match it with Ev e => [e] | _ => [] end) (items c).

Definition node_said (evs : list event) (h : N) (p : reply -> bool) : bool :=
  existsb (fun e => match e with
                    | BatchReply rs => existsb (fun hr => (fst hr =? h) && p (snd hr)) rs
                    | Proc (Some r) => p r
                    | _ => false
                    end) evs.
Definition is_receipt (st : N) (r : reply) : bool := match r with RReceipt st' => st' =? st | _ => false end.
Definition nonce_passed (evs : list event) (n : N) : bool :=
  existsb (fun e => match e with Poll (Some _) (Some c) _ => n <? c | _ => false end) evs.
Definition has_close (evs : list event) : bool := existsb (fun e => match e with Close => true | _ => false end) evs.

(* (hash, nonce) of waiter w according to the registrations of the run *)
Fixpoint tx_of (w : N) (ws : list (N * N * N)) : option (N * N) :=
  match ws with
  | [] => None
  | (w', h, n) :: r => if w' =? w then Some (h, n) else tx_of w r
  end.

Definition outcome_ok (evs : list event) (hn : option (N * N)) (o : wout) : option string :=
  match hn with
  | None => None       (* refused caller: reported through the correspondence *)
  | Some (h, n) =>
      match o with
      | OReceipt h' st =>
          if (h' =? h) && node_said evs h (is_receipt st) then None else Some "false-receipt"%string
      | OCancelled =>
          if nonce_passed evs n && node_said evs h no_receipt then None else Some "false-cancel"%string
      | OClosed => if has_close evs then None else Some "closed-before-close"%string
      end
  end.

Definition opt_list {A} (o : option A) : list A := match o with Some a => [a] | None => [] end.

Definition violation_keys (c : case) : list string :=
  if crashed c then ["panic"%string] else
  let a := replay c in
  let s := st a in
  let evs := evs_of c in
  (* at most one outcome per waiter *)
  (if existsb (fun e => match snd e with _ :: _ :: _ => true | _ => false end) (outs c)
   then ["two-outcomes"%string] else []) ++
  (* truthfulness of every observed outcome *)
  flat_map (fun e => flat_map (fun o => opt_list (outcome_ok evs (tx_of (fst e) (watchers s)) o)) (snd e)) (outs c) ++
  (* resolution: owed outcomes were delivered; after the final drain nobody is left without one *)
  (if existsb (fun d => match obs_of (fst d) (outs c) with
                        | Some [o] => negb (wout_eqb o (snd d))
                        | Some _ => true
                        | None => false
                        end) (due a)
      || stalled a
      || (wl_exited s &&
          existsb (fun e => match snd e, tx_of (fst e) (watchers s) with [], Some _ => true | _, _ => false end) (outs c))
   then ["unresolved"%string] else []) ++
  (if stale a then ["pending-stale"%string] else []) ++
  (if foreign a then ["pending-foreign"%string] else []).

Definition violations (cs : list case) : list (N * string) :=
  flat_map (fun c => map (fun k => (id c, k)) (violation_keys c)) cs.

(* cases in which some external waiter was answered through a check or the drain *)
Definition nontrivial (cs : list case) : list N :=
  map id (filter (fun c =>
    existsb (fun e => match snd e with [] => false | _ => true end) (outs c) &&
    existsb (fun e => match e with BatchReply _ | Drain => true | _ => false end) (evs_of c)) cs).
