(* Property checker for C07 on the observations of the C01/C07 driver (same case type, same
   correspondence as check/Check_C01.v).  Definitions only. *)
From Coq Require Import String List NArith ZArith Bool.
From MevVerif Require Import lib.Bytes lib.Abi lib.Keccak model.Rules model.ProviderSvc model.PreconfProvider
  check.Check_C01.
Import ListNotations.
Open Scope N_scope.

Definition case := Check_C01.case.
Definition mismatches := Check_C01.mismatches.

Definition slot_names : list string :=
  ["amount"; "blockNumber"; "txHash"; "decayStart"; "decayEnd"; "bidSignature"; "commitmentSignature"]%string.

Fixpoint first_diff (names : list string) (a b : list Abi.val) : option string :=
  match names, a, b with
  | n :: ns, x :: a', y :: b' => if Abi.val_eqb x y then first_diff ns a' b' else Some n
  | _, [], [] => None
  | n :: _, _, _ => Some n
  | [], _, _ => Some "arity"%string
  end.

(* what the ABI-decoded calldata must be for commitment c: the decimal amount, the three int64
   fields, the transaction-hash string, the two signatures *)
Definition expected_args (c : preconf) : option (list Abi.val) :=
  match parse_bigint (b_amt (c_bid c)) with
  | Some amt => Some (store_args amt c)
  | None => None
  end.
Definition expected_selector : bytes := Abi.selector keccak256 (Abi.method_sig store_name store_tys).

(* does the transaction (to, calldata) carry commitment c to the configured contract? *)
Definition send_differs (contract : bytes) (c : preconf) (to cd : bytes) : option string :=
  if negb (bytes_eqb to contract) then Some "destination"%string else
  match Abi.decode_call store_tys cd, expected_args c with
  | Some (sel, args), Some want =>
      if negb (bytes_eqb sel expected_selector) then Some "selector"%string
      else first_diff slot_names args want
  | None, _ => Some "undecodable"%string
  | _, None => Some "amount"%string
  end.

(* the successful submission that carries commitment w must have COMPLETED before w was written: its rank
   among the successful submissions is at most the number of successful submissions seen at the write
   (concurrent handlers: another handler's success does not count) *)
Definition write_violation (c : Check_C01.case) (w : write_obs) : option string :=
  let sends := combine (o_sends (ob c)) (o_send_seq (ob c)) in
  let oks := filter (fun s => snd (fst s)) sends in
  let carries s := match send_differs (contract c) (wo_c w) (fst (fst (fst s))) (snd (fst (fst s))) with
                   | None => true | Some _ => false end in
  if wo_sends_ok_before w =? 0 then
    if existsb (fun s => negb (snd (fst s))) sends then Some "commitment-after-store-failure"%string
    else Some "write-before-store"%string
  else
    if existsb (fun s => carries s && (1 <=? snd s) && (snd s <=? wo_sends_ok_before w)) oks then None
    else if existsb carries oks then Some "write-before-store"%string
    else match oks with
         | s :: _ => match send_differs (contract c) (wo_c w) (fst (fst (fst s))) (snd (fst (fst s))) with
                     | Some k => Some (String.append "calldata-differs:" k)
                     | None => None end
         | [] => Some "write-before-store"%string
         end.

Definition violation (c : Check_C01.case) : option string :=
  match flat_map (fun w => match write_violation c w with Some k => [k] | None => [] end) (o_writes (ob c)) with
  | k :: _ => Some k
  | [] =>
      (* more commitments than successful submissions *)
      if (length (filter (fun s => snd s) (o_sends (ob c))) <? length (o_writes (ob c)))%nat
      then Some "commitment-after-store-failure"%string else None
  end.

Definition violations (cs : list Check_C01.case) : list (N * string) :=
  flat_map (fun c => match violation c with Some k => [(Check_C01.id c, k)] | None => [] end) cs.

(* non-trivial: a settlement transaction was submitted *)
Definition nontrivial (cs : list Check_C01.case) : list N :=
  map Check_C01.id (filter (fun c => match o_sends (ob c) with [] => false | _ => true end) cs).
