(* Property checker for C07 on the observations of the C01/C07 driver (same case type, same
   correspondence as check/Check_C01.v).  Definitions only. *)
From Coq Require Import String List NArith ZArith Bool.
From MevVerif Require Import lib.Bytes lib.Abi lib.Keccak model.Rules model.ProviderSvc model.PreconfProvider
  check.Check_C01.
From MevVerif Require model.EvmSend model.EvmTx lib.Rlp model.EvmTxWire.
Import ListNotations.
Open Scope N_scope.

(* cases of the handler-level driver classes (shared with C01) *)
Definition base_case := Check_C01.case.

Definition slot_names : list string :=
  ["amount"; "blockNumber"; "txHash"; "decayStart"; "decayEnd"; "bidSignature"; "commitmentSignature"]%string.

Fixpoint first_diff (names : list string) (a b : list Abi.val) : option string :=
  match names, a, b with
  | n :: ns, x :: a', y :: b' => if Abi.val_eqb x y then first_diff ns a' b' else Some n
  | _, [], [] => None
  | n :: _, _, _ => Some n
  | [], _, _ => Some "arity"%string
  end.

(* what the ABI-decoded calldata must be for commitment c: the decimal amount, the three int64
   fields, the transaction-hash string, the two signatures *)
Definition expected_args (c : preconf) : option (list Abi.val) :=
  match parse_bigint (b_amt (c_bid c)) with
  | Some amt => Some (store_args amt c)
  | None => None
  end.
Definition expected_selector : bytes := Abi.selector keccak256 (Abi.method_sig store_name store_tys).

(* does the transaction (to, calldata) carry commitment c to the configured contract? *)
Definition send_differs (contract : bytes) (c : preconf) (to cd : bytes) : option string :=
  if negb (bytes_eqb to contract) then Some "destination"%string else
  match Abi.decode_call store_tys cd, expected_args c with
  | Some (sel, args), Some want =>
      if negb (bytes_eqb sel expected_selector) then Some "selector"%string
      else first_diff slot_names args want
  | None, _ => Some "undecodable"%string
  | _, None => Some "amount"%string
  end.

(* the successful submission that carries commitment w must have COMPLETED before w was written: its rank
   among the successful submissions is at most the number of successful submissions seen at the write
   (concurrent handlers: another handler's success does not count) *)
Definition write_violation (c : Check_C01.case) (w : write_obs) : option string :=
  let sends := combine (o_sends (ob c)) (o_send_seq (ob c)) in
  let oks := filter (fun s => snd (fst s)) sends in
  let carries s := match send_differs (contract c) (wo_c w) (fst (fst (fst s))) (snd (fst (fst s))) with
                   | None => true | Some _ => false end in
  if wo_sends_ok_before w =? 0 then
    if existsb (fun s => negb (snd (fst s))) sends then Some "commitment-after-store-failure"%string
    else Some "write-before-store"%string
  else
    if existsb (fun s => carries s && (1 <=? snd s) && (snd s <=? wo_sends_ok_before w)) oks then None
    else if existsb carries oks then Some "write-before-store"%string
    else match oks with
         | s :: _ => match send_differs (contract c) (wo_c w) (fst (fst (fst s))) (snd (fst (fst s))) with
                     | Some k => Some (String.append "calldata-differs:" k)
                     | None => None end
         | [] => Some "write-before-store"%string
         end.

Definition violation (c : Check_C01.case) : option string :=
  match flat_map (fun w => match write_violation c w with Some k => [k] | None => [] end) (o_writes (ob c)) with
  | k :: _ => Some k
  | [] =>
      (* more commitments than successful submissions *)
      if (length (filter (fun s => snd s) (o_sends (ob c))) <? length (o_writes (ob c)))%nat
      then Some "commitment-after-store-failure"%string else None
  end.

Definition base_violations (cs : list Check_C01.case) : list (N * string) :=
  flat_map (fun c => match violation c with Some k => [(Check_C01.id c, k)] | None => [] end) cs.

(* non-trivial: a settlement transaction was submitted *)
Definition base_nontrivial (cs : list Check_C01.case) : list N :=
  map Check_C01.id (filter (fun c => match o_sends (ob c) with [] => false | _ => true end) cs).

(* ---- class raw-tx: the real preconfcontract.StoreCommitment / evmclient.Send over the real ethclient and a
   JSON-RPC endpoint; every raw transaction that reached the endpoint is decoded and compared field by field
   with model/EvmTx.v ------------------------------------------------------------------------------------- *)
Inductive txsrc :=
| SrcReq (r : EvmTx.txreq)              (* client.Send called directly with this request *)
| SrcStore (amt : Z) (c : preconf).     (* StoreCommitment called with the fields of c and the amount amt *)
Record txstep := { s_src : txsrc;
                   s_ans : EvmTx.node_ans;          (* what the endpoint / the key signer were scripted to answer *)
                   s_ret : N;                       (* 0: nil error, 1: error, 2: crash *)
                   s_raw : option EvmTx.dyntx;      (* the raw transaction the endpoint received during this step, decoded *)
                   s_raw_count : N;                 (* how many raw transactions it received during this step *)
                   s_type : N;                      (* its transaction type *)
                   s_sender : bytes;                (* its recovered sender *)
                   s_signed : bytes;                (* the bytes whose keccak256 go-ethereum's signer signs for it:
                                                       0x02 and the RLP list of its nine payload fields *)
                   s_est : option EvmTx.callmsg;    (* the argument of eth_estimateGas, if it was called *)
                   s_methods : list N }.            (* foreground calls seen, in order: 1 pending nonce, 2 estimate,
                                                       3 tip, 4 gas price, 5 raw transaction *)
Record txcase := { t_id : N; t_chain : Z; t_owner : bytes; t_contract : bytes; t_steps : list txstep }.

Inductive case := CBase (c : Check_C01.case) | CTx (t : txcase).
Definition bases (cs : list case) : list Check_C01.case := flat_map (fun c => match c with CBase b => [b] | _ => [] end) cs.
Definition txs (cs : list case) : list txcase := flat_map (fun c => match c with CTx t => [t] | _ => [] end) cs.

Definition req_of_src (contract : bytes) (s : txsrc) : EvmTx.txreq :=
  match s with
  | SrcReq r => r
  | SrcStore amt c => EvmTx.store_request contract (calldata keccak256 amt c)
  end.

Definition opt_eqb {A} (eqb : A -> A -> bool) (a b : option A) : bool :=
  match a, b with Some x, Some y => eqb x y | None, None => true | _, _ => false end.
Definition dyntx_eqb (a b : EvmTx.dyntx) : bool :=
  (EvmTx.tx_chain a =? EvmTx.tx_chain b)%Z && (EvmTx.tx_nonce a =? EvmTx.tx_nonce b) &&
  (EvmTx.tx_tip a =? EvmTx.tx_tip b)%Z && (EvmTx.tx_feecap a =? EvmTx.tx_feecap b)%Z &&
  (EvmTx.tx_gas a =? EvmTx.tx_gas b) && opt_eqb bytes_eqb (EvmTx.tx_to a) (EvmTx.tx_to b) &&
  (EvmTx.tx_value a =? EvmTx.tx_value b)%Z && bytes_eqb (EvmTx.tx_data a) (EvmTx.tx_data b).
Definition callmsg_eqb (a b : EvmTx.callmsg) : bool :=
  bytes_eqb (EvmTx.cm_from a) (EvmTx.cm_from b) && opt_eqb bytes_eqb (EvmTx.cm_to a) (EvmTx.cm_to b) &&
  bytes_eqb (EvmTx.cm_data a) (EvmTx.cm_data b) && opt_eqb Z.eqb (EvmTx.cm_value a) (EvmTx.cm_value b).
Definition call_code (c : EvmTx.call) : N :=
  match c with EvmTx.CPending => 1 | EvmTx.CEstimate _ => 2 | EvmTx.CTip => 3 | EvmTx.CPrice => 4 | EvmTx.CSubmit _ => 5 end.
Definition first_estimate (l : list EvmTx.call) : option EvmTx.callmsg :=
  match flat_map (fun c => match c with EvmTx.CEstimate m => [m] | _ => [] end) l with m :: _ => Some m | [] => None end.
Definition ret_of (r : EvmTx.tx_result) : N :=
  match r with EvmTx.TAccepted _ => 0 | EvmTx.TAcceptedThenPanic _ => 2 | _ => 1 end.

(* one step of the model against one observed step; the monitor of the driver's client never learns a
   confirmed nonce above 0 (the endpoint answers 0 to NonceAt) *)
Definition step_ok (t : txcase) (ctr : N) (s : txstep) : N * bool :=
  let '(ctr', r, calls) := EvmTx.send_tx (t_chain t) (t_owner t) ctr 0 (req_of_src (t_contract t) (s_src s)) (s_ans s) in
  (ctr',
   (s_ret s =? ret_of r) && opt_eqb dyntx_eqb (s_raw s) (EvmTx.tx_of r) &&
   (s_raw_count s =? match EvmTx.tx_of r with Some _ => 1 | None => 0 end) &&
   match s_raw s with Some _ => (s_type s =? 2) && bytes_eqb (s_sender s) (t_owner t) | None => true end &&
   match s_raw s, EvmTx.tx_of r with
   | Some _, Some mt => match EvmTxWire.signing_payload mt with
                        | Some p => bytes_eqb (s_signed s) p
                        | None => true          (* no encoding in the model: nothing to compare *)
                        end
   | _, _ => true
   end &&
   opt_eqb callmsg_eqb (s_est s) (first_estimate calls) &&
   list_eqb N.eqb (s_methods s) (map call_code calls)).
Fixpoint steps_ok (t : txcase) (ctr : N) (l : list txstep) : bool :=
  match l with
  | [] => true
  | s :: r => let '(ctr', ok) := step_ok t ctr s in ok && steps_ok t ctr' r
  end.
Definition tx_mismatches (ts : list txcase) : list N :=
  map t_id (filter (fun t => negb (steps_ok t 0 (t_steps t))) ts).

(* the property on the observation: a StoreCommitment that reported success put exactly one transaction on the
   wire, the node took it, it goes to the configured contract and decodes to the commitment *)
Definition step_violation (t : txcase) (s : txstep) : option string :=
  match s_src s with
  | SrcStore amt c =>
      if s_ret s =? 0 then
        match s_raw s with
        | Some tx =>
            if negb (EvmTx.a_submit (s_ans s)) then Some "commitment-after-store-failure"%string else
            match send_differs (t_contract t) c (match EvmTx.tx_to tx with Some a => a | None => [] end) (EvmTx.tx_data tx) with
            | Some k => Some (String.append "calldata-differs:" k)
            | None => None
            end
        | None => Some "commitment-after-store-failure"%string
        end
      else None
  | SrcReq _ => None
  end.
Definition tx_violations (ts : list txcase) : list (N * string) :=
  flat_map (fun t => match flat_map (fun s => match step_violation t s with Some k => [k] | None => [] end) (t_steps t) with
                     | k :: _ => [(t_id t, k)] | [] => [] end) ts.
Definition tx_nontrivial (ts : list txcase) : list N :=
  map t_id (filter (fun t => existsb (fun s => match s_raw s with Some _ => true | None => false end) (t_steps t)) ts).

Definition mismatches (cs : list case) : list N := Check_C01.mismatches (bases cs) ++ tx_mismatches (txs cs).
Definition violations (cs : list case) : list (N * string) := base_violations (bases cs) ++ tx_violations (txs cs).
Definition nontrivial (cs : list case) : list N := base_nontrivial (bases cs) ++ tx_nontrivial (txs cs).
