(* Correspondence + property checker for C19, evaluated on observations of the real
   bidderapi.Service.SendBid (real protovalidate validator, recording sender, fake server
   stream), of the validator alone on provider-side messages, and of the rule texts dumped
   from the compiled descriptors.  Definitions only. *)
From Coq Require Import String List NArith ZArith Bool.
From MevVerif Require Import lib.Bytes model.Rules model.BidderApi.
Import ListNotations.
Open Scope N_scope.

(* ---- observation encodings ------------------------------------------------------------- *)
(* validator class: 0 = nil, 1 = *ValidationError, 2 = *RuntimeError, 3 = anything else *)
Definition verdict_code (v : rverdict) : N :=
  match v with ROk => 0 | RInvalid => 1 | RRuntime => 2 end.
(* how SendBid ended: 0 = nil, 1 = status InvalidArgument, 2 = status Internal, 3 = the very
   error the stream's Send returned, 4 = panic, 5 = anything else *)
Definition result_code (r : result) : N :=
  match r with RNil => 0 | RInvalidArgument => 1 | RInternal => 2 | RStreamErr => 3 | RPanic => 4 end.

Inductive payload :=
  | PSend (req : option request) (ans : sender_answer) (fail_at : option nat)
          (o_verdict o_res : N) (o_calls : list forwarded) (o_streamed : list commitment)
  | PRuleText (msg : bytes) (fields : list (bytes * bytes))
  | PProvBid (txs : list bytes) (amount : bytes) (bn : Z) (digest : bytes) (ds de : Z) (o_verdict : N)
  | PProvResp (digest : bytes) (status : Z) (o_verdict : N)
  | PAmount (msg : bytes) (amount : bytes) (o_verdict : N).

Record case := { id : N; body : payload }.

(* ---- equality tests ---------------------------------------------------------------------- *)
Fixpoint list_eqb {A} (eqb : A -> A -> bool) (a b : list A) : bool :=
  match a, b with
  | [], [] => true
  | u :: a', v :: b' => eqb u v && list_eqb eqb a' b'
  | _, _ => false
  end.
Definition forwarded_eqb (a b : forwarded) : bool :=
  bytes_eqb (f_txs a) (f_txs b) && bytes_eqb (f_amount a) (f_amount b) &&
  (f_bn a =? f_bn b)%Z && (f_ds a =? f_ds b)%Z && (f_de a =? f_de b)%Z.
Definition commitment_eqb (a b : commitment) : bool :=
  list_eqb bytes_eqb (cm_txs a) (cm_txs b) && bytes_eqb (cm_amount a) (cm_amount b) &&
  (cm_bn a =? cm_bn b)%Z &&
  bytes_eqb (cm_bid_digest a) (cm_bid_digest b) && bytes_eqb (cm_bid_sig a) (cm_bid_sig b) &&
  bytes_eqb (cm_digest a) (cm_digest b) && bytes_eqb (cm_sig a) (cm_sig b) &&
  bytes_eqb (cm_prov a) (cm_prov b) && (cm_ds a =? cm_ds b)%Z && (cm_de a =? cm_de b)%Z.
Definition text_pair_eqb (a b : bytes * bytes) : bool :=
  bytes_eqb (fst a) (fst b) && bytes_eqb (snd a) (snd b).

Fixpoint lookup_msg (m : bytes) (t : list (bytes * list (bytes * rule))) : option (list (bytes * rule)) :=
  match t with
  | [] => None
  | (k, v) :: r => if bytes_eqb k m then Some v else lookup_msg m r
  end.

(* ---- correspondence: model = observation --------------------------------------------------- *)
Definition request_verdict (req : option request) : rverdict :=
  match req with
  | None => RInvalid
  | Some r => bidder_bid_verdict (r_txs r) (r_amount r) (r_bn r) (r_ds r) (r_de r)
  end.

Definition agrees (p : payload) : bool :=
  match p with
  | PSend req ans fail_at o_verdict o_res o_calls o_streamed =>
      let m := send_bid req ans fail_at in
      (verdict_code (request_verdict req) =? o_verdict) &&
      (result_code (res m) =? o_res) &&
      list_eqb forwarded_eqb (calls m) o_calls &&
      list_eqb commitment_eqb (streamed m) o_streamed
  | PRuleText msg fields =>
      match lookup_msg msg published_rules with
      | Some rules => list_eqb text_pair_eqb (rule_texts rules) fields
      | None => false
      end
  | PProvBid txs amount bn digest ds de o_verdict =>
      verdict_code (provider_bid_verdict txs amount bn digest ds de) =? o_verdict
  | PProvResp digest status o_verdict =>
      verdict_code (provider_response_verdict digest status) =? o_verdict
  | PAmount msg amount o_verdict =>
      if bytes_eqb msg msg_prepay then verdict_code (prepay_verdict amount) =? o_verdict
      else if bytes_eqb msg msg_stake then verdict_code (stake_verdict amount) =? o_verdict
      else false
  end.

Definition mismatches (cs : list case) : list N :=
  map id (filter (fun c => negb (agrees (body c))) cs).

(* ---- the property, evaluated on the implementation's observation --------------------------- *)
(* Written against the specification vocabulary only (the published rules, join/split on the
   comma, lowercase hex); it does not call the model's send_bid. *)
Definition well_formed (req : option request) : bool :=
  match req with
  | None => false
  | Some r => bidder_bid_ok (r_txs r) (r_amount r) (r_bn r) (r_ds r) (r_de r)
  end.

Definition expected_forward (r : request) : forwarded :=
  {| f_txs := join 44 (r_txs r); f_amount := r_amount r; f_bn := r_bn r; f_ds := r_ds r; f_de := r_de r |}.

Definition image (p : preconf) (b : pbid) : commitment :=
  {| cm_txs := split 44 (pb_tx b); cm_amount := pb_amount b; cm_bn := pb_bn b;
     cm_bid_digest := hex (pb_digest b); cm_bid_sig := hex (pb_sig b);
     cm_digest := hex (pc_digest p); cm_sig := hex (pc_sig p); cm_prov := hex (pc_prov p);
     cm_ds := pb_ds b; cm_de := pb_de b |}.

(* images of the received commitments up to the first one that is nil or lacks its bid, and
   whether all of them were complete *)
Fixpoint images (cs : list (option preconf)) : list commitment * bool :=
  match cs with
  | [] => ([], true)
  | Some p :: rest =>
      match pc_bid p with
      | Some b => let r := images rest in (image p b :: fst r, snd r)
      | None => ([], false)
      end
  | None :: _ => ([], false)
  end.

Fixpoint is_prefix (a b : list commitment) : bool :=
  match a, b with
  | [], _ => true
  | u :: a', v :: b' => commitment_eqb u v && is_prefix a' b'
  | _ :: _, [] => false
  end.

Definition is_nil {A} (l : list A) : bool := match l with [] => true | _ => false end.

(* the [fail_at]-th Send never happens among [n] messages *)
Definition no_failure (fail_at : option nat) (n : nat) : bool :=
  match fail_at with None => true | Some k => Nat.leb n k end.
(* the failing Send was the last of [n] messages handed to the stream *)
Definition stopped_at (fail_at : option nat) (n : nat) : bool :=
  match fail_at with None => false | Some k => Nat.eqb n (S k) end.

Definition check_send (req : option request) (ans : sender_answer) (fail_at : option nat)
                      (o_verdict o_res : N) (o_calls : list forwarded) (o_streamed : list commitment)
  : option string :=
  if negb (well_formed req) then
    (* refused before anything is signed or sent *)
    if (o_res =? 1) && negb (o_verdict =? 0) && is_nil o_calls && is_nil o_streamed then None
    else Some "accepted-malformed"%string
  else
    match req with
    | None => None
    | Some r =>
        if (o_res =? 1) || negb (o_verdict =? 0) || is_nil o_calls then Some "rejected-valid"%string
        else if negb (list_eqb forwarded_eqb o_calls [expected_forward r]) then Some "forward-differs"%string
        else if negb (list_eqb bytes_eqb (split 44 (join 44 (r_txs r))) (r_txs r)) then Some "forward-differs"%string
        else
          match ans with
          | SenderFails => if is_nil o_streamed then None else Some "commitment-differs"%string
          | SenderReturns cs =>
              let im := images cs in
              if negb (is_prefix o_streamed (fst im)) then Some "commitment-differs"%string
              else if (o_res =? 0) && negb (Nat.eqb (length o_streamed) (length cs)) then Some "commitment-differs"%string
              (* no Send failed (the oracle never fails, or its failing index lies beyond the
                 received list) and every element was complete: the call must end normally *)
              else if snd im && no_failure fail_at (length cs) && negb (o_res =? 0)
                   then Some "commitment-differs"%string
              (* the stream's own error is returned only for the Send that failed, and the
                 call stops right after that message *)
              else if (o_res =? 3) && negb (stopped_at fail_at (length o_streamed))
                   then Some "commitment-differs"%string
              else None
          end
    end.

Definition violation (c : case) : option string :=
  match body c with
  | PSend req ans fail_at o_verdict o_res o_calls o_streamed =>
      check_send req ans fail_at o_verdict o_res o_calls o_streamed
  | _ => None
  end.

Definition violations (cs : list case) : list (N * string) :=
  flat_map (fun c => match violation c with Some k => [(id c, k)] | None => [] end) cs.

(* SendBid runs with a request, and validator verdicts on the other published messages *)
Definition nontrivial (cs : list case) : list N :=
  map id (filter (fun c => match body c with
                           | PSend (Some _) _ _ _ _ _ _ => true
                           | PSend None _ _ _ _ _ _ => false
                           | PRuleText _ _ => false
                           | _ => true
                           end) cs).
