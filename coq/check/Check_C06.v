(* Correspondence + property checker for C06, evaluated on observations of the real entry points
   (drivers zz_verif_c06_test.go in eight packages of /repo).  Definitions only.

   A case is one hostile call: which entry, the summary of what was delivered to it
   (model/NoPanic.v: entry_input), and what happened: a Go panic (recovered in the driver, or a
   crashed child process attributed to the case in flight), or a normal return with its result
   class (0 = no error, 1 = error, 2 = not classified). *)
From Coq Require Import String List NArith ZArith Bool.
From MevVerif Require Import lib.Bytes model.NoPanic.
Import ListNotations.
Open Scope N_scope.

Inductive observation := OPanic | ONoPanic (r : N).

Record case := { id : N; inp : entry_input; obs : observation }.

Definition observed_panic (c : case) : bool := match obs c with OPanic => true | _ => false end.

(* model vs observation: the panic verdict always; the result class where the summary fixes it *)
Definition agrees (c : case) : bool :=
  match obs c with
  | OPanic => panics (inp c)
  | ONoPanic r =>
      negb (panics (inp c)) &&
      match expected_result (inp c) with
      | Some e => (r =? e) || (r =? 2)
      | None => true
      end
  end.

Definition mismatches (cs : list case) : list N :=
  map id (filter (fun c => negb (agrees c)) cs).

(* the property on the implementation's observation, three clauses:
     panic:<entry>         the call panicked / the process died, whatever was delivered
     no-error-on-hostile   the input is certainly invalid (its summary fixes the result class "error":
                           bad digest / signature / amount, missing members, undecodable or oversized or
                           truncated frames, failing reads, peer ids without an address) and the call
                           returned without an error: the exchange did not end with an error or a reset
     not-serving           end to end (and discovery with stalled workers: a later list is not processed): after the hostile exchange an honest peer could not complete its
                           handshake and be registered: the node no longer serves other peers
     data-race             end to end under the race detector (thorough tier): an unsynchronised access in
                           repository code was reported although the process survived (result class 3); races
                           on a Go map are observed as a crash instead (the runtime aborts on them)
   Result class 2 (not classified by the driver) fires none of these. *)
Definition is_e2e (i : entry_input) : bool :=
  match i with EE2EInbound _ _ | EE2EOutbound _ _ | EE2EStress _ | EPeersListStalled _ _ | EBlockStress | EMatchStress => true | _ => false end.

Definition violation (c : case) : option string :=
  match obs c with
  | OPanic => Some (panic_key (inp c))
  | ONoPanic r =>
      if is_e2e (inp c) then (if r =? 1 then Some "not-serving"%string
                              else if r =? 3 then Some "data-race"%string else None)
      else match expected_result (inp c) with
           | Some 1 => if r =? 0 then Some "no-error-on-hostile"%string else None
           | _ => None
           end
  end.

Definition violations (cs : list case) : list (N * string) :=
  flat_map (fun c => match violation c with Some k => [(id c, k)] | None => [] end) cs.

(* non-trivial: the input is one no honest peer would send *)
Definition nontrivial (cs : list case) : list N :=
  map id (filter (fun c => hostile (inp c)) cs).
