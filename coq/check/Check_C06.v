(* Correspondence + property checker for C06, evaluated on observations of the real entry points
   (drivers zz_verif_c06_test.go in eight packages of /repo).  Definitions only.

   A case is one hostile call: which entry, the summary of what was delivered to it
   (model/NoPanic.v: entry_input), and what happened: a Go panic (recovered in the driver, or a
   crashed child process attributed to the case in flight), or a normal return with its result
   class (0 = no error, 1 = error, 2 = not classified). *)
From Coq Require Import String List NArith ZArith Bool.
From MevVerif Require Import lib.Bytes model.NoPanic.
Import ListNotations.
Open Scope N_scope.

Inductive observation := OPanic | ONoPanic (r : N).

Record case := { id : N; inp : entry_input; obs : observation }.

Definition observed_panic (c : case) : bool := match obs c with OPanic => true | _ => false end.

(* model vs observation: the panic verdict always; the result class where the summary fixes it *)
Definition agrees (c : case) : bool :=
  match obs c with
  | OPanic => panics (inp c)
  | ONoPanic r =>
      negb (panics (inp c)) &&
      match expected_result (inp c) with
      | Some e => (r =? e) || (r =? 2)
      | None => true
      end
  end.

Definition mismatches (cs : list case) : list N :=
  map id (filter (fun c => negb (agrees c)) cs).

(* the property on the implementation's observation: no panic, whatever was delivered *)
Definition violation (c : case) : option string :=
  if observed_panic c then Some (panic_key (inp c)) else None.

Definition violations (cs : list case) : list (N * string) :=
  flat_map (fun c => match violation c with Some k => [(id c, k)] | None => [] end) cs.

(* non-trivial: the input is one no honest peer would send *)
Definition nontrivial (cs : list case) : list N :=
  map id (filter (fun c => hostile (inp c)) cs).
