(* Correspondence + property checker for C02, evaluated by vm_compute with lib/Keccak on the
   observations of the real VerifyBid / VerifyPreConfirmation / Construct*.  The secp256k1
   library is an oracle: the driver records go-ethereum's answers for the (hash, signature)
   pairs of the case; a pair the model asks for and the driver did not record is answered
   with a marker that no observation can equal, so a lookup miss always surfaces as a
   correspondence mismatch (a driver defect), never as a silent default.
   Definitions only. *)
From Coq Require Import String List NArith ZArith Bool.
From MevVerif Require Import lib.Bytes lib.Keccak gen.Generated model.Eip712 model.Signer.
Import ListNotations.
Open Scope N_scope.

Definition K := keccak256.

(* a bid (m_dig/m_sig unused) or a commitment around an optional bid *)
Record message := { m_bid : option bid; m_dig : option bytes; m_sig : option bytes }.

(* one recorded library interaction: crypto.SigToPub(o_hash, o_sig) = o_pub (uncompressed
   65-byte key, or an error), and, when a key came back,
   crypto.VerifySignature(o_pub, o_hash, o_sig[:64]) = o_ver *)
Record oentry := { o_hash : bytes; o_sig : bytes; o_pub : outcome bytes; o_ver : bool }.

(* kind 1: VerifyBid(cur.bid)                                   obs
   kind 2: VerifyPreConfirmation(cur)                            obs; inner = VerifyBid(cur.bid) when there is a bid
   kind 3: b := ConstructSignedBid(fields of cur.bid)            inner = Ok(digest++signature)|Err|Panic; obs = VerifyBid(b)
   kind 4: c := ConstructPreConfirmation(cur.bid)                inner likewise;                          obs = VerifyPreConfirmation(c)
   "not applicable" observations are Err 0.
   orig / orig_addr: the valid message the case was derived from by perturbation and the
   address the implementation reported for it.  own: address of the constructing key. *)
Record case := { id : N; kind : N; cur : message;
                 orig : option message; orig_addr : bytes;
                 table : list oentry; signs : list (bytes * outcome bytes); own : bytes;
                 inner : outcome bytes; obs : outcome bytes }.

Definition outcome_eqb (a b : outcome bytes) : bool :=
  match a, b with
  | Ok u, Ok v => bytes_eqb u v
  | Err c, Err d => c =? d
  | Panic, Panic => true
  | _, _ => false
  end.
Definition obytes_eqb (a b : option bytes) : bool :=
  match a, b with
  | Some u, Some v => bytes_eqb u v
  | None, None => true
  | _, _ => false
  end.

(* ---- the oracle of a case ---------------------------------------------------------------- *)
Definition MARK : bytes := [238].
Definition MARKSIG : bytes := repeat 238 65.

Definition find_entry (t : list oentry) (h s : bytes) : option oentry :=
  find (fun e => bytes_eqb (o_hash e) h && bytes_eqb (o_sig e) s) t.

(* crypto.PubkeyToAddress: Keccak256(pub[1:])[12:] -- library code, modelled here only to
   turn recorded keys into addresses; it is itself compared on every accepted case *)
Definition pub_address (p : bytes) : bytes := skipn 12 (K (tl p)).

Definition case_crypto (t : list oentry) (sg : list (bytes * outcome bytes)) : crypto :=
  {| recover := fun h s => match find_entry t h s with Some e => o_pub e | None => Ok MARK end;
     (* only ever asked with the key that [recover] returned for the same hash and r||s, so
        the entry exists; a marker key "verifies" so that the marker reaches the result *)
     verify_rs := fun p h rs =>
       if bytes_eqb p MARK then true
       else match find (fun e => bytes_eqb (o_hash e) h && bytes_eqb (firstn 64 (o_sig e)) rs &&
                                 outcome_eqb (o_pub e) (Ok p)) t with
            | Some e => o_ver e
            | None => false
            end;
     addr_of := fun p => if bytes_eqb p MARK then MARK else pub_address p;
     sign := fun h => match find (fun e => bytes_eqb (fst e) h) sg with
                      | Some e => snd e
                      | None => Ok MARKSIG
                      end |}.

Definition as_preconf (m : message) : preconf :=
  {| c_bid := m_bid m; c_dig := m_dig m; c_sig := m_sig m; c_prov := [] |}.
Definition flat (dig sig : option bytes) : bytes := obytes dig ++ obytes sig.
Definition NA : outcome bytes := Err 0.

(* model answers (inner, obs), projected as the driver projects *)
Definition model (c : case) : outcome bytes * outcome bytes :=
  let cr := case_crypto (table c) (signs c) in
  match kind c with
  | 1 => (NA, match m_bid (cur c) with Some b => verify_bid K cr b | None => Panic end)
  | 2 => (match m_bid (cur c) with Some b => verify_bid K cr b | None => NA end,
          verify_preconf K cr (as_preconf (cur c)))
  | 3 => match m_bid (cur c) with
         | Some a =>
             match construct_bid K cr (b_tx a) (b_amt a) (b_bn a) (b_ds a) (b_de a) with
             | Ok b => (Ok (flat (b_dig b) (b_sig b)), verify_bid K cr b)
             | Err e => (Err e, NA)
             | Panic => (Panic, NA)
             end
         | None => (Panic, NA)
         end
  | _ => match construct_preconf K cr (m_bid (cur c)) with
         | Ok p => (Ok (flat (c_dig p) (c_sig p)), verify_preconf K cr p)
         | Err e => (Err e, NA)
         | Panic => (Panic, NA)
         end
  end.

Definition agrees (c : case) : bool :=
  let '(mi, mo) := model c in outcome_eqb mi (inner c) && outcome_eqb mo (obs c).

Definition mismatches (cs : list case) : list N := map id (filter (fun c => negb (agrees c)) cs).

(* ---- the property on the implementation's observation ---------------------------------------- *)

(* soundness of one acceptance: the implementation said "signed by [a]" for fields [hashed]
   (already hashed by the specification: Ok digest / refusal), presented digest [d] and
   signature [s] *)
Definition acceptance_defect (t : list oentry) (hashed : outcome bytes) (d s a : bytes) : option string :=
  match hashed with
  | Ok h =>
      if negb (bytes_eqb h d) then Some "accepts-unbound:digest"%string
      else if negb (Nat.eqb (length s) 65) then Some "accepts-malleated"%string
      else match nth_error s 64 with
           | None => Some "accepts-malleated"%string
           | Some v =>
               match find_entry t h (set64 s (v_to01 v)) with
               | Some e =>
                   match o_pub e with
                   | Ok p => if negb (o_ver e) then Some "accepts-malleated"%string
                             else if negb (bytes_eqb (pub_address p) a) then Some "wrong-address"%string
                             else None
                   | _ => Some "accepts-malleated"%string
                   end
               | None => None        (* not recorded: flagged through [mismatches] *)
               end
           end
  | _ => Some "accepts-unbound:amount"%string   (* amount not a number in [0,2^256): nothing is bound *)
  end.

(* which signed VALUE differs between two bids: tx bytes, the amount as an integer, ... *)
Definition amount_same (x y : bytes) : bool :=
  match parse_amount x, parse_amount y with
  | Some u, Some v => (u =? v)%Z
  | _, _ => bytes_eqb x y
  end.
Definition bid_field_changed (o n : bid) : option string :=
  if negb (bytes_eqb (b_tx o) (b_tx n)) then Some "txHash"%string
  else if negb (amount_same (b_amt o) (b_amt n)) then Some "amount"%string
  else if negb (b_bn o =? b_bn n)%Z then Some "blockNumber"%string
  else if negb (b_ds o =? b_ds n)%Z then Some "decayStart"%string
  else if negb (b_de o =? b_de n)%Z then Some "decayEnd"%string
  else None.

(* r||s and the recovery bit; 27/28 and 0/1 are two spellings of one bit *)
Definition sig_same (x y : bytes) : bool :=
  Nat.eqb (length x) (length y) && bytes_eqb (firstn 64 x) (firstn 64 y) &&
  match nth_error x 64, nth_error y 64 with
  | Some u, Some v => v_to01 u =? v_to01 v
  | None, None => true
  | _, _ => false
  end && bytes_eqb (skipn 65 x) (skipn 65 y).

(* first signed value that differs, for a bid (k = 1) or a commitment (k = 2); the message's
   own signature is not among them *)
Definition changed_field (k : N) (o n : message) : option string :=
  match m_bid o, m_bid n with
  | Some bo, Some bn =>
      match bid_field_changed bo bn with
      | Some f => Some f
      | None =>
          if k =? 1 then
            if negb (bytes_eqb (obytes (b_dig bo)) (obytes (b_dig bn))) then Some "digest"%string else None
          else
            if negb (bytes_eqb (obytes (b_dig bo)) (obytes (b_dig bn))) then Some "bidDigest"%string
            else if negb (bytes_eqb (obytes (b_sig bo)) (obytes (b_sig bn))) then Some "bidSignature"%string
            else if negb (bytes_eqb (obytes (m_dig o)) (obytes (m_dig n))) then Some "digest"%string
            else None
      end
  | None, None => None
  | _, _ => Some "bid"%string
  end.
Definition own_sig (k : N) (m : message) : bytes :=
  if k =? 1 then match m_bid m with Some b => obytes (b_sig b) | None => [] end else obytes (m_sig m).

(* a valid message was changed and is still accepted for the same signer *)
Definition perturbation_defect (c : case) : option string :=
  match orig c, obs c with
  | Some o, Ok a =>
      if bytes_eqb a (orig_addr c) then
        let same := sig_same (own_sig (kind c) o) (own_sig (kind c) (cur c)) in
        match changed_field (kind c) o (cur c) with
        | Some f => if same then Some ("accepts-unbound:" ++ f)%string else None
        | None => if same then None else Some "accepts-malleated"%string
        end
      else None
  | _, _ => None
  end.

Definition bid_acceptance_defect (t : list oentry) (b : bid) (a : bytes) : option string :=
  acceptance_defect t (bid_hash K b) (obytes (b_dig b)) (obytes (b_sig b)) a.

Definition first_some (a b : option string) : option string := match a with Some _ => a | None => b end.

(* the key signer of a construct case answered with a genuine signature of the asked hash
   by the node's own key (premise of the round-trip claim) *)
Definition signer_genuine (c : case) : bool :=
  match signs c with
  | (h, Ok s) :: _ =>
      Nat.eqb (length s) 65 &&
      match nth_error s 64 with
      | Some v =>
          ((v =? 0) || (v =? 1) || (v =? 27) || (v =? 28)) &&
          match find_entry (table c) h (set64 s (v_to01 v)) with
          | Some e => match o_pub e with Ok p => o_ver e && bytes_eqb (pub_address p) (own c) | _ => false end
          | None => false
          end
      | None => false
      end
  | _ => false
  end.

Definition violation (c : case) : option string :=
  match kind c with
  | 1 =>
      match obs c, m_bid (cur c) with
      | Ok a, Some b => first_some (perturbation_defect c) (bid_acceptance_defect (table c) b a)
      | _, _ => None
      end
  | 2 =>
      match obs c with
      | Ok a =>
          match m_bid (cur c) with
          | None => Some "accepts-unbound:bid"%string
          | Some b =>
              first_some (perturbation_defect c)
                (first_some
                   (* the embedded bid must itself be acceptable for the signer it names *)
                   match inner c with
                   | Ok ab => bid_acceptance_defect (table c) b ab
                   | _ => Some "accepts-unbound:bid"%string
                   end
                   (acceptance_defect (table c) (commitment_hash K (as_preconf (cur c)))
                                      (obytes (m_dig (cur c))) (obytes (m_sig (cur c))) a))
          end
      | _ => None
      end
  | _ =>
      (* 3, 4: a message the node built with a genuine signature of its own key verifies to
         its own address *)
      match inner c with
      | Ok ds =>
          if signer_genuine c && negb (outcome_eqb (obs c) (Ok (own c)))
          then Some "own-message-rejected"%string
          else
            (* and the bid the node built and then accepted must itself be soundly accepted:
               its digest is the specification's digest of the fields it was built from *)
            match kind c, m_bid (cur c), obs c with
            | 3, Some f, Ok a =>
                bid_acceptance_defect (table c)
                  {| b_tx := b_tx f; b_amt := b_amt f; b_bn := b_bn f; b_ds := b_ds f; b_de := b_de f;
                     b_dig := Some (firstn 32 ds); b_sig := Some (skipn 32 ds) |} a
            | _, _, _ => None
            end
      | _ => None
      end
  end.

Definition violations (cs : list case) : list (N * string) :=
  flat_map (fun c => match violation c with Some k => [(id c, k)] | None => [] end) cs.

(* perturbed valid messages, accepted messages, and round trips with a genuine signer *)
Definition nontrivial (cs : list case) : list N :=
  map id (filter (fun c =>
    match kind c with
    | 1 | 2 => match orig c with
               | Some o => match changed_field (kind c) o (cur c) with
                           | Some _ => true
                           | None => negb (sig_same (own_sig (kind c) o) (own_sig (kind c) (cur c)))
                           end
               | None => match obs c with Ok _ => true | _ => false end
               end
    | _ => signer_genuine c
    end) cs).
