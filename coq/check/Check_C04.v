(* Correspondence + property checker for C04, evaluated on observations of the real
   handshake.Service (Handle / Handshake) and, for end-to-end cases, of a real libp2p.Service.
   Definitions only. *)
From Coq Require Import String List NArith ZArith Bool.
From MevVerif Require Import lib.Bytes gen.Generated model.Handshake.
Import ListNotations.
Open Scope Z_scope.

(* what the end-to-end driver sees of the wrapper: is the remote in the peer registry, the
   notifier.Connected calls, the block placed on the remote (-1 none, 0 for ever, else ns; -3 when
   BlockedPeers cannot show it because the remote's peer id has no Ethereum address), whether NO
   transport connection to the remote's peer id is left (seen from every host instance of that
   remote that the session keeps alive, within a bound), the notifier.Disconnected calls, and --
   when the remote is registered -- the record a follow-up Connect returns through the isConnected
   short cut (the registry's own (address, role)) and whether that follow-up started a handshake *)
Record wrapobs := { w_registered : bool; w_notified : list (bytes * Z); w_block : Z;
                    w_closed : bool; w_record : option (bytes * Z); w_second_hs : bool;
                    w_gone : list (bytes * Z) (* notifier.Disconnected calls *) }.

Record case := {
  id : N;
  mode : N;                 (* 0 scripted stream; 1 end-to-end inbound; 2 end-to-end outbound *)
  dir : N;                  (* 0 responder (Handle), 1 initiator (Handshake) *)
  cfg : config;             (* local role, token, address, own request signature *)
  script : list frame;      (* incoming frames, each pre-decoded both ways by the driver *)
  wfails : list nat;        (* indices of the writes made to fail *)
  vtab : list (bytes * bytes * vres);   (* go-ethereum's answer for (sig, data), computed by the driver *)
  pid : pres;               (* address of the transport peer id, computed by the driver *)
  staked : list bytes;      (* addresses for which the scripted registry answers yes *)
  (* observation *)
  o_res : N;                (* 0 enrolled; 1..7 refusal class; 8 refused, class not visible; 9 panic;
                               10 the exchange did not complete within the bound;
                               11 a stalled call returned before its context ended; 12 still pending (stalled inbound) *)
  o_addr : bytes; o_role : Z;
  o_written : list wframe; o_lookups : list bytes; o_verifies : list (bytes * bytes);
  o_wrap : option wrapobs;
  (* end-to-end sessions: the registry entry of the remote's peer id just before this handshake, read by
     the driver through Connect's short cut (an earlier handshake of the session, on another transport
     connection that is still open, created it); None otherwise *)
  prior : option (bytes * Z);
  (* a stalling remote: after the script nothing arrives and the stream stays open; the read is ended by
     the context only (scripted and outbound: the driver's own deadline; inbound end-to-end: never within
     the driver's bound, the case is observed while still pending).  o_blocked: a read was blocked until
     the context ended / until the driver's bound *)
  stall : bool;
  o_blocked : bool
}.

(* ---- equality tests ---------------------------------------------------------------------------- *)
Definition wframe_eqb (a b : wframe) : bool :=
  match a, b with
  | WReq r t s, WReq r' t' s' => bytes_eqb r r' && bytes_eqb t t' && bytes_eqb s s'
  | WResp a r, WResp a' r' => bytes_eqb a a' && bytes_eqb r r'
  | _, _ => false
  end.
Fixpoint list_eqb {A} (eq : A -> A -> bool) (a b : list A) : bool :=
  match a, b with
  | [], [] => true
  | x :: a', y :: b' => eq x y && list_eqb eq a' b'
  | _, _ => false
  end.
Definition pair_eqb (a b : bytes * bytes) : bool := bytes_eqb (fst a) (fst b) && bytes_eqb (snd a) (snd b).
Definition note_eqb (a b : bytes * Z) : bool := bytes_eqb (fst a) (fst b) && (snd a =? snd b).
Definition vres_eqb (a b : vres) : bool :=
  match a, b with
  | VErr, VErr => true
  | VOk f x, VOk g y => Bool.eqb f g && bytes_eqb x y
  | _, _ => false
  end.
Definition pres_eqb (a b : pres) : bool :=
  match a, b with PErr, PErr => true | POk x, POk y => bytes_eqb x y | _, _ => false end.
Definition mem (a : bytes) (l : list bytes) : bool := existsb (bytes_eqb a) l.

(* ---- the oracles of a case ------------------------------------------------------------------- *)
Definition vlookup (tab : list (bytes * bytes * vres)) (s d : bytes) : option vres :=
  match find (fun e => bytes_eqb s (fst (fst e)) && bytes_eqb d (snd (fst e))) tab with
  | Some e => Some (snd e)
  | None => None
  end.
Definition oracles_of (c : case) : oracles :=
  {| verify := fun s d => match vlookup (vtab c) s d with Some r => r | None => VErr end;
     addr_of_pid := pid c;
     registered := fun a => mem a (staked c) |}.
Definition wfail_of (c : case) (k : nat) : bool := existsb (Nat.eqb k) (wfails c).

Definition model_waits (c : case) : bool :=
  if (dir c =? 0)%N then handle_waits (cfg c) (oracles_of c) (wfail_of c) (script c)
  else handshake_waits (cfg c) (oracles_of c) (wfail_of c) (script c).
(* inbound end-to-end with a staller: Handle runs on the Service's base context, it is still waiting when
   the driver looks *)
Definition pending (c : case) : bool := stall c && (mode c =? 1)%N && model_waits c.

Definition model_run (c : case) : run :=
  if (dir c =? 0)%N then handle (cfg c) (oracles_of c) (wfail_of c) (script c)
  else handshake (cfg c) (oracles_of c) (wfail_of c) (script c).

(* the event of model/Handshake.v's node machine that an end-to-end case realises (the connection is
   open when addPeer runs) *)
Definition event_of (c : case) : event :=
  if (dir c =? 0)%N then EvInbound (oracles_of c) (wfail_of c) (script c) true false
  else EvConnect (oracles_of c) (wfail_of c) (script c) false.
Definition entry_of (c : case) : option (bytes * Z) := fst (node_step (cfg c) (prior c) (event_of c)).
Definition model_effects (c : case) : list effect := snd (node_step (cfg c) (prior c) (event_of c)).

(* ---- correspondence ---------------------------------------------------------------------------- *)
Definition refusal_code (r : refusal) : N :=
  match r with RSig => 1 | RAddr => 2 | RStake => 3 | RRead => 4 | RWrite => 5 | RPid => 6 | REcho => 7 end%N.

Definition res_agrees (c : case) (r : result) : bool :=
  if pending c then (o_res c =? 12)%N else
  match r with
  | Enrol a t => (o_res c =? 0)%N && bytes_eqb a (o_addr c) && (t =? o_role c)
  | Refuse k =>
      if (mode c =? 0)%N then (o_res c =? refusal_code k)%N
      else if (mode c =? 1)%N then (o_res c =? 8)%N        (* inbound: only "refused" is visible *)
      else match k with                                      (* outbound: sentinel classes visible *)
           | RSig | RAddr | RStake => (o_res c =? refusal_code k)%N
           | _ => (o_res c =? 8)%N
           end
  end.

Definition eff_registered (l : list effect) : bool :=
  existsb (fun e => match e with ERegister _ _ => true | _ => false end) l.
Definition eff_notified (l : list effect) : list (bytes * Z) :=
  flat_map (fun e => match e with ENotify a t => [(a, t)] | _ => [] end) l.
Definition eff_gone (l : list effect) : list (bytes * Z) :=
  flat_map (fun e => match e with ENotifyGone a t => [(a, t)] | _ => [] end) l.
Definition eff_block (l : list effect) : Z :=
  match flat_map (fun e => match e with EBlock d => [d] | _ => [] end) l with
  | d :: _ => d
  | [] => -1
  end.

Definition eff_closed (l : list effect) : bool :=
  existsb (fun e => match e with EClosePeer => true | _ => false end) l.

(* what a follow-up Connect does on that entry: the short cut returns the entry, no handshake *)
Definition follow_up (c : case) : list effect :=
  match entry_of c with
  | Some _ => snd (node_step (cfg c) (entry_of c) (EvConnect (oracles_of c) (wfail_of c) [] false))
  | None => []
  end.
Definition returned_of (l : list effect) : option (bytes * Z) :=
  match flat_map (fun e => match e with EReturnPeer a t => [(a, t)] | _ => [] end) l with
  | p :: _ => Some p
  | [] => None
  end.
Definition opt_note_eqb (a b : option (bytes * Z)) : bool :=
  match a, b with Some x, Some y => note_eqb x y | None, None => true | _, _ => false end.

Definition wrap_agrees (c : case) : bool :=
  match o_wrap c with
  | None => (mode c =? 0)%N
  | Some w =>
      if pending c then
        (* nothing has happened yet: not registered, not announced, not blocked, connection still open *)
        negb (w_registered w) && list_eqb note_eqb (w_notified w) [] && (w_block w =? -1) &&
        negb (w_closed w) && list_eqb note_eqb (w_gone w) [] &&
        match w_record w with None => true | Some _ => false end
      else
      let e := model_effects c in
      Bool.eqb (w_registered w) (match entry_of c with Some _ => true | None => false end) &&
      list_eqb note_eqb (w_gone w) (eff_gone e) &&
      list_eqb note_eqb (w_notified w) (eff_notified e) &&
      ((w_block w =? -3) || (w_block w =? eff_block e)) &&   (* -3: not observable (remote without address) *)
      Bool.eqb (w_closed w) (eff_closed e) &&
      opt_note_eqb (w_record w) (returned_of (follow_up c)) &&
      negb (w_second_hs w)
  end.

(* every signature question the model asks must have been answered by the driver *)
Definition oracle_complete (c : case) (r : run) : bool :=
  forallb (fun q => match vlookup (vtab c) (fst q) (snd q) with Some _ => true | None => false end)
          (verifies r).

Definition agrees (c : case) : bool :=
  let r := model_run c in
  oracle_complete c r &&
  res_agrees c (res r) &&
  list_eqb wframe_eqb (written r) (o_written c) &&
  list_eqb bytes_eqb (lookups r) (o_lookups c) &&
  ((negb (mode c =? 0)%N) || list_eqb pair_eqb (verifies r) (o_verifies c)) &&
  wrap_agrees c &&
  Bool.eqb (o_blocked c) (stall c && model_waits c).

Definition mismatches (cs : list case) : list N :=
  map id (filter (fun c => negb (agrees c)) cs).

(* ---- the property on the implementation's own observation -------------------------------------- *)
(* the request the remote presented and the echo it sent, at the positions the protocol fixes *)
Definition claimed (c : case) : option (bytes * bytes * bytes) :=
  match nth_error (script c) (if (dir c =? 0)%N then 0%nat else 1%nat) with
  | Some f => as_req f
  | None => None
  end.
Definition echoed (c : case) : option (bytes * bytes) :=
  match nth_error (script c) (if (dir c =? 0)%N then 1%nat else 0%nat) with
  | Some f => as_resp f
  | None => None
  end.

(* (A, T) was enrolled: which of the clauses of C04 does this observation break? *)
Definition enrol_violation (c : case) (A : bytes) (T : Z) : option string :=
  match claimed c with
  | None => Some "enrolled-without:signature"%string
  | Some (role, token, sig) =>
      if negb (match vlookup (vtab c) sig (role ++ token) with
               | Some r => vres_eqb r (VOk true A)
               | None => false
               end && (T =? role_of_string role))
      then Some "enrolled-without:signature"%string
      else if negb (pres_eqb (pid c) (POk A)) then Some "enrolled-without:binding"%string
      else if (T =? type_provider) && negb (mem A (staked c) && mem A (o_lookups c))
      then Some "enrolled-without:stake"%string
      else match echoed c with
           | Some (ea, er) =>
               if bytes_eqb ea (own_addr (cfg c)) && bytes_eqb er (role_string (own_type (cfg c)))
               then None else Some "enrolled-without:echo"%string
           | None => Some "enrolled-without:echo"%string
           end
  end.

Definition violation (c : case) : list string :=
  let direct :=
    if (o_res c =? 0)%N then
      match enrol_violation c (o_addr c) (o_role c) with Some k => [k] | None => [] end
    else [] in
  let wrapped :=
    match o_wrap c with
    | None => []
    | Some w =>
        (if (o_res c =? 0)%N then
           flat_map (fun n => match enrol_violation c (fst n) (snd n) with Some k => [k] | None => [] end)
                    (w_notified w)
         else if (o_res c =? 12)%N then
           (* still pending at the driver's bound: nothing may have been registered or announced *)
           (if w_registered w || negb (list_eqb note_eqb (w_notified w) [])
            then ["effect-on-refusal"%string] else [])
         else
           (* "ends with the connection refused and no peer registered or announced" *)
           (if w_registered w
            then [match prior c with Some _ => "refused-still-registered" | None => "effect-on-refusal" end%string]
            else []) ++
           (if negb (list_eqb note_eqb (w_notified w) []) then ["effect-on-refusal"%string] else []) ++
           (* no transport connection to that peer id may be left *)
           (if w_closed w then [] else ["refused-left-open"%string])) ++
        (* the registry's own record, read back through Connect's short cut *)
        match w_record w with
        | Some n => match enrol_violation c (fst n) (snd n) with Some k => [k] | None => [] end
        | None => []
        end
    end in
  direct ++ wrapped.

Definition violations (cs : list case) : list (N * string) :=
  flat_map (fun c => match violation c with k :: _ => [(id c, k)] | [] => [] end) cs.

(* cases in which an admission gate is decided: a request is presented at the protocol's position
   (signature, binding and stake gates) *)
Definition nontrivial (cs : list case) : list N :=
  map id (filter (fun c => match claimed c with Some _ => true | None => false end) cs).
