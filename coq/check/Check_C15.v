(* Correspondence + property checker for C15, evaluated on observations of the real Topology
   and Discovery wired together over a recording p2p fake.  Definitions only.

   A case is an event list (with the oracle answers inside the events) and, per event, what the
   implementation was seen to do: the effects (announcer calls, PeerLists written, Connect calls,
   AddPeers calls made by the discovery worker), the four views GetPeers(bootnode | provider |
   bidder | -1) and IsConnected on the probe addresses.  Orders that come from Go map iteration or
   from goroutine start order are not compared: effect lists, record lists and views are
   compared as multisets. *)
From Coq Require Import String List NArith ZArith Bool.
From MevVerif Require Import lib.Bytes gen.Generated model.Topology model.Discovery.
Import ListNotations.
Open Scope N_scope.

(* o_api: the provider and the bidder addresses in the answer of GET /topology (debug API handler
   registered on the same Topology); [] when the request failed *)
Record obs_ev := mkObs { o_eff : list effect; o_views : list (list peer); o_conn : list bool;
                         o_api : list (list addr) }.

(* c_mode 0: a sequential history; obs has one entry per event and everything is compared.
   c_mode 1: a concurrent run -- several goroutines, each repeating its own event list over
   addresses that no other goroutine touches, so that every linearisation ends in the same views;
   evs is one such linearisation (each list once), obs is the single observation made after all
   calls returned (no effects recorded), or [] when some call did not return within the
   watchdog limit (the topology is stuck). *)
(* c_mode 2: overlapping Connected calls on shared addresses, scheduled by the driver: every
   BroadcastPeers parks in the fake transport until released, one goroutine runs at a time.
   c_acts is the schedule, c_calls what each call was seen to do (returned?, its announcer calls and
   PeerLists), obs the single final observation. *)
Inductive action :=
| AStart (c : N) (p : peer) (lk : list (peer * bytes)) (ann : list (peer * N))  (* go topo.Connected(p); runs to its first park *)
| ARelease (c : N)                                                              (* let call c run to its next park / return *)
| AOther (e : event).                                                           (* atomic call made by the driver itself *)

(* c_mode 3: the discovery machine of model/Discovery.v -- the real Discovery over a fake P2P service
   whose Connect calls park and a topology whose IsConnected answers park, so that the driver decides
   when each handler looks at its next entry and in which order the dials complete.  d_acts is the
   schedule, d_effs what was seen during each action (IsConnected answers per handler, Connect calls,
   worker AddPeers calls, handler returns), d_peak the largest number of Connect calls that were
   running at the same time, d_stuck whether an expected reaction did not come within the watchdog
   limit (the run is abandoned there); obs is the single final observation of the views. *)
Record disc_obs := mkDisc { d_acts : list gaction; d_effs : list (list deffect); d_peak : N; d_stuck : bool }.
Definition no_disc : disc_obs := mkDisc [] [] 0 false.

Record case := mkCaseD {
  id : N;
  c_mode : N;
  c_roles : list Z;          (* int(p2p.PeerTypeBootnode), int(PeerTypeProvider), int(PeerTypeBidder) as compiled *)
  probes : list addr;
  evs : list event;
  obs : list obs_ev;
  c_acts : list action;
  c_calls : list (N * bool * list effect);
  c_disc : disc_obs }.
Notation mkCase i m r p e o a c := (mkCaseD i m r p e o a c no_disc).

Definition view_roles : list Z := [ROLE_BOOTNODE; ROLE_PROVIDER; ROLE_BIDDER; (-1)%Z].

(* --- multisets over a boolean equality ------------------------------------------------------ *)
Fixpoint rm1 {A : Type} (eqb : A -> A -> bool) (a : A) (l : list A) : option (list A) :=
  match l with
  | [] => None
  | b :: r => if eqb a b then Some r
              else match rm1 eqb a r with Some r' => Some (b :: r') | None => None end
  end.
(* elements of l1 (with multiplicity) that are not matched in l2 *)
Fixpoint ms_diff {A : Type} (eqb : A -> A -> bool) (l1 l2 : list A) : list A :=
  match l1 with
  | [] => []
  | a :: r => match rm1 eqb a l2 with
              | Some l2' => ms_diff eqb r l2'
              | None => a :: ms_diff eqb r l2
              end
  end.
Definition is_nil {A : Type} (l : list A) : bool := match l with [] => true | _ => false end.
Definition ms_eqb {A : Type} (eqb : A -> A -> bool) (l1 l2 : list A) : bool :=
  is_nil (ms_diff eqb l1 l2) && is_nil (ms_diff eqb l2 l1).
Fixpoint list_eqb {A : Type} (eqb : A -> A -> bool) (l1 l2 : list A) : bool :=
  match l1, l2 with
  | [], [] => true
  | a :: r1, b :: r2 => eqb a b && list_eqb eqb r1 r2
  | _, _ => false
  end.

Definition record_eqb (a b : record) : bool := (fst a =? fst b) && bytes_eqb (snd a) (snd b).
Definition wire_eqb (a b : wire_record) : bool := bytes_eqb (fst a) (fst b) && bytes_eqb (snd a) (snd b).
Definition effect_eqb (a b : effect) : bool :=
  match a, b with
  | Announce t1 r1, Announce t2 r2 => peer_eqb t1 t2 && ms_eqb record_eqb r1 r2
  | Wire t1 r1, Wire t2 r2 => peer_eqb t1 t2 && ms_eqb wire_eqb r1 r2
  | Dial u1, Dial u2 => bytes_eqb u1 u2
  | Add p1, Add p2 => peer_eqb p1 p2
  | _, _ => false
  end.

(* --- the model's observation of a history ------------------------------------------------------ *)
Definition observe (pr : list addr) (s : state) (eff : list effect) : obs_ev :=
  mkObs eff (map (fun r => get_peers r s) view_roles) (map (fun a => is_connected a s) pr) (api_view s).
Fixpoint run_obs (pr : list addr) (s : state) (l : list event) : list obs_ev :=
  match l with
  | [] => []
  | e :: r => observe pr (fst (step s e)) (snd (step s e)) :: run_obs pr (fst (step s e)) r
  end.

Definition obs_eqb (a b : obs_ev) : bool :=
  ms_eqb effect_eqb (o_eff a) (o_eff b)
  && list_eqb (ms_eqb peer_eqb) (o_views a) (o_views b)
  && list_eqb Bool.eqb (o_conn a) (o_conn b)
  && list_eqb (ms_eqb N.eqb) (o_api a) (o_api b).

(* the worker pool is not modelled: a case must keep fewer Connect calls in flight than
   checkWorkers (regenerated from discovery.go), otherwise it is outside the model's domain *)
Fixpoint within_pool (s : state) (l : list event) : bool :=
  match l with
  | [] => true
  | e :: r => (Z.of_nat (length (inflight (fst (step s e)))) <? c15_check_workers)%Z
              && within_pool (fst (step s e)) r
  end.

Definition final_obs (pr : list addr) (l : list event) : obs_ev := observe pr (run l) [].

(* --- mode 2: the schedule compiled to steps of the step model ------------------------------------
   A call runs until it calls BroadcastPeers (which parks) or returns: execute the candidate steps in
   order until one of them announces. *)
Fixpoint until_park (s : sstate) (cand : list sevent) : sstate * list sevent :=
  match cand with
  | [] => (s, [])
  | e :: r => if is_nil (announces (snd (sstep s e))) then
                let (s', done) := until_park (fst (sstep s e)) r in (s', e :: done)
              else (fst (sstep s e), [e])
  end.
Definition act_steps (s : sstate) (a : action) : sstate * list sevent :=
  match a with
  | AStart c p lk ann => until_park s [SAdd c p lk ann; SReadProviders c; SAnnounce c; SReadBidders c; SFanout c]
  | ARelease c => until_park s [SReadBidders c; SFanout c]
  | AOther e => (fst (sstep s (SOther e)), [SOther e])
  end.
Fixpoint compile (s : sstate) (l : list action) : list sevent :=
  match l with
  | [] => []
  | a :: r => snd (act_steps s a) ++ compile (fst (act_steps s a)) r
  end.
Definition started_calls (l : list action) : list N :=
  flat_map (fun a => match a with AStart c _ _ _ => [c] | _ => [] end) l.
Definition model_call (steps : list sevent) (c : N) : N * bool * list effect :=
  (c, match find_call c (calls (srun steps)) with Some k => call_done k | None => false end, call_effects c steps).
Definition call_eqb (x y : N * bool * list effect) : bool :=
  (fst (fst x) =? fst (fst y)) && Bool.eqb (snd (fst x)) (snd (fst y)) && ms_eqb effect_eqb (snd x) (snd y).
Definition overlap_agrees (c : case) : bool :=
  let steps := compile sinit (c_acts c) in
  list_eqb call_eqb (map (model_call steps) (started_calls (c_acts c))) (c_calls c)
  && list_eqb obs_eqb [observe (probes c) (base (srun steps)) []] (obs c).

(* --- mode 3: the discovery machine run on the driver's schedule --------------------------------------- *)
Definition pool_width : N := Z.to_N c15_check_workers.
Definition dial_result_eqb (a b : dial_result) : bool :=
  match a, b with
  | DialOk p, DialOk q => peer_eqb p q
  | DialErr RUndecodable, DialErr RUndecodable | DialErr RSelf, DialErr RSelf
  | DialErr RBlocked, DialErr RBlocked | DialErr RUnreachable, DialErr RUnreachable => true
  | _, _ => false
  end.
Definition deffect_eqb (a b : deffect) : bool :=
  match a, b with
  | XCheck h k, XCheck h' k' => (h =? h') && Bool.eqb k k'
  | XDial u, XDial v => bytes_eqb u v
  | XAdd p, XAdd q => peer_eqb p q
  | XReturn h c, XReturn h' c' => (h =? h') && (c =? c')
  | XSkip h x _, XSkip h' y _ => (h =? h') && wire_eqb x y
  | _, _ => false
  end.
(* the driver sees IsConnected answers, Connect calls, AddPeers calls and handler returns; a skip is
   not an event of its own *)
Definition seen (e : deffect) : bool := match e with XSkip _ _ _ => false | _ => true end.
(* per action: the effects of the action's events, the state after it and the number of running dials *)
Fixpoint grun (cap : N) (s : dstate) (l : list gaction) : list (list deffect) * dstate * N :=
  match l with
  | [] => ([], s, N.of_nat (length (d_flying s)))
  | a :: r =>
      match drun_from cap s (action_events cap s a) with
      | Ok (s1, effs) =>
          match grun cap s1 r with
          | (rest, s2, pk) => (filter seen (concat effs) :: rest, s2, N.max (N.of_nat (length (d_flying s))) pk)
          end
      | _ => ([], s, 0)
      end
  end.
Definition disc_agrees (c : case) : bool :=
  match grun pool_width dinit (d_acts (c_disc c)) with
  | (effs, s, pk) =>
      negb (d_stuck (c_disc c))
      && list_eqb (ms_eqb deffect_eqb) effs (d_effs (c_disc c))
      && (pk =? d_peak (c_disc c))
      && list_eqb obs_eqb [observe (probes c) (d_topo s) []] (obs c)
  end.

Definition case_agrees (c : case) : bool :=
  list_eqb Z.eqb (c_roles c) [ROLE_BOOTNODE; ROLE_PROVIDER; ROLE_BIDDER]
  && within_pool init (evs c)
  && (if c_mode c =? 0 then list_eqb obs_eqb (run_obs (probes c) init (evs c)) (obs c)
      else if c_mode c =? 1 then list_eqb obs_eqb [final_obs (probes c) (evs c)] (obs c)
      else if c_mode c =? 3 then disc_agrees c
      else overlap_agrees c).

Definition mismatches (cs : list case) : list N :=
  map id (filter (fun c => negb (case_agrees c)) cs).

(* --- the property evaluated on the implementation's own observation ------------------------------
   Abstract state: the set of provider addresses and of bidder addresses that the event history
   (and the AddPeers calls the discovery worker was seen to make) says are present, and the
   multiset of Connect calls seen and not yet answered. *)
Record abs := mkAbs { aP : list addr; aB : list addr; aF : list bytes }.
Definition abs_init : abs := mkAbs [] [] [].
Definition amem (a : addr) (l : list addr) : bool := existsb (N.eqb a) l.
Definition adel (a : addr) (l : list addr) : list addr := filter (fun b => negb (b =? a)) l.
Definition aput (a : addr) (l : list addr) : list addr := a :: adel a l.
Definition abs_add (p : peer) (A : abs) : abs :=
  if (p_role p =? ROLE_PROVIDER)%Z then mkAbs (aput (p_addr p) (aP A)) (aB A) (aF A)
  else if (p_role p =? ROLE_BIDDER)%Z then mkAbs (aP A) (aput (p_addr p) (aB A)) (aF A)
  else A.
Definition abs_remove (p : peer) (A : abs) : abs :=
  if (p_role p =? ROLE_PROVIDER)%Z then mkAbs (adel (p_addr p) (aP A)) (aB A) (aF A)
  else if (p_role p =? ROLE_BIDDER)%Z then mkAbs (aP A) (adel (p_addr p) (aB A)) (aF A)
  else A.
Definition abs_connected (a : addr) (A : abs) : bool := amem a (aP A) || amem a (aB A).

Definition msg_eqb (a b : peer * list record) : bool :=
  peer_eqb (fst a) (fst b) && ms_eqb record_eqb (snd a) (snd b).
Definition wmsg_eqb (a b : peer * list wire_record) : bool :=
  peer_eqb (fst a) (fst b) && ms_eqb wire_eqb (snd a) (snd b).
Definition rec_mem (r : record) (l : list record) : bool := existsb (record_eqb r) l.

(* abstract state after the event, given the effects seen *)
Definition abs_step (A : abs) (e : event) (eff : list effect) : abs :=
  match e with
  | Connected p _ _ => abs_add p A
  | AddPeers ps => fold_left (fun acc p => abs_add p acc) ps A
  | Disconnected p => abs_remove p A
  | Gossip _ _ _ => mkAbs (aP A) (aB A) (aF A ++ dials eff)
  | ConnectDone u _ =>
      fold_left (fun acc p => abs_add p acc) (adds eff) (mkAbs (aP A) (aB A) (remove1 u (aF A)))
  end.

(* view: the reported sets are exactly the abstract sets, with the right role, no duplicates,
   nothing reported for other roles; IsConnected accordingly *)
Fixpoint nodup_addrs (l : list addr) : bool :=
  match l with [] => true | a :: r => negb (amem a r) && nodup_addrs r end.
Definition set_view_ok (r : Z) (S : list addr) (v : list peer) : bool :=
  forallb (fun q => (p_role q =? r)%Z && amem (p_addr q) S) v
  && forallb (fun a => amem a (map p_addr v)) S
  && nodup_addrs (map p_addr v).
Definition set_addrs_ok (S : list addr) (l : list addr) : bool :=
  forallb (fun a => amem a S) l && forallb (fun a => amem a l) S && nodup_addrs l.
Definition view_ok (A : abs) (pr : list addr) (o : obs_ev) : bool :=
  match o_views o with
  | [v0; v1; v2; v3] =>
      is_nil v0 && is_nil v3 && set_view_ok ROLE_PROVIDER (aP A) v1 && set_view_ok ROLE_BIDDER (aB A) v2
  | _ => false
  end
  && list_eqb Bool.eqb (o_conn o) (map (fun a => abs_connected a A) pr)
  && match o_api o with
     | [ap; ab] => set_addrs_ok (aP A) ap && set_addrs_ok (aB A) ab
     | _ => false
     end.

(* announce clauses of one Connected p event; A is the abstract state after adding p *)
Definition expected_records (A : abs) (p : peer) (lk : list (peer * bytes)) : list record :=
  flat_map (fun a => if a =? p_addr p then []
                     else match tbl_get lk (mkPeer a ROLE_PROVIDER) with
                          | None => []
                          | Some u => [(a, u)]
                          end) (aP A).
Definition expected_fanout (A : abs) (p : peer) (lk : list (peer * bytes)) : list (peer * list record) :=
  if (p_role p =? ROLE_PROVIDER)%Z then
    match tbl_get lk p with
    | None => []
    | Some u => map (fun b => (mkPeer b ROLE_BIDDER, [(p_addr p, u)])) (aB A)
    end
  else [].
Definition expected_wires (ann : list (peer * N)) (ms : list (peer * list record)) : list (peer * list wire_record) :=
  flat_map (fun m => if stream_opens ann (fst m) then [(fst m, encode_records (snd m))] else []) ms.

Definition flag (b : bool) (k : string) : list string := if b then [k] else [].

Definition announce_clauses (A : abs) (p : peer) (lk : list (peer * bytes)) (ann : list (peer * N))
  (eff : list effect) : list string :=
  let ms := announces eff in
  let to_new := filter (fun m => peer_eqb (fst m) p) ms in
  let others := filter (fun m => negb (peer_eqb (fst m) p)) ms in
  let got := flat_map snd to_new in
  let want := expected_records A p lk in
  let fan := expected_fanout A p lk in
  let foreign := filter (fun r => negb (fst r =? p_addr p) && negb (rec_mem r want)) got in
  let legit := filter (fun r => rec_mem r want) got in
  flag (existsb (fun r => fst r =? p_addr p) got) "announce:self"
  ++ flag (existsb (fun r => negb (amem (fst r) (aP A)) && amem (fst r) (aB A)) foreign) "announce:bidder"
  ++ flag (existsb (fun r => amem (fst r) (aP A) || negb (amem (fst r) (aB A))) foreign
           || existsb (fun m => is_nil (snd m)) to_new
           || negb (is_nil (ms_diff record_eqb legit want))
           || negb (is_nil (ms_diff msg_eqb others fan))
           || negb (is_nil (ms_diff wmsg_eqb (wires eff) (expected_wires ann ms)))) "announce:extra"
  ++ flag (negb (is_nil (ms_diff record_eqb want got))
           || negb (is_nil (ms_diff msg_eqb fan others))
           || negb (is_nil (ms_diff wmsg_eqb (expected_wires ann ms) (wires eff)))) "announce:missing".

(* gossip clauses: A is the abstract state before the event *)
Definition allowed_dials (A : abs) (readok : bool) (entries : list wire_record) : list bytes :=
  if readok then
    flat_map (fun e => if abs_connected (addr_of_bytes (fst e)) A then [] else [snd e]) entries
  else [].
Definition gossip_clauses (A : abs) (readok : bool) (entries : list wire_record) (eff : list effect)
  : list string :=
  let extra := ms_diff bytes_eqb (dials eff) (allowed_dials A readok entries) in
  let known u := existsb (fun e => bytes_eqb (snd e) u && abs_connected (addr_of_bytes (fst e)) A) entries in
  flag (existsb known extra) "gossip:dialled-known"
  ++ flag (existsb (fun u => negb (known u)) extra || negb (is_nil (adds eff))) "gossip:unproven".

Definition done_clauses (A : abs) (u : bytes) (r : option peer) (eff : list effect) : list string :=
  let allowed := if existsb (bytes_eqb u) (aF A) then match r with Some p => [p] | None => [] end else [] in
  flag (negb (is_nil (ms_diff peer_eqb (adds eff) allowed)) || negb (is_nil (dials eff))) "gossip:unproven".

Definition no_announce (eff : list effect) : list string :=
  flag (negb (is_nil (announces eff)) || negb (is_nil (wires eff))) "announce:extra".
Definition no_gossip (eff : list effect) : list string :=
  flag (negb (is_nil (dials eff)) || negb (is_nil (adds eff))) "gossip:unproven".

Definition event_clauses (A : abs) (pr : list addr) (e : event) (o : obs_ev) : list string :=
  let eff := o_eff o in
  let A' := abs_step A e eff in
  (match e with
   | Connected p lk ann => announce_clauses A' p lk ann eff ++ no_gossip eff
   | AddPeers _ => no_announce eff ++ no_gossip eff
   | Disconnected _ => no_announce eff ++ no_gossip eff
   | Gossip _ readok entries => no_announce eff ++ gossip_clauses A readok entries eff
   | ConnectDone u r => no_announce eff ++ done_clauses A u r eff
   end)
  ++ flag (negb (view_ok A' pr o)) "view".

Fixpoint trace_clauses (A : abs) (pr : list addr) (l : list event) (os : list obs_ev) : list string :=
  match l, os with
  | e :: l', o :: os' => event_clauses A pr e o ++ trace_clauses (abs_step A e (o_eff o)) pr l' os'
  | _ :: _, [] => ["view:hang"%string]      (* the observation stops before the history does *)
  | [], _ => []
  end.

(* concurrent runs: the abstract sets after the linearisation (the effects a dial completion
   would need are taken from the model; the driver's concurrent runs contain no gossip) *)
Fixpoint abs_run (s : state) (A : abs) (l : list event) : abs :=
  match l with
  | [] => A
  | e :: r => abs_run (fst (step s e)) (abs_step A e (snd (step s e))) r
  end.
Definition final_clauses (pr : list addr) (l : list event) (os : list obs_ev) : list string :=
  match os with
  | [o] => flag (negb (view_ok (abs_run init abs_init l) pr o)) "view"
  | _ => ["view:hang"%string]
  end.

(* --- mode 2: soundness and no-loss judged from the schedule and the observation alone -------------
   For every call the windows "in the provider (bidder) set at some time / at all times between the
   start of the call (after its own add) and its last action" are accumulated over the schedule. *)
Record win := mkWin { w_id : N; w_peer : peer; w_lk : list (peer * bytes); w_ann : list (peer * N);
                      w_everP : list addr; w_everB : list addr; w_alwP : list addr; w_alwB : list addr }.
Definition acts_on (c : N) (a : action) : bool :=
  match a with AStart d _ _ _ => d =? c | ARelease d => d =? c | AOther _ => false end.
Definition union (l1 l2 : list addr) : list addr := fold_left (fun acc a => if amem a acc then acc else a :: acc) l2 l1.
Definition inter (l1 l2 : list addr) : list addr := filter (fun a => amem a l2) l1.
Definition win_update (A : abs) (w : win) : win :=
  mkWin (w_id w) (w_peer w) (w_lk w) (w_ann w)
        (union (w_everP w) (aP A)) (union (w_everB w) (aB A)) (inter (w_alwP w) (aP A)) (inter (w_alwB w) (aB A)).
(* after each action the windows of the calls that are still running (have a later action, or act
   now) are updated with the current sets *)
Fixpoint windows (A : abs) (ws : list win) (l : list action) : list win * abs :=
  match l with
  | [] => (ws, A)
  | a :: r =>
      let A' := match a with
                | AStart _ p _ _ => abs_add p A
                | ARelease _ => A
                | AOther e => abs_step A e []
                end in
      let ws1 := match a with
                 | AStart c p lk ann =>
                     if existsb (fun w => w_id w =? c) ws then ws
                     else ws ++ [mkWin c p lk ann (aP A') (aB A') (aP A') (aB A')]
                 | _ => ws
                 end in
      let live w := acts_on (w_id w) a || existsb (acts_on (w_id w)) r in
      windows A' (map (fun w => if live w then win_update A' w else w) ws1) r
  end.

Definition call_clauses (w : win) (done : bool) (eff : list effect) : list string :=
  let p := w_peer w in
  let ms := announces eff in
  let to_new := filter (fun m => peer_eqb (fst m) p) ms in
  let others := filter (fun m => negb (peer_eqb (fst m) p)) ms in
  let got := flat_map snd to_new in
  let ok_rec r := negb (fst r =? p_addr p) && amem (fst r) (w_everP w)
                  && match tbl_get (w_lk w) (mkPeer (fst r) ROLE_PROVIDER) with
                     | Some u => bytes_eqb u (snd r) | None => false end in
  let own := if (p_role p =? ROLE_PROVIDER)%Z then tbl_get (w_lk w) p else None in
  let ok_fan m := match own with
                  | Some u => (p_role (fst m) =? ROLE_BIDDER)%Z && amem (p_addr (fst m)) (w_everB w)
                              && ms_eqb record_eqb (snd m) [(p_addr p, u)]
                  | None => false
                  end in
  let bad := filter (fun r => negb (fst r =? p_addr p) && negb (ok_rec r)) got in
  flag (existsb (fun r => fst r =? p_addr p) got) "announce:self"
  ++ flag (existsb (fun r => negb (amem (fst r) (w_everP w)) && amem (fst r) (w_everB w)) bad) "announce:bidder"
  ++ flag (existsb (fun r => amem (fst r) (w_everP w) || negb (amem (fst r) (w_everB w))) bad
           || existsb (fun m => is_nil (snd m)) to_new
           || existsb (fun m => negb (ok_fan m)) others
           || negb (is_nil (ms_diff wmsg_eqb (wires eff) (expected_wires (w_ann w) ms)))) "announce:extra"
  ++ flag (done &&
           (existsb (fun a => negb (a =? p_addr p)
                              && match tbl_get (w_lk w) (mkPeer a ROLE_PROVIDER) with
                                 | Some u => negb (rec_mem (a, u) got) | None => false end) (w_alwP w)
            || match own with
               | Some u => existsb (fun b => negb (existsb (msg_eqb (mkPeer b ROLE_BIDDER, [(p_addr p, u)])) others)) (w_alwB w)
               | None => false
               end
            || negb (is_nil (ms_diff wmsg_eqb (expected_wires (w_ann w) ms) (wires eff))))) "announce:missing".

Definition overlap_clauses (c : case) : list string :=
  let (ws, A) := windows abs_init [] (c_acts c) in
  flat_map (fun w => match find (fun x => fst (fst x) =? w_id w) (c_calls c) with
                     | Some x => call_clauses w (snd (fst x)) (snd x)
                                 ++ flag (negb (snd (fst x))) "view:hang"
                     | None => ["view:hang"%string]
                     end) ws
  ++ match obs c with
     | [o] => flag (negb (view_ok A (probes c) o)) "view"
     | _ => ["view:hang"%string]
     end.

(* --- mode 3: the gossip property judged from the schedule and the observation alone -------------------
   Bookkeeping: per handler the entries it has not looked at yet (from the lists of the schedule,
   consumed by the IsConnected answers seen), the entries whose answer was "unknown" and that have
   not been dialled yet (a Connect call must take one of them; a handler that returns with its context's error drops
   what it had left), the entries that were skipped as known, the Connect calls running, the topology sets (from the schedule's topology events and the
   AddPeers calls seen).
     gossip:pool            more Connect calls were running at once than the pool is wide
     gossip:dialled-known   a Connect call for an entry that was answered "known" (or an answer "unknown"
                            for an address the topology holds at that moment)
     gossip:unproven        a Connect call nobody asked for; an AddPeers that is not the peer returned
                            by a Connect call running at that moment
     view:hang              an expected reaction did not come / a handler returned an unexpected code *)
Record gst := mkG { g_rem : list (N * list wire_record); g_due : list wire_record; g_known : list wire_record;
                    g_fly : list bytes; g_abs : abs }.
Fixpoint g_find (h : N) (l : list (N * list wire_record)) : list wire_record :=
  match l with [] => [] | (d, r) :: t => if d =? h then r else g_find h t end.
Fixpoint g_set (h : N) (r : list wire_record) (l : list (N * list wire_record)) : list (N * list wire_record) :=
  match l with [] => [(h, r)] | (d, r0) :: t => if d =? h then (d, r) :: t else (d, r0) :: g_set h r t end.
Fixpoint rm_due (u : bytes) (l : list wire_record) : option (list wire_record) :=
  match l with
  | [] => None
  | x :: r => if bytes_eqb (snd x) u then Some r
              else match rm_due u r with Some r' => Some (x :: r') | None => None end
  end.
Definition g_effect (a : gaction) (G : gst) (e : deffect) : gst * list string :=
  match e with
  | XCheck h k =>
      match g_find h (g_rem G) with
      | x :: rest =>
          let truth := abs_connected (addr_of_bytes (fst x)) (g_abs G) in
          (mkG (g_set h rest (g_rem G)) (if k then g_due G else g_due G ++ [x])
               (if k then x :: g_known G else g_known G) (g_fly G) (g_abs G),
           flag (negb k && truth) "gossip:dialled-known" ++ flag (k && negb truth) "view")
      | [] => (G, ["view:hang"%string])
      end
  | XDial u =>
      match rm_due u (g_due G) with
      | Some due' => (mkG (g_rem G) due' (g_known G) (g_fly G ++ [u]) (g_abs G), [])
      | None => (mkG (g_rem G) (g_due G) (g_known G) (g_fly G ++ [u]) (g_abs G),
                 if existsb (fun x => bytes_eqb (snd x) u) (g_known G) then ["gossip:dialled-known"%string]
                 else ["gossip:unproven"%string])
      end
  | XAdd p =>
      (mkG (g_rem G) (g_due G) (g_known G) (g_fly G) (abs_add p (g_abs G)),
       match a with
       | GDone u (DialOk q) => flag (negb (peer_eqb p q && existsb (bytes_eqb u) (g_fly G))) "gossip:unproven"
       | _ => ["gossip:unproven"%string]
       end)
  | XReturn h code =>
      ((if code =? 2 then mkG (g_set h [] (g_rem G)) (g_due G) (g_known G) (g_fly G) (g_abs G) else G),
       flag (negb ((code =? 0) && is_nil (g_find h (g_rem G))
                      || (code =? 1) && match a with GList h' false _ => h' =? h | _ => false end
                      || (code =? 2))) "view:hang")
  | XSkip _ _ _ => (G, [])
  end.
Definition g_begin (a : gaction) (G : gst) : gst :=
  match a with
  | GList h true l => mkG (g_set h l (g_rem G)) (g_due G) (g_known G) (g_fly G) (g_abs G)
  | GTopo e => if topo_event e then mkG (g_rem G) (g_due G) (g_known G) (g_fly G) (abs_step (g_abs G) e []) else G
  | _ => G
  end.
Definition g_end (a : gaction) (G : gst) : gst :=
  match a with
  | GDone u _ => mkG (g_rem G) (g_due G) (g_known G) (remove1 u (g_fly G)) (g_abs G)
  | _ => G
  end.
(* the IsConnected answers of an action come first, then the calls they lead to *)
Definition check_first (l : list deffect) : list deffect :=
  filter (fun e => match e with XCheck _ _ => true | _ => false end) l
  ++ filter (fun e => match e with XCheck _ _ => false | _ => true end) l.
Fixpoint g_effects (a : gaction) (G : gst) (l : list deffect) : gst * list string :=
  match l with
  | [] => (G, [])
  | e :: r => let (G1, k1) := g_effect a G e in let (G2, k2) := g_effects a G1 r in (G2, k1 ++ k2)
  end.
Fixpoint g_run (G : gst) (acts : list gaction) (effs : list (list deffect)) : gst * list string :=
  match acts, effs with
  | a :: ar, l :: lr =>
      let (G1, k1) := g_effects a (g_begin a G) (check_first l) in
      let (G2, k2) := g_run (g_end a G1) ar lr in (G2, k1 ++ k2)
  | _, _ => (G, [])
  end.
Definition disc_clauses (c : case) : list string :=
  let D := c_disc c in
  let (G, ks) := g_run (mkG [] [] [] [] abs_init) (d_acts D) (d_effs D) in
  ks ++ flag (Z.to_N c15_check_workers <? d_peak D) "gossip:pool"
  ++ flag (d_stuck D) "view:hang"
  ++ (if d_stuck D then []
      else match obs c with
           | [o] => flag (negb (view_ok G.(g_abs) (probes c) o)) "view"
           | _ => ["view:hang"%string]
           end).

Definition case_violations (c : case) : list string :=
  if c_mode c =? 0 then nodup string_dec (trace_clauses abs_init (probes c) (evs c) (obs c))
  else if c_mode c =? 1 then final_clauses (probes c) (evs c) (obs c)
  else if c_mode c =? 3 then nodup string_dec (disc_clauses c)
  else nodup string_dec (overlap_clauses c).

Definition violations (cs : list case) : list (N * string) :=
  flat_map (fun c => map (fun k => (id c, k)) (case_violations c)) cs.

(* a case exercises the property when the model announces, dials or adds at least once *)
Definition nontrivial (cs : list case) : list N :=
  map id (filter (fun c => negb (is_nil (concat (trace (evs c))))
                           || negb (is_nil (flat_map (fun x => snd x) (c_calls c)))
                           || existsb (fun l => existsb (fun e => match e with XDial _ => true | _ => false end) l)
                                      (d_effs (c_disc c))) cs).
