(* Correspondence + property checker for C13, evaluated on observations of the real
   newStream / newMetadataStream (pkg/p2p/libp2p/stream.go) over a chunking fake network stream,
   and of the handler epilogue of two real libp2p services.  Definitions only. *)
From Coq Require Import String List NArith ZArith Bool.
From MevVerif Require Import lib.Bytes lib.Varint model.Framing model.ProtoWire.
Import ListNotations.
Open Scope N_scope.

(* --- what the driver did and saw --------------------------------------------------------- *)
Inductive wop :=
  | WMsg (inner : option bytes)                 (* WriteMsg(m); inner = proto.Marshal(m), None = it failed *)
  | WHdr (payload : option bytes) (canon : bytes) (entries : option (list (bytes * bytes)))
      (* WriteHeader(h); payload = proto.Marshal(Header{h}) as it appeared on the stream (map
         order is not deterministic, so it is taken from the capture); canon = deterministic
         marshalling of the same header; entries = the map as (key, marshalled Value) pairs in
         any order, None when a Value's own marshalling is not deterministic (nested maps) *)
  | WStatus (s : status)                        (* WriteError(status) *)
  | WHandler (e : herr).                        (* status.FromError(err), then WriteError *)

Inductive wobs :=
  | WOk (b : bytes)        (* nil error, exactly one Write call on the network stream *)
  | WFail                  (* error returned, nothing written *)
  | WOdd.                  (* anything else (panic, several writes, error after a write) *)

Inductive robs :=
  | OData (u : bytes)      (* nil error; m was reset and now holds these bytes as unknown fields *)
  | OInnerBad              (* protobuf error and m was reset: the inner Unmarshal failed *)
  | OStatus (code : Z) (msg : bytes) (details : list (bytes * bytes))
  | OOkNoData              (* nil error, m untouched *)
  | OReject                (* an error that is no protobuf/status/transport error, m untouched *)
  | OMalformed             (* protobuf error, m untouched *)
  | OHeader (canon : bytes)
  | OHeaderBad
  | OEOF                   (* io.EOF or io.ErrUnexpectedEOF *)
  | OTooLarge              (* msgio.ErrMsgTooLarge *)
  | OOther
  | OPanic.

Inductive cbody :=
  | Session (honest : bool)                     (* the stream is what the writes below produced *)
            (wops : list wop) (wseen : list wobs)
            (stream : option bytes)             (* bytes fed to the reader; None = the writes' bytes *)
            (pattern : list N)                  (* chunk sizes, cycled *)
            (rops : list N)                     (* reads performed: 0 ReadMsg, 1 ReadHeader *)
            (rseen : list robs)
            (hdrs : list (bytes * option bytes))(* Header unmarshal of known frame bodies -> canon *)
            (typed_ok : bool)                   (* second pass with the real message types: all equal *)
  | Big (n : N) (whead : bytes) (wlen : N) (racc : bool) (rlen : N) (req : bool)
      (* WriteMsg of an n-byte payload: first bytes and total length written; ReadMsg over a
         chunking pipe: accepted?, length read, bytes equal? *)
  | E2E (e : option herr) (seen : robs)         (* real services: handler returns e; client ReadMsg *)
  | Abandon (inners : list bytes) (reqs : list N) (got : list robs)
      (* one ReadMsg call per entry of reqs (0 = runs to completion, 1 = given up through its
         context while nothing had arrived; at most one given-up call pending at a time); one
         message per call is written, in order; got = what the completed calls returned *)
  | StalledWrites (inners : list bytes) (calls : list N) (wire : list bytes)
      (* WriteMsg calls on a stream whose peer does not take bytes (0 = completed after the peer
         resumed, 1 = given up through its context while stuck or queued); wire = the Write calls
         that reached the network stream, in order *)
  | WireEnc (m : wmsg) (got : option bytes) (back : option wmsg)
      (* a generated protocol message: got = proto.Marshal (Deterministic) of it, None = Marshal
         refused; back = the fields after the real Unmarshal of those bytes into a fresh message *)
  | WireDec (k : N) (input : bytes) (got : option wmsg).
      (* arbitrary bytes handed to the real proto.Unmarshal into a fresh message of kind k:
         None = refused, Some = the fields of the message afterwards *)

Record case := { id : N; cb : cbody }.

(* --- helpers ------------------------------------------------------------------------------- *)
Fixpoint list_eqb {A} (eqb : A -> A -> bool) (a b : list A) : bool :=
  match a, b with
  | [], [] => true
  | x :: a', y :: b' => eqb x y && list_eqb eqb a' b'
  | _, _ => false
  end.

Definition any_pairs (s : status) : list (bytes * bytes) := map (fun a => (a_url a, a_val a)) (st_details s).
Definition pair_eqb (p q : bytes * bytes) : bool := bytes_eqb (fst p) (fst q) && bytes_eqb (snd p) (snd q).

Definition status_matches (s : status) (code : Z) (msg : bytes) (det : list (bytes * bytes)) : bool :=
  (st_code s =? code)%Z && bytes_eqb (st_msg s) msg && list_eqb pair_eqb (any_pairs s) det.

(* chunk the stream by cycling through the pattern (a pattern holds at least one positive size) *)
Fixpoint chunk_cycle (fuel : nat) (pat cur : list N) (l : bytes) : list bytes :=
  match fuel with
  | O => [l]
  | S k =>
      match l with
      | [] => []
      | _ =>
          match cur with
          | [] => match pat with [] => [l] | _ => chunk_cycle k pat pat l end
          | c :: cur' => firstn (N.to_nat c) l :: chunk_cycle k pat cur' (skipn (N.to_nat c) l)
          end
      end
  end.
Definition chunks_of (pat : list N) (l : bytes) : list bytes :=
  chunk_cycle ((length l + 1) * (length pat + 2)) pat pat l.

(* what protobuf-go keeps as unknown fields of an empty message: per field the minimal tag
   followed by the raw value bytes.  None = the payload does not parse; groups -> unspecified *)
Fixpoint unknown_of_n (fuel : nat) (l : bytes) : tri bytes :=
  match l with
  | [] => TOk []
  | _ :: _ =>
      match fuel with
      | O => TBad
      | S k =>
          match varint_dec l, dec_field l with
          | Some (tag, after_tag), FOk f rest =>
              let raw := firstn (length after_tag - length rest) after_tag in
              match unknown_of_n k rest with
              | TOk u => TOk (enc_tag (fst f) (wtype (snd f)) ++ raw ++ u)
              | r => r
              end
          | _, FGroup => TUnspec
          | _, _ => TBad
          end
      end
  end.
Definition unknown_of (l : bytes) : tri bytes := unknown_of_n (length l) l.

Fixpoint lookup (k : bytes) (t : list (bytes * option bytes)) : option (option bytes) :=
  match t with
  | [] => None
  | (k', v) :: r => if bytes_eqb k k' then Some v else lookup k r
  end.

(* --- correspondence -------------------------------------------------------------------------- *)
Definition model_write (op : wop) : outcome bytes :=
  match op with
  | WMsg inner => write_msg inner
  | WHdr payload _ _ => write_header payload
  | WStatus s => write_error s
  | WHandler e => write_error (status_of_herr e)
  end.

(* the header payload on the stream decodes, by the map-framing model, to exactly the entries of
   the header that was written (as a map: same size, every key with its value) *)
Fixpoint hlookup (k : bytes) (h : list hentry) : option bytes :=
  match h with
  | [] => None
  | (k', v) :: r => if bytes_eqb k k' then Some v else hlookup k r
  end.
Definition same_map (a b : list hentry) : bool :=
  Nat.eqb (length a) (length b) &&
  forallb (fun e => match hlookup (fst e) b with Some v => bytes_eqb v (snd e) | None => false end) a.
Definition header_payload_ok (op : wop) : bool :=
  match op with
  | WHdr (Some p) _ (Some es) =>
      match decode_header p with TOk h => same_map es h | _ => false end
  | _ => true
  end.

Definition write_agrees (op : wop) (o : wobs) : bool :=
  match model_write op, o with
  | Ok f, WOk b => bytes_eqb f b && header_payload_ok op
  | Err _, WFail => true
  | _, _ => false
  end.

Definition written_bytes (ws : list wobs) : bytes :=
  flat_map (fun o => match o with WOk b => b | _ => [] end) ws.

Definition not_panic (o : robs) : bool := match o with OPanic => false | _ => true end.

(* one ReadMsg on a delivered frame *)
Definition readmsg_agrees (fr : bytes) (o : robs) : bool :=
  match read_msg fr with
  | RData p =>
      match unknown_of p, o with
      | TOk u, OData u' => bytes_eqb u u'
      | TBad, OInnerBad => true
      | TUnspec, _ => not_panic o
      | _, _ => false
      end
  | RStatus s => match o with OStatus c m d => status_matches s c m d | _ => false end
  | ROkNoData => match o with OOkNoData => true | _ => false end
  | RNeither => match o with OReject => true | _ => false end
  | RMalformed => match o with OMalformed => true | _ => false end
  | RUnspec => not_panic o
  end.

Definition readhdr_agrees (hdrs : list (bytes * option bytes)) (fr : bytes) (o : robs) : bool :=
  match lookup (read_header fr) hdrs, o with
  | Some (Some c), OHeader c' => bytes_eqb c c'
  | Some None, OHeaderBad => true
  | None, _ => not_panic o
  | _, _ => false
  end.

Definition end_agrees (e : rend) (o : robs) : bool :=
  match e, o with EndEOF, OEOF => true | EndTooLarge, OTooLarge => true | _, _ => false end.

Fixpoint reads_agree (hdrs : list (bytes * option bytes)) (e : rend)
         (frames : list bytes) (rops : list N) (os : list robs) : bool :=
  match frames, rops, os with
  | [], [_], [o] => end_agrees e o
  | fr :: frames', op :: rops', o :: os' =>
      (if op =? 0 then readmsg_agrees fr o else readhdr_agrees hdrs fr o) &&
      reads_agree hdrs e frames' rops' os'
  | _, _, _ => false
  end.

Definition session_stream (wseen : list wobs) (stream : option bytes) : bytes :=
  match stream with Some s => s | None => written_bytes wseen end.

Fixpoint all2 {A B} (f : A -> B -> bool) (a : list A) (b : list B) : bool :=
  match a, b with
  | [], [] => true
  | x :: a', y :: b' => f x y && all2 f a' b'
  | _, _ => false
  end.

Definition e2e_expect (e : option herr) (o : robs) : bool :=
  match e with
  | None => match o with OEOF => true | _ => false end
  | Some h =>
      let s := status_of_herr h in
      if status_marshal_ok s then
        if (st_code s =? 0)%Z then match o with OOkNoData => true | _ => false end
        else match o with OStatus c m d => status_matches s c m d | _ => false end
      else
        (* the status cannot be marshalled (e.g. invalid UTF-8 in the message): the responder resets the stream, and
           the reset may overtake the response header or surface under different error classes depending on timing;
           outside the claim except that nothing may be delivered as data *)
        match o with OData _ => false | _ => true end
  end.

Definition req_of (n : N) : req := if n =? 0 then ReqRead else ReqAbandoned.
Definition data_body (i : bytes) : bytes := enc_streammsg (BData i).

Fixpoint remove_one (b : bytes) (l : list bytes) : option (list bytes) :=
  match l with
  | [] => None
  | y :: r => if bytes_eqb b y then Some r
              else match remove_one b r with Some r' => Some (y :: r') | None => None end
  end.
Fixpoint perm_b (a b : list bytes) : bool :=
  match a with
  | [] => match b with [] => true | _ => false end
  | y :: a' => match remove_one y b with Some b' => perm_b a' b' | None => false end
  end.
Definition head_eqb (a b : list bytes) : bool :=
  match a, b with
  | [], [] => true
  | y :: _, z :: _ => bytes_eqb y z
  | _, _ => false
  end.
Fixpoint count_b (b : bytes) (l : list bytes) : nat :=
  match l with [] => O | y :: r => (if bytes_eqb b y then 1 else 0) + count_b b r end.
Definition payloads_of (rs : list rres) : list bytes :=
  flat_map (fun r => match r with RData p => [p] | _ => [] end) rs.

(* protocol messages (model/ProtoWire.v) *)
Definition fval_eqb (a b : fval) : bool :=
  match a, b with
  | VB p, VB q => bytes_eqb p q
  | VI p, VI q => (p =? q)%Z
  | _, _ => false
  end.
Definition vals_eqb : list fval -> list fval -> bool := list_eqb fval_eqb.
Definition wmsg_eqb (a b : wmsg) : bool :=
  match a, b with
  | MFlat k p, MFlat k' q => (k =? k') && vals_eqb p q
  | MPeers p, MPeers q => list_eqb vals_eqb p q
  | MPreconf p, MPreconf q =>
      match pc_bid p, pc_bid q with
      | Some u, Some v => vals_eqb u v
      | None, None => true
      | _, _ => false
      end && vals_eqb (pc_rest p) (pc_rest q)
  | _, _ => false
  end.
Definition wire_back_ok (m : wmsg) (back : option wmsg) : bool :=
  match back with Some m' => wmsg_eqb m m' | None => false end.
(* the bytes a node put on the wire, read by the wire format as specified (the decoder of
   model/ProtoWire.v, i.e. what an unmodified peer does), give the message that was written *)
Definition wire_kind_of (m : wmsg) : N :=
  match m with MFlat k _ => k | MPeers _ => 4 | MPreconf _ => 5 end.
Definition spec_reads (m : wmsg) (b : bytes) : bool :=
  match wire_unmarshal (wire_kind_of m) b with TOk m' => wmsg_eqb m m' | _ => false end.

Definition agrees (c : cbody) : bool :=
  match c with
  | WireEnc m got _ =>
      match wire_marshal m, got with
      | Some a, Some b => bytes_eqb a b
      | None, None => true
      | _, _ => false
      end
  | WireDec k input got =>
      match wire_unmarshal k input, got with
      | TOk m, Some m' => wmsg_eqb m m'
      | TBad, None => true
      | TUnspec, _ => true                      (* a start-group tag: outside the model *)
      | _, _ => false
      end
  | Abandon inners reqs got =>
      Nat.eqb (length inners) (length reqs) &&
      all2 readmsg_agrees (fst (serve (map req_of reqs) (map data_body inners))) got
  | StalledWrites inners calls wire =>
      let model := map (fun i => frame (data_body i)) inners in
      Nat.eqb (length inners) (length calls) && perm_b model wire && head_eqb model wire
  | Session _ wops wseen stream pat rops rseen hdrs _ =>
      let st := feed_chunks (chunks_of pat (session_stream wseen stream)) in
      all2 write_agrees wops wseen && reads_agree hdrs (end_of st) (out st) rops rseen
  | Big n whead wlen racc rlen _ =>
      bytes_eqb whead (data_frame_prefix n) && (wlen =? N.of_nat len_size + data_body_len n) &&
      Bool.eqb racc (data_frame_accepted n) && (if racc then rlen =? n else true)
  | E2E e o => e2e_expect e o
  end.

Definition mismatches (cs : list case) : list N :=
  map id (filter (fun c => negb (agrees (cb c))) cs).

(* --- the property on the implementation's observation -------------------------------------- *)
Definition accepted_as_data (o : robs) : bool :=
  match o with OData _ => true | OOkNoData => true | _ => false end.

(* honest sessions: the reads must return, in order, what was written.  Expectations come from
   the write operations alone (not from the byte-level model). *)
Definition inner_of (op : wop) : option bytes := match op with WMsg (Some i) => Some i | _ => None end.

Definition status_of_wop (op : wop) : option status :=
  match op with WStatus s => Some s | WHandler e => Some (status_of_herr e) | _ => None end.

Definition expect_item (all_inners : list bytes) (op : wop) (o : robs) : option string :=
  match op with
  | WMsg (Some i) =>
      match o with
      | OData u => if bytes_eqb u i then None
                   else if existsb (bytes_eqb u) all_inners then Some "order"%string
                   else Some "roundtrip"%string
      | _ => Some "roundtrip"%string
      end
  | WMsg None => Some "roundtrip"%string          (* nothing should have been written *)
  | WHdr _ canon _ =>
      match o with OHeader c => if bytes_eqb c canon then None else Some "header"%string | _ => Some "header"%string end
  | _ =>
      match status_of_wop op with
      | Some s =>
          if (st_code s =? 0)%Z then None           (* OK status: outside the claim *)
          else match o with
               | OStatus c m d => if status_matches s c m d then None else Some "error-changed"%string
               | _ => if accepted_as_data o then Some "error-as-data"%string else Some "error-changed"%string
               end
      | None => None
      end
  end.

Fixpoint expect_session (all_inners : list bytes) (wops : list wop) (wseen : list wobs) (os : list robs)
  : list string :=
  match wops, wseen with
  | [], _ => match os with [OEOF] => [] | _ => ["roundtrip"%string] end
  | op :: wops', WOk _ :: wseen' =>
      match os with
      | o :: os' =>
          match expect_item all_inners op o with
          | Some k => [k]
          | None => expect_session all_inners wops' wseen' os'
          end
      | [] => ["roundtrip"%string]
      end
  | _ :: wops', _ :: wseen' => expect_session all_inners wops' wseen' os      (* nothing was written *)
  | _, [] => ["roundtrip"%string]
  end.

(* every session: a frame without a oneof member must be refused; a frame whose member is a
   non-OK error must not read as data *)
Definition frame_clause (fr : bytes) (op : N) (o : robs) : list string :=
  if op =? 0 then
    match read_msg fr with
    | RNeither => if accepted_as_data o then ["neither-accepted"%string] else []
    | RStatus _ => if accepted_as_data o then ["error-as-data"%string] else []
    | _ => []
    end
  else [].

Fixpoint frame_clauses (frames : list bytes) (rops : list N) (os : list robs) : list string :=
  match frames, rops, os with
  | fr :: frames', op :: rops', o :: os' => frame_clause fr op o ++ frame_clauses frames' rops' os'
  | _, _, _ => []
  end.

Definition violation (c : cbody) : list string :=
  match c with
  | Session honest wops wseen stream pat rops rseen hdrs typed_ok =>
      let st := feed_all (session_stream wseen stream) in
      frame_clauses (out st) rops rseen ++
      (if honest then
         expect_session (flat_map (fun op => match inner_of op with Some i => [i] | None => [] end) wops)
                        wops wseen rseen ++
         (if typed_ok then [] else ["roundtrip"%string])
       else [])
  | Big n _ _ racc rlen req =>
      if data_frame_accepted n then
        if racc && (rlen =? n) && req then [] else ["roundtrip"%string]
      else []
  | E2E (Some h) o =>
      let s := status_of_herr h in
      if status_marshal_ok s && negb (st_code s =? 0)%Z then
        match o with
        | OStatus c m d => if status_matches s c m d then [] else ["error-changed"%string]
        | _ => if accepted_as_data o then ["error-as-data"%string] else ["error-changed"%string]
        end
      else []
  | E2E None _ => []
  | Abandon inners reqs got =>
      (* with no call given up this is the ordinary round trip; a given-up call is outside the
         claim (stated premise of C13_delivery), compared with the model only *)
      if no_abandon (map req_of reqs) then
        if all2 (fun i o => match o with OData u => bytes_eqb u i | _ => false end) inners got
        then [] else ["roundtrip"%string]
      else []
  | StalledWrites inners calls wire =>
      (* what reaches the reader: no frame that no call wrote, none more often than it was
         written, and the frame of every completed call *)
      let frs := out (feed_all (concat wire)) in
      let bodies := map data_body inners in
      let completed := flat_map (fun ic => if snd ic =? 0 then [data_body (fst ic)] else []) (combine inners calls) in
      if forallb (fun f => Nat.leb 1 (count_b f bodies) && Nat.leb (count_b f frs) (count_b f bodies)) frs &&
         forallb (fun b => Nat.leb 1 (count_b b frs)) completed
      then [] else ["roundtrip"%string]
  | WireEnc m got back =>
      (* what Marshal accepted must read back as the same message, through the real Unmarshal
         and through the wire format as specified *)
      match got with
      | Some b => if wire_back_ok m back && spec_reads m b then [] else ["roundtrip"%string]
      | None => []
      end
  | WireDec _ _ _ => []
  end.

Definition violations (cs : list case) : list (N * string) :=
  flat_map (fun c => match violation (cb c) with k :: _ => [(id c, k)] | [] => [] end) cs.

(* cases that deliver at least one frame to a reader *)
Definition nontrivial (cs : list case) : list N :=
  map id (filter (fun c =>
    match cb c with
    | Session _ _ _ _ _ _ rseen _ _ => Nat.ltb 1 (length rseen)
    | Big _ _ _ _ _ _ => true
    | E2E (Some _) _ => true
    | E2E None _ => false
    | Abandon _ _ _ => true
    | StalledWrites _ _ _ => true
    | WireEnc _ got _ => match got with Some _ => true | None => false end
    | WireDec _ input _ => negb (is_nil input)
    end) cs).
