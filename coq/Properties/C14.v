(* C14 -- Peer registry stays consistent; handlers run only for registered peers.
   Statements only; every proof is [exact <lemma>].

   Vocabulary (model/PeerRegistry.v).  A connection is (remote peer id, serial).  Events:
   Enrol c pe closed (addPeer(c, pe) after a handshake that proved address/role pe, with
   c.IsClosed() = closed), ConnClosed c (the network's Disconnected notification), and for an
   inbound stream s run through the wrapper of AddStreamHandlers: SLookup s p (getPeer), STrack s
   (WithCancel + addStream), SStart s (the protocol handler is invoked), SEnd s (removeStream);
   RemoveStream p s is a direct call.  [run evs] is the registry (four maps) plus history fields
   (notifications, handler contexts, wrapper states, handler invocations) after the events evs, of
   any length and in any order.  [wf evs] is the only premise: the address proven in a handshake is
   a function of the remote peer id and is injective (guaranteed for real connections by C04/C18).
   [open_enrolled evs c]: c was enrolled while open and no ConnClosed c has been delivered since. *)
From Coq Require Import List NArith ZArith Bool.
From MevVerif Require check.Check_C14.
From MevVerif Require Import lib.Bytes model.PeerRegistry proofs.PeerRegistry_proofs.
Import ListNotations.
Open Scope N_scope.

(* The address->id map and the id->peer map are mutually inverse after every history. *)
Theorem C14_inverse : forall evs, wf evs ->
  (forall p pe, get p (overlays (run evs)) = Some pe -> get (p_addr pe) (underlays (run evs)) = Some p) /\
  (forall a p, get a (underlays (run evs)) = Some p ->
               exists pe, get p (overlays (run evs)) = Some pe /\ p_addr pe = a).
Proof. exact inverse. Qed.
Print Assumptions C14_inverse.

(* A peer is registered exactly while at least one of its connections that was enrolled open has
   not been reported closed (so a connection that had already closed when it was enrolled never
   keeps a peer registered). *)
Theorem C14_registered_iff : forall evs p, wf evs ->
  (registered (run evs) p = true <-> exists k, open_enrolled evs (p, k) = true).
Proof. exact registered_iff. Qed.
Print Assumptions C14_registered_iff.

(* "Open" in C14_registered_iff means: enrolled while IsClosed answered false, and not reported
   closed since.  On histories in which IsClosed is never answered false after the connection's
   closure was reported (w3: the order libp2p guarantees when IsClosed is asked inside addPeer's
   critical section, and the one the checker holds the implementation to) this is the same as never
   having been reported closed at all. *)
Theorem C14_open_is_strict : forall evs c, w3 evs -> truly_open evs c = open_enrolled evs c.
Proof. exact truly_open_w3. Qed.
Print Assumptions C14_open_is_strict.

(* When the last such connection of a peer closes: the peer is removed from both maps, exactly one
   notification carrying its registered record is appended, and the context of every wrapper run of
   that peer that is past addStream (handler running or about to) is cancelled ... *)
Theorem C14_last_close : forall evs c, wf (evs ++ [ConnClosed c]) ->
  open_enrolled evs c = true ->
  (forall k, open_enrolled evs (remote c, k) = true -> (remote c, k) = c) ->
  exists pe, get (remote c) (overlays (run evs)) = Some pe /\
    registered (run (evs ++ [ConnClosed c])) (remote c) = false /\
    get (p_addr pe) (underlays (run (evs ++ [ConnClosed c]))) = None /\
    notes (run (evs ++ [ConnClosed c])) = notes (run evs) ++ [pe] /\
    (forall s, running (run evs) s (remote c) = true -> ctx_cancelled (run (evs ++ [ConnClosed c])) s = true) /\
    (forall s, running (run (evs ++ [ConnClosed c])) s (remote c) = running (run evs) s (remote c)).
Proof. exact last_close. Qed.
Print Assumptions C14_last_close.

(* ... a closure that is not the last one (untracked connection, or another enrolled connection of
   the peer is still open) emits nothing, removes nobody and cancels nothing ... *)
Theorem C14_not_last_close : forall evs c, wf (evs ++ [ConnClosed c]) ->
  (open_enrolled evs c = false \/
   exists k, (remote c, k) <> c /\ open_enrolled evs (remote c, k) = true) ->
  notes (run (evs ++ [ConnClosed c])) = notes (run evs) /\
  overlays (run (evs ++ [ConnClosed c])) = overlays (run evs) /\
  underlays (run (evs ++ [ConnClosed c])) = underlays (run evs) /\
  ctxs (run (evs ++ [ConnClosed c])) = ctxs (run evs).
Proof. exact not_last_close. Qed.
Print Assumptions C14_not_last_close.

(* ... and no other kind of event ever emits a notification. *)
Theorem C14_notifications_only_on_close : forall evs e, wf (evs ++ [e]) ->
  (forall c, e <> ConnClosed c) -> notes (run (evs ++ [e])) = notes (run evs).
Proof. exact notes_other_events. Qed.
Print Assumptions C14_notifications_only_on_close.

(* Every handler invocation (s, p, pe, f), with its place in the history:
   - the identity pe handed to the handler is the record under which p was registered when the
     wrapper looked the peer up (the first event of stream s), and that record was proven by a
     handshake on a then-open connection of p BEFORE that lookup;
   - later, when the stream was tracked (addStream), p was registered (f = true).
   In particular no handler ever runs for a peer that never completed a handshake. *)
Theorem C14_handlers : forall evs, wf evs ->
  forall s p pe f, In (s, p, pe, f) (started (run evs)) ->
    f = true /\
    (exists pre post, evs = pre ++ SLookup s p :: post /\ get s (sw (run pre)) = None /\
        get p (overlays (run pre)) = Some pe /\ exists k, In (Enrol (p, k) pe false) pre) /\
    (exists pre post, evs = pre ++ STrack s :: post /\ get s (sw (run pre)) = Some (SwLooked p pe) /\
        registered (run pre) p = true).
Proof. exact handlers_ordered. Qed.
Print Assumptions C14_handlers.

(* OBSERVATION (not a violation of the property text as read in DESIGN section 7, recorded for the
   report): the stronger reading "the record in force when the stream is tracked" does NOT hold of
   the code.  The wrapper keeps the *p2p.Peer of its first getPeer; if the peer disconnects and
   registers again with another role between that lookup and addStream, the handler runs for a
   registered peer, with a live context, and is handed the role of the previous registration. *)
Theorem C14_handlers_current_refuted : exists evs s p pe,
  wf evs /\ In (s, p, pe, true) (started (run evs)) /\
  exists pre post pe', evs = pre ++ STrack s :: post /\
    get p (overlays (run pre)) = Some pe' /\ pe' <> pe /\ registered (run evs) p = true /\
    ctx_cancelled (run evs) s = false.
Proof. exact handlers_current_refuted. Qed.
Print Assumptions C14_handlers_current_refuted.

(* At every moment a wrapper run past addStream belongs to a registered peer or its context has
   been cancelled. *)
Theorem C14_running_registered_or_cancelled : forall evs, wf evs ->
  forall s p, running (run evs) s p = true ->
    registered (run evs) p = true \/ ctx_cancelled (run evs) s = true.
Proof. exact running_registered_or_cancelled. Qed.
Print Assumptions C14_running_registered_or_cancelled.

(* A new stream from a peer that is not registered is reset; a peer no open connection of which
   was ever enrolled is not registered. *)
Theorem C14_unknown_peer_reset : forall evs s p, wf evs ->
  get s (sw (run evs)) = None -> registered (run evs) p = false ->
  get s (sw (run (evs ++ [SLookup s p]))) = Some SwReset.
Proof. exact unknown_peer_reset. Qed.
Print Assumptions C14_unknown_peer_reset.

Theorem C14_never_enrolled_unregistered : forall evs p, wf evs ->
  (forall k pe, ~ In (Enrol (p, k) pe false) evs) -> registered (run evs) p = false.
Proof. exact never_enrolled_unregistered. Qed.
Print Assumptions C14_never_enrolled_unregistered.

(* Inbound announcement (tail of handleConnectReq: exists := addPeer(..); if exists { reset; return };
   notifier.Connected( *peer ) -- call sites regenerated from the source).  Connected is announced
   exactly when this very call registered the peer: not registered before, registered afterwards ... *)
Theorem C14_connected_iff_registered_now : forall evs c pe closed, wf (evs ++ [Enrol c pe closed]) ->
  (inbound_announces (run evs) c pe closed = true <->
   registered (run evs) (remote c) = false /\
   registered (run (evs ++ [Enrol c pe closed])) (remote c) = true).
Proof. exact announce_iff. Qed.
Print Assumptions C14_connected_iff_registered_now.

(* ... and then the connection was open, is tracked, and both maps hold exactly the record that is
   announced; a connection that had already closed is never announced.  The outbound path (Connect)
   does not call the notifier at all. *)
Theorem C14_connected_details : forall evs c pe closed, wf (evs ++ [Enrol c pe closed]) ->
  inbound_announces (run evs) c pe closed = true ->
  closed = false /\
  get (remote c) (overlays (run (evs ++ [Enrol c pe closed]))) = Some pe /\
  get (p_addr pe) (underlays (run (evs ++ [Enrol c pe closed]))) = Some (remote c) /\
  open_enrolled (evs ++ [Enrol c pe closed]) c = true.
Proof. exact announce_details. Qed.
Print Assumptions C14_connected_details.

Theorem C14_outbound_never_announces : outbound_announces = false.
Proof. exact outbound_never_announces. Qed.
Print Assumptions C14_outbound_never_announces.

(* Outbound (Service.Connect, from the completed handshake on: isConnected short cut, addPeer, and
   the getPeer test added by ad08637 -- call sites regenerated from the source): Connect reports a
   peer to its caller (discovery, which then adds it to the topology) only if that peer is
   registered when Connect returns; it withholds nothing (an error leaves the peer unregistered);
   its effect on the registry is that of the enrolment or nothing. *)
Theorem C14_connect_success_registered : forall r c pe closed pe',
  snd (connect r c pe closed) = Some pe' -> registered (fst (connect r c pe closed)) (remote c) = true.
Proof. exact connect_success_registered. Qed.
Print Assumptions C14_connect_success_registered.

Theorem C14_connect_failure_unregistered : forall r c pe closed,
  snd (connect r c pe closed) = None -> registered (fst (connect r c pe closed)) (remote c) = false.
Proof. exact connect_failure_unregistered. Qed.
Print Assumptions C14_connect_failure_unregistered.

Theorem C14_connect_state : forall r c pe closed,
  fst (connect r c pe closed) = r \/ fst (connect r c pe closed) = step r (Enrol c pe closed).
Proof. exact connect_state. Qed.
Print Assumptions C14_connect_state.

(* isConnected (used by Connect and the bootstrapper) agrees with the registration *)
Theorem C14_isconnected_iff_registered : forall evs p, wf evs ->
  is_connected (run evs) p = get p (overlays (run evs)).
Proof. exact is_connected_iff_registered. Qed.
Print Assumptions C14_isconnected_iff_registered.

(* removePeer is not modelled: none of the package's functions calls it (one has_call anchor per
   function that exists today; a function added later is not covered -- see props). *)
Theorem C14_remove_peer_unused : remove_peer_callers = repeat false 14.
Proof. exact remove_peer_unused. Qed.
Print Assumptions C14_remove_peer_unused.

(* The checker bin/check evaluates on the implementation's observations accepts the model's own
   observations -- PARTIAL: proved for the per-state clauses panic, maps-disagree and stale-peer /
   missing-peer on every reachable state whose history respects libp2p's order (w3) and fits the
   case's universe.  Missing: the clauses that compare consecutive observations (notifications,
   handler starts, reset of unknown peers, contexts, addPeer's answer) and the threading through
   Check_C14.check_from. *)
Theorem C14_checker_accepts_model_partial : forall np nc na ns evs,
  wf evs -> w3 evs -> bounded np nc na evs ->
  panicked (run evs) = false /\
  Check_C14.maps_agree np na (Check_C14.snap_of np na ns (run evs)) = true /\
  Check_C14.check_registered np nc evs (Check_C14.snap_of np na ns (run evs)) = None.
Proof. exact checker_accepts_model_partial. Qed.
Print Assumptions C14_checker_accepts_model_partial.

(* One transition clause is covered as well: the clause on addPeer's answer
   (announced-unregistered / unannounced-registration), stated as the checker evaluates it on the
   snapshots before and after an Enrol step.  Still missing: notifications, handler-identity,
   handler-unregistered, the reset of unknown peers, ctx-not-cancelled, and the threading through
   Check_C14.check_from. *)
Theorem C14_checker_accepts_model_enrol_partial : forall np na ns evs c pe closed,
  wf (evs ++ [Enrol c pe closed]) -> remote c < np ->
  enrol_clause np na ns (run evs) c pe closed = true.
Proof. exact enrol_clause_model. Qed.
Print Assumptions C14_checker_accepts_model_enrol_partial.

(* Further clause families, each as the checker evaluates it on the model's own snapshots.
   notifications: across any one event of a well-formed history inside the case's universe the new
   notifications are exactly the records of the peers the event took from registered to unregistered. *)
Theorem C14_checker_accepts_model_notifications_partial : forall np nc na ns hist e,
  wf (hist ++ [e]) -> bounded np nc na (hist ++ [e]) ->
  Check_C14.check_notes np (Check_C14.snap_of np na ns (run hist))
                           (Check_C14.snap_of np na ns (step (run hist) e)) = true.
Proof. exact check_notes_model. Qed.
Print Assumptions C14_checker_accepts_model_notifications_partial.

(* ctx-not-cancelled, for wrapper states 2 and 3, on every reachable state *)
Theorem C14_checker_accepts_model_ctx_partial : forall np na ns evs,
  wf evs -> sbounded np ns evs ->
  Check_C14.check_ctx ns evs (Check_C14.snap_of np na ns (run evs)) = true.
Proof. exact check_ctx_model. Qed.
Print Assumptions C14_checker_accepts_model_ctx_partial.

(* reset of a new stream from an unregistered peer (needs no premise on the state) *)
Theorem C14_checker_accepts_model_reset_partial : forall np na ns r s p, s < ns -> p < np ->
  (if (Check_C14.cell (Check_C14.sn_sw (Check_C14.snap_of np na ns r)) s =? 0)%Z
      && negb (Check_C14.reg_in (Check_C14.snap_of np na ns r) p)
   then (Check_C14.cell (Check_C14.sn_sw (Check_C14.snap_of np na ns (step r (SLookup s p)))) s =? 4)%Z
   else true) = true.
Proof. exact reset_clause_model. Qed.
Print Assumptions C14_checker_accepts_model_reset_partial.
(* handler-unregistered / handler-identity: given the invariant TI that ties the tables the checker
   threads through a case (tracked_in, looked_in) to the wrapper states of the model -- it holds
   initially (TI_init) and is preserved by every step (TI_step) -- the clause reports nothing. *)
Theorem C14_checker_accepts_model_starts_partial : forall np na ns hist ti li e,
  TI (run hist) ti li -> starts_clause np na ns hist ti li e = None.
Proof. exact starts_clause_model. Qed.
Print Assumptions C14_checker_accepts_model_starts_partial.

Theorem C14_checker_tables_invariant : forall np na ns hist e ti li,
  wf (hist ++ [e]) -> sids_bounded np ns (hist ++ [e]) -> TI (run hist) ti li ->
  TI (step (run hist) e) (ti_next hist (Check_C14.snap_of np na ns (run hist)) ti e)
                         (li_next (Check_C14.snap_of np na ns (run hist)) li e).
Proof. exact TI_step. Qed.
Print Assumptions C14_checker_tables_invariant.

(* THE ONE-THEOREM FORM.  For every history of the model that is well-formed (wf), respects the
   order libp2p guarantees (w3) and fits the universe of the case (bounded, sids_bounded), the checker
   of bin/check -- Check_C14.violation, all clauses, threaded through check_from -- evaluated on the
   model's own observations of that history (model_obs: every step observed, addPeer's answer, no
   panic, no notification in flight, the snapshot of the state after the step) reports nothing. *)
Theorem C14_checker_accepts_model : forall np nc na ns evs,
  wf evs -> w3 evs -> bounded np nc na evs -> sids_bounded np ns evs ->
  Check_C14.violation {| Check_C14.id := 0; Check_C14.c_np := np; Check_C14.c_nc := nc; Check_C14.c_na := na;
                         Check_C14.c_ns := ns; Check_C14.c_evs := model_obs np na ns init evs |} = None.
Proof. exact checker_accepts_model. Qed.
Print Assumptions C14_checker_accepts_model.

(* Blocking a peer (Service.blockPeer) does not touch the registry: a registered peer that is blocked
   stays registered until its last connection closes, and then gets its one notification like any
   other (C14_last_close applies unchanged).  Anchored on the source: blockPeer calls no registry
   method (part of C14_wiring). *)
Theorem C14_block_keeps_registry : forall evs p, run (evs ++ [BlockPeer p]) = run evs.
Proof. exact block_keeps_everything. Qed.
Print Assumptions C14_block_keeps_registry.

(* The nil dereference in Disconnected is unreachable in well-formed histories ... *)
Theorem C14_no_panic : forall evs, wf evs -> panicked (run evs) = false.
Proof. exact no_panic. Qed.
Print Assumptions C14_no_panic.

(* ... and reachable otherwise (one address proven under two peer ids). *)
Theorem C14_panic_without_wf : exists evs, wfb evs = false /\ panicked (run evs) = true.
Proof. exact panic_without_wf. Qed.
Print Assumptions C14_panic_without_wf.

(* Wiring regenerated from the source: libp2p.New sets the Service as the registry's disconnector
   and registers the registry as network notifiee; the wrapper calls getPeer, addStream and
   removeStream with the remote peer id of the stream. *)
Theorem C14_wiring : wiring_ok = true.
Proof. exact wiring_now. Qed.
Print Assumptions C14_wiring.

(* Regressions: addPeer before commit 2ee23d5 (IsClosed not consulted) registers a peer with no
   open connection; the wrapper before commit 9c5bd49 (addStream's result ignored) starts a handler
   for an unregistered peer with a context nobody cancels. *)
Theorem C14_registered_iff_refuted : exists evs p,
  wf evs /\ registered (run_v0_enrol evs) p = true /\ forall k, open_enrolled evs (p, k) = false.
Proof. exact registered_iff_refuted_v0. Qed.
Print Assumptions C14_registered_iff_refuted.

Theorem C14_handlers_refuted : exists evs s p pe,
  wf evs /\ In (s, p, pe, false) (started (run_v0_wrapper evs)) /\
  running (run_v0_wrapper evs) s p = true /\ registered (run_v0_wrapper evs) p = false /\
  ctx_cancelled (run_v0_wrapper evs) s = false.
Proof. exact handlers_refuted_v0. Qed.
Print Assumptions C14_handlers_refuted.

(* Connect before ad08637 (connect_v2) reported a peer it had not registered. *)
Theorem C14_connect_refuted : exists r c pe closed pe',
  snd (connect_v2 r c pe closed) = Some pe' /\ registered (fst (connect_v2 r c pe closed)) (remote c) = false.
Proof. exact connect_refuted_v2. Qed.
Print Assumptions C14_connect_refuted.

(* The first form of the closed-connection repair (add_peer_v1: the closed branch answered whether
   the address was known) announced a peer that it had not registered. *)
Theorem C14_connected_refuted : exists evs c pe closed, wf (evs ++ [Enrol c pe closed]) /\
  inbound_announces_with add_peer_v1 (run_with add_peer_v1 true evs) c pe closed = true /\
  registered (run_with add_peer_v1 true (evs ++ [Enrol c pe closed])) (remote c) = false.
Proof. exact announce_refuted_v1. Qed.
Print Assumptions C14_connected_refuted.

(* ---- composition with C04 (and C18) (proofs/Compose_p2p.v) ---------------------------------------------
   The premise [wf] of the theorems above is discharged for histories whose Enrol events are what
   handleConnectReq / Connect hand to addPeer: the (address, role) a handshake of model/Handshake.v ended
   with (either direction; any configuration, script, oracle answers, write failures), run on a
   connection whose authenticated remote peer id is pidb with the address-of-peer-id oracle answering
   F pidb for one function F (getEthAddress) -- Compose_p2p.from_handshakes.  Handshake.v writes addresses
   and peer ids as byte strings and the registry indexes by numbers: enc_pid / enc_addr are any injective
   numberings (Compose_p2p.code is one).
   Non-vacuity: Compose_p2p.ex_from_handshakes, Compose_p2p.ex_wf. *)
From MevVerif Require model.Handshake proofs.Compose_p2p.

(* C04 o C14.  Such a history is well formed (C04_exact_responder / C04_exact_initiator: the enrolled
   address is F of the peer id, so it is a function of the peer id), or else the history itself exhibits
   two different transport identities to which F gives one and the same address (for F =
   GetEthAddressFromPeerID that is two different public keys with one Keccak-derived address:
   C18_identity_collision_is_key_collision). *)
Theorem C14_wf_from_handshake :
  forall (enc_pid enc_addr : bytes -> N),
  (forall x y, enc_pid x = enc_pid y -> x = y) -> (forall x y, enc_addr x = enc_addr y -> x = y) ->
  forall (F : bytes -> option bytes) evs,
  Compose_p2p.from_handshakes enc_pid enc_addr F evs ->
  wf evs \/ Compose_p2p.address_collision enc_pid F evs.
Proof. exact Compose_p2p.wf_from_handshake. Qed.
Print Assumptions C14_wf_from_handshake.

(* C04 o C14.  Hence C14_inverse, C14_registered_iff, C14_no_panic and C14_handlers hold for every such
   history with no premise left (every handler invocation was moreover handed an (address, role) that a
   handshake on that very peer id proved) -- or else that collision is exhibited. *)
Theorem C14_registry_consistent_after_handshakes :
  forall (enc_pid enc_addr : bytes -> N),
  (forall x y, enc_pid x = enc_pid y -> x = y) -> (forall x y, enc_addr x = enc_addr y -> x = y) ->
  forall (F : bytes -> option bytes) evs,
  Compose_p2p.from_handshakes enc_pid enc_addr F evs ->
  ((forall p pe, get p (overlays (run evs)) = Some pe -> get (p_addr pe) (underlays (run evs)) = Some p) /\
   (forall a p, get a (underlays (run evs)) = Some p ->
                exists pe, get p (overlays (run evs)) = Some pe /\ p_addr pe = a) /\
   (forall p, registered (run evs) p = true <-> exists k, open_enrolled evs (p, k) = true) /\
   panicked (run evs) = false /\
   (forall s p pe f, In (s, p, pe, f) (started (run evs)) ->
      f = true /\ exists k, In (Enrol (p, k) pe false) evs /\
                            Compose_p2p.enrolled_by_handshake enc_pid enc_addr F (p, k) pe))
  \/ Compose_p2p.address_collision enc_pid F evs.
Proof. exact Compose_p2p.registry_consistent_after_handshakes. Qed.
Print Assumptions C14_registry_consistent_after_handshakes.

(* C04 o C14.  With an address function that separates peer ids, [wf] holds outright. *)
Theorem C14_wf_from_handshake_inj :
  forall (enc_pid enc_addr : bytes -> N),
  (forall x y, enc_pid x = enc_pid y -> x = y) -> (forall x y, enc_addr x = enc_addr y -> x = y) ->
  forall (F : bytes -> option bytes) evs,
  Compose_p2p.from_handshakes enc_pid enc_addr F evs ->
  (forall p p' A, F p = Some A -> F p' = Some A -> p = p') -> wf evs.
Proof. exact Compose_p2p.wf_from_handshake_inj. Qed.
Print Assumptions C14_wf_from_handshake_inj.

(* C04 o C14.  In model/Handshake.v the outcome of peers.addPeer is an oracle value ([add]); here it is what
   this registry model answers ([Compose_p2p.add_of], from [enrol_result]).  The two models of the tail of
   handleConnectReq agree: Handshake's inbound effects contain notifier.Connected exactly when
   [inbound_announces] says so, hence exactly when this very call created the peer's registry entry (not
   registered before, registered afterwards); the effects are then [Register; Notify] in that order and the
   connection was open.  Non-vacuity: Compose_p2p.ex_notify. *)
Theorem C14_notify_iff_registered_now : forall evs c pe closed A T,
  wf (evs ++ [Enrol c pe closed]) ->
  let effs := Handshake.handle_connect_req true (Compose_p2p.add_of (run evs) c pe closed) (Handshake.Enrol A T) in
  (In (Handshake.ENotify A T) effs <->
   registered (run evs) (remote c) = false /\
   registered (run (evs ++ [Enrol c pe closed])) (remote c) = true) /\
  (In (Handshake.ENotify A T) effs ->
   effs = [Handshake.ERegister A T; Handshake.ENotify A T] /\ closed = false).
Proof. exact Compose_p2p.notify_iff_registry_registered_now. Qed.
Print Assumptions C14_notify_iff_registered_now.

(* C20 o C14 (proofs/Compose_race.v).  The addPeer calls the responders of a system of n initiators make in the
   race model of C20 ([Compose_race.registry_history]: remote peer id = index of the initiator, the identity
   registered there, open connection), under every system schedule: each carries the initiator's proven
   identity (address bound to its peer id, the type it sent); when the initiators' addresses are pairwise
   different the history is well formed, so the registry it builds never dereferences nil in Disconnected and
   its two maps are mutually inverse. *)
From MevVerif Require model.ConnectRace proofs.Compose_race.
Theorem C14_system_registry_wf : forall cs sched,
  NoDup (map (fun c => ConnectRace.pid_addr (ConnectRace.ini c)) cs) ->
  let H := Compose_race.registry_history (ConnectRace.sys_run ConnectRace.deployed cs sched) in
  wf H /\ panicked (run H) = false /\
  (forall p pe, get p (overlays (run H)) = Some pe -> get (p_addr pe) (underlays (run H)) = Some p) /\
  (forall c pe, In (c, pe) (enrolments H) ->
     exists k cfgk, nth_error cs k = Some cfgk /\ c = (N.of_nat k, 0) /\
                    p_addr pe = ConnectRace.pid_addr (ConnectRace.ini cfgk) /\
                    p_role pe = Z.of_N (ConnectRace.ptype (ConnectRace.ini cfgk))).
Proof. exact Compose_race.system_registry_wf. Qed.
Print Assumptions C14_system_registry_wf.

(* C14 o C15 (proofs/Compose_topology.v; the view side is C15_view_only_registered).  In the joint machine of registry
   and topology, one step: whoever a step adds to the topology view -- by Connected after an inbound handshake or by
   the discovery worker after Connect -- is held by the registry, with that very (address, type) record, when the
   step ends.  [evs] is any well-formed registry history, [j] any joint event. *)
From MevVerif Require model.Topology proofs.Compose_topology.
Theorem C14_added_to_view_is_registered : forall evs j e q,
  wf (evs ++ fst (Compose_topology.jemit (run evs) j)) ->
  In e (snd (Compose_topology.jemit (run evs) j)) -> Compose_topology.added_by e = Some q ->
  exists p pe, get p (overlays (run (evs ++ fst (Compose_topology.jemit (run evs) j)))) = Some pe /\
               Compose_topology.tpeer pe = q.
Proof. exact Compose_topology.step_adds_registered. Qed.
Print Assumptions C14_added_to_view_is_registered.

(* Service.Connect hands its caller exactly the record the registry holds for that peer id when it returns. *)
Theorem C14_connect_returns_entry : forall evs c pe closed pe',
  wf evs -> snd (connect (run evs) c pe closed) = Some pe' ->
  get (remote c) (overlays (fst (connect (run evs) c pe closed))) = Some pe'.
Proof. exact Compose_topology.connect_returns_entry. Qed.
Print Assumptions C14_connect_returns_entry.
