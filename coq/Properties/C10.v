(* C10 -- cancellation replaces the same nonce with a no-op that outbids the original.
   Statements only; every proof is [exact <lemma>].

   [cancel c l tip price s b] (model/Cancel.v) is CancelTx of a client with address [owner c] and
   chain id [chain c], given the answers of TransactionByHash ([l]), SuggestGasTipCap ([tip]),
   SuggestGasPrice ([price], never consulted), SignTx ([s]) and SendTransaction ([b]).  All amounts
   are unbounded integers.  Result: CSubmit t acc (transaction t reached the node, which took it
   iff acc; a nil error is returned iff acc), CRefuse (error, nothing reached the node), CPanic. *)
From Coq Require Import String List NArith ZArith Bool.
From MevVerif Require Import lib.Bytes gen.Generated model.Cancel check.Check_C10 proofs.Cancel_proofs.
Import ListNotations.
Open Scope Z_scope.

(* A replacement reaches the node only for a target the node reported as pending, after the tip
   suggestion and the signature succeeded; it carries the target's nonce, the client's chain id
   (the chain id of every transaction this client signs), goes to the client's own address with
   value 0, empty data and gas 21000; its tip cap is floor(max(original tip, suggested tip)*110/100)
   and its fee cap is max(GasPrice(), GasFeeCap()) of the original plus that tip. *)
Theorem C10_shape : forall c l tip price s b t acc,
  cancel c l tip price s b = CSubmit t acc ->
  exists o sug,
    l = LFound (Some o) true /\ tip = TipOk sug /\ s = true /\ acc = b /\
    x_nonce t = o_nonce o /\ x_chain t = chain c /\ x_to t = owner c /\
    x_value t = 0 /\ x_data t = [] /\ x_gas t = 21000 /\
    x_tip t = (Z.max (o_tip o) sug * 110) / 100 /\
    x_fee t = Z.max (o_price o) (o_fee o) + x_tip t.
Proof. exact shape. Qed.
Print Assumptions C10_shape.

(* Hence: tip cap at least 110% (rounded down) of the original and of the suggested tip, fee cap
   at least the original fee cap plus the new tip; for non-negative tips the new tip is not below
   either of them.  For all integers, in particular zero, tiny and > 64-bit values. *)
Theorem C10_outbids : forall c l tip price s b t acc o sug,
  cancel c l tip price s b = CSubmit t acc -> l = LFound (Some o) true -> tip = TipOk sug ->
  x_tip t >= (o_tip o * 110) / 100 /\ x_tip t >= (sug * 110) / 100 /\
  x_fee t >= o_fee o + x_tip t /\
  (0 <= o_tip o -> x_tip t >= o_tip o) /\ (0 <= sug -> x_tip t >= sug).
Proof. exact outbids. Qed.
Print Assumptions C10_outbids.

(* With the library's accessors (GasPrice() = GasFeeCap() for legacy and dynamic-fee transactions
   alike; observed by the driver on every case) the fee cap is exactly original + new tip. *)
Theorem C10_fee_exact : forall c o tip price s b t acc,
  o_price o = o_fee o ->
  cancel c (LFound (Some o) true) tip price s b = CSubmit t acc ->
  x_fee t = o_fee o + x_tip t.
Proof. exact fee_exact. Qed.
Print Assumptions C10_fee_exact.

(* Anything else -- lookup error, unknown, mined (not pending), nil transaction, failed tip
   suggestion, failed signature -- submits nothing and does not return a nil error. *)
Theorem C10_refuse : forall c l tip price s b,
  (forall o, l <> LFound (Some o) true) \/ tip = TipErr \/ s = false ->
  submitted (cancel c l tip price s b) = None /\ ret_ok (cancel c l tip price s b) = false.
Proof. exact refuse. Qed.
Print Assumptions C10_refuse.

(* Unknown and already-mined targets are refused with the NotFound error (a returned error, no crash). *)
Theorem C10_refuse_unknown_or_mined : forall c l tip price s b,
  l = LErr true \/ (exists t, l = LFound t false) ->
  submitted (cancel c l tip price s b) = None /\ ret_ok (cancel c l tip price s b) = false /\
  ret_notfound (cancel c l tip price s b) = true /\ cancel c l tip price s b <> CPanic.
Proof. exact refuse_unknown_or_mined. Qed.
Print Assumptions C10_refuse_unknown_or_mined.

(* "Reuses that transaction's nonce and chain id".  Nonce: C10_shape.  Chain id: the replacement carries the
   CLIENT's chain id; that is the original's chain id exactly when the original was signed for the client's
   chain -- true of every transaction this client sent (Send and CancelTx both put c.chainID; observed on
   every accepted transaction by the C08 driver and in the C10 class own-original).  For an original of
   another chain (driver classes with "foreign") the replacement does not reuse the original's chain id; it
   could not replace it anyway. *)
Theorem C10_chain_id : forall c l tip price s b t acc (oc : Z),
  cancel c l tip price s b = CSubmit t acc ->
  x_chain t = chain c /\ (oc = chain c -> x_chain t = oc) /\ (oc <> chain c -> x_chain t <> oc).
Proof. exact chain_id. Qed.
Print Assumptions C10_chain_id.

(* The single crash of the model: a lookup that answers "no error, pending" with a nil transaction is
   dereferenced.  Partial with respect to "refused with an error": for this answer nothing is submitted
   (C10_refuse) but no error is returned either.  Not producible by the production transport: ethclient's
   TransactionByHash maps a JSON null to (nil, false, NotFound), an undecodable object to an error, and
   WrapEthClient does not override it (driver classes wire-state-notfound, wire-state-garbage); only an EVM
   implementation breaking that contract (the scripted one, class state-nilpending) reaches it. *)
Theorem C10_nil_pending_panics_partial : forall c l tip price s b,
  cancel c l tip price s b = CPanic <-> l = LFound None true.
Proof. exact panic_iff. Qed.
Print Assumptions C10_nil_pending_panics_partial.

(* Observation (not a clause of the property): CancelTx does not test that the target is one of this
   client's transactions or from its account; any pending transaction the node returns gets a replacement
   carrying that transaction's nonce.  Compositions that talk about "nonces this sender issued" need the
   premise that cancelled hashes are hashes Send returned (Compose_chain.own_targets). *)
Theorem C10_any_pending_target : forall c o sug price b,
  exists t, cancel c (LFound (Some o) true) (TipOk sug) price true b = CSubmit t b /\ x_nonce t = o_nonce o.
Proof. exact any_pending_target. Qed.
Print Assumptions C10_any_pending_target.

(* CancelTx holds the client mutex like Send (c.mtx.Lock / deferred c.mtx.Unlock inside EvmClient.CancelTx,
   regenerated from evmclient.go on every run): the combined machine's steps are whole calls. *)
Theorem C10_cancel_serialised :
  Generated.c10_cancel_locks = true /\ Generated.c10_cancel_unlocks = true.
Proof. exact cancel_serialised_now. Qed.
Print Assumptions C10_cancel_serialised.

(* The replacement literal BY FIELD NAME and the fee arithmetic as source text (white space normalised),
   regenerated from evmclient.go on every run: Gas: 21000, Value: big.NewInt(0), Data: []byte{}, To: &c.owner,
   ChainID: c.chainID, Nonce: txn.Nonce(); gasTipCap := original's, then * 110 / 100; gasFeeCap := original's,
   then += gasTipCap; one Lock and one Unlock call.  CancelTx never calls txn.ChainId or txn.Type: the
   original's chain id, sender and type are not inputs of the decision -- which is why [orig] carries only
   nonce, price, fee cap and tip, and why C10_chain_id can say no more than "the client's chain id".
   Lock as first statement / defer: C10_cancel_lock_first below. *)
Theorem C10_cancel_source_shape :
  Generated.c10_cancel_tx_src =
    [bos "types.NewTx(&types.DynamicFeeTx{ Nonce: txn.Nonce(), ChainID: c.chainID, To: &c.owner, Value: big.NewInt(0), Gas: 21000, GasFeeCap: gasFeeCap, GasTipCap: gasTipCap, Data: []byte{}, })"] /\
  Generated.c10_cancel_tip_src =
    [bos "txn.GasTipCap()"; bos "new(big.Int).Div(new(big.Int).Mul(gasTipCap, big.NewInt(110)), big.NewInt(100))"] /\
  Generated.c10_cancel_fee_src = [bos "txn.GasFeeCap()"] /\
  Generated.c10_cancel_fee_add = [[bos "gasFeeCap"; bos "gasTipCap"]] /\
  Generated.c10_cancel_suggest_args = [[bos "ctx"; bos "txn.GasPrice()"]] /\
  Generated.c10_cancel_sign_args = [[bos "tx"; bos "c.chainID"]] /\
  Generated.c10_cancel_submit_args = [[bos "ctx"; bos "signedTx"]] /\
  Generated.c10_cancel_lock_calls = [[]] /\ Generated.c10_cancel_unlock_calls = [[]] /\
  Generated.c10_cancel_reads_chain = false /\ Generated.c10_cancel_reads_type = false.
Proof. exact cancel_source_shape_now. Qed.
Print Assumptions C10_cancel_source_shape.

(* The first two statements of CancelTx are "c.mtx.Lock()" and "defer c.mtx.Unlock()" (its only deferred call). *)
Theorem C10_cancel_lock_first :
  Generated.c10_cancel_top_stmts = [bos "c.mtx.Lock()"; bos "defer c.mtx.Unlock()"] /\
  Generated.c10_cancel_defers = [bos "c.mtx.Unlock()"].
Proof. exact cancel_lock_first_now. Qed.
Print Assumptions C10_cancel_lock_first.

(* A nil error means the node took the replacement (a failing SendTransaction is an error). *)
Theorem C10_ok_only_if_accepted : forall c l tip price s b,
  ret_ok (cancel c l tip price s b) = true ->
  b = true /\ exists t, cancel c l tip price s b = CSubmit t true.
Proof. exact ok_only_if_accepted. Qed.
Print Assumptions C10_ok_only_if_accepted.

(* The boolean checker the harness evaluates on observations (clauses cancel-shape:{nonce,chain,
   to,value,data,gas,tip,fee}, submitted-on-refusal) never fires on the model's prediction. *)
Theorem C10_checker_silent_on_model : forall n c l tip price s b,
  violation {| id := n; cl := c; lk := l; tp := tip; pr := price; sg := s; sb := b;
               ob := obs_of (cancel c l tip price s b) |} = None.
Proof. exact checker_silent_on_model. Qed.
Print Assumptions C10_checker_silent_on_model.
(* The nil-transaction-reported-pending answer (never produced by ethclient, which maps a null
   result to NotFound) is the model's only CPanic; covered by C10_refuse (nothing submitted). *)

(* ---- composition with C08 (proofs/Compose_chain.v) -----------------------------------------------------------
   In the theorems above the answer of TransactionByHash is an oracle value.  In the combined machine of
   proofs/Compose_chain.v ([crun cl ops], operations OSend / OConf / ORestart as in model/EvmSend.v plus
   OCancel) a cancellation either names, by position, one of the transactions this sender's Send calls got
   accepted so far (k_target = Some i: the node answers with that transaction, whose Nonce() is the nonce it
   was submitted with), or targets any other hash (k_target = None: the node answers with a free value, any
   nonce, any sender -- CancelTx has no sentTxs / sender test, C10_any_pending_target); fee fields, pending
   flag, tip suggestion, signing and submission answers stay free.  [Compose_chain.own_targets ops]: every
   cancellation of the history is of the first kind.  The CancelTx step consults [Compose_chain.machine_ok],
   computed from gen/Generated.v: the frame of CancelTx (C10_cancel_frame) and both calls holding c.mtx
   (C10_cancel_serialised, EvmSend_proofs.send_serialised_now).  Non-vacuity: Compose_chain.ex_chain. *)
From MevVerif Require model.EvmSend proofs.Compose_chain.

(* C10 o C08.  When every cancellation names one of the sender's own accepted transactions: every replacement
   that reaches the node carries the nonce of a transaction that an earlier Send of this very history got
   accepted -- it opens no new nonce -- and has the no-op shape of C10_shape. *)
Theorem C10_cancel_reuses_submitted_nonce : forall cl ops pre t b post,
  Compose_chain.own_targets ops ->
  Compose_chain.crun cl ops = pre ++ Compose_chain.ECancel (CSubmit t b) :: post ->
  (exists n, In n (EvmSend.accepted (Compose_chain.send_events pre)) /\ x_nonce t = Z.of_N n) /\
  x_chain t = chain cl /\ x_to t = owner cl /\ x_value t = 0 /\ x_data t = [] /\ x_gas t = 21000.
Proof. exact Compose_chain.cancel_reuses_submitted_nonce. Qed.
Print Assumptions C10_cancel_reuses_submitted_nonce.

(* The frame of CancelTx as extracted from evmclient.go on this run: no assignment / ++ / -- of c.nonce
   inside CancelTx, no call of lastConfirmedNonce.Store; hence the flag the combined machine's CancelTx step
   consults holds.  (Positive controls of the same extractor kind: Send writes c.nonce once, getNonce twice,
   as model/EvmSend.v has it.)  A CancelTx that starts writing c.nonce makes this fail to compile, and with
   it C08_cancel_transparent, C08_monotone_across_cancels and C08_no_skip_across_cancels. *)
From MevVerif Require gen.Generated.
Theorem C10_cancel_frame :
  Generated.c10_cancel_writes_nonce = 0%N /\ Generated.c10_cancel_touches_confirmed = false /\
  Compose_chain.cancel_frame_ok = true /\
  Generated.c10_send_writes_nonce = 1%N /\ Generated.c10_getnonce_writes_nonce = 2%N.
Proof.
  exact (conj (proj1 Compose_chain.cancel_frame_now) (conj (proj2 Compose_chain.cancel_frame_now)
        (conj Compose_chain.cancel_frame_ok_now Compose_chain.sender_writes_now))).
Qed.
Print Assumptions C10_cancel_frame.

(* For every target, own or foreign, the replacement has the no-op shape. *)
Theorem C10_cancel_shape_any_target : forall cl ops pre t b post,
  Compose_chain.crun cl ops = pre ++ Compose_chain.ECancel (CSubmit t b) :: post ->
  x_chain t = chain cl /\ x_to t = owner cl /\ x_value t = 0 /\ x_data t = [] /\ x_gas t = 21000.
Proof. exact Compose_chain.cancel_shape_any. Qed.
Print Assumptions C10_cancel_shape_any_target.

(* C10 o C08 (C08_window).  With own targets the in-flight window covers the replacements too: the nonce of a
   replacement is at most 1024 beyond the highest confirmed nonce the node had reported before it. *)
Theorem C10_cancel_window : forall cl ops pre t b post,
  Compose_chain.own_targets ops ->
  Compose_chain.crun cl ops = pre ++ Compose_chain.ECancel (CSubmit t b) :: post ->
  x_nonce t <= Z.of_N (EvmSend.max_list (EvmSend.confs (Compose_chain.send_events pre)) + 1024).
Proof. exact Compose_chain.cancel_window. Qed.
Print Assumptions C10_cancel_window.

(* The premise is needed for both: a foreign pending transaction with nonce 5000 is replaced under nonce 5000, a
   nonce this sender never submitted and beyond its window. *)
Theorem C10_foreign_target_refuted :
  exists cl ops pre t post,
    EvmSend.wf_ops (Compose_chain.strip ops) /\ ~ Compose_chain.own_targets ops /\
    Compose_chain.crun cl ops = pre ++ Compose_chain.ECancel (CSubmit t true) :: post /\
    (forall n, In n (EvmSend.accepted (Compose_chain.send_events pre)) -> x_nonce t <> Z.of_N n) /\
    Z.of_N (EvmSend.max_list (EvmSend.confs (Compose_chain.send_events pre)) + 1024) < x_nonce t.
Proof. exact Compose_chain.foreign_target_refuted. Qed.
Print Assumptions C10_foreign_target_refuted.

(* The fee kernel of the model is not hand-written knowledge: [c10_cancel_caps_fn] is regenerated on every run
   from the statements of CancelTx (first cap comparison .. gasFeeCap.Add) by the translator of harness/extract.
   For all integers it equals the kernel that stands inside the model, so every theorem above is a theorem
   about the translated source text; a change of a literal, an operator or a comparison in that range makes
   this file fail to build. *)
Theorem C10_model_is_translation_of_source_caps : forall fee0 tip0 orig_fee orig_tip,
  c10_cancel_caps_fn fee0 tip0 orig_fee orig_tip =
  (let fee1 := if fee0 <=? orig_fee then orig_fee else fee0 in
   let tip1 := if tip0 <=? orig_tip then orig_tip else tip0 in
   let tip2 := (tip1 * 110) / 100 in
   (tip2, fee1 + tip2)).
Proof. exact Cancel_proofs.caps_translation_literal. Qed.
Print Assumptions C10_model_is_translation_of_source_caps.

(* Whenever the model hands a replacement to the node, its tip and fee caps are the translated source applied
   to the original's price and caps and the node's tip suggestion (and there was such a suggestion). *)
Theorem C10_model_is_translation_of_source_submit : forall c l tip price s b t acc,
  cancel c l tip price s b = CSubmit t acc ->
  exists o sug, l = LFound (Some o) true /\ tip = TipOk sug /\
    (x_tip t, x_fee t) = c10_cancel_caps_fn (o_price o) sug (o_fee o) (o_tip o).
Proof. exact Cancel_proofs.model_submit_is_translation. Qed.
Print Assumptions C10_model_is_translation_of_source_submit.
