(* C02 -- Bid and commitment signatures are sound and bind every signed field.
   Statements only; every proof is [exact <lemma>].  K is an ARBITRARY hash function and cr an
   ARBITRARY crypto library (recover = crypto.SigToPub, verify_rs = crypto.VerifySignature,
   the low-S ECDSA check on r||s, addr_of = crypto.PubkeyToAddress, sign = KeySigner.SignHash).
   No collision-freedom is assumed anywhere: binding is a reduction to an explicit collision.
   Non-vacuity: Signer_proofs.toy_roundtrip (premises on the oracle are satisfiable and the
   accepting branch is inhabited), Signer_proofs.malleation_instance. *)
From Coq Require Import String List NArith ZArith Bool Znumtheory.
From MevVerif Require Import lib.Bytes gen.Generated model.Eip712 model.Signer
  proofs.Eip712_proofs proofs.Signer_proofs.
Import ListNotations.
Open Scope N_scope.

(* VerifyBid succeeds with address a ONLY IF digest and signature are present, the presented
   digest is the digest of exactly the presented fields, the signature has 65 bytes, the key
   recovered from (digest, r||s||v with v brought from 27/28 to 0/1) passes the low-S
   signature check on r||s, and a is that key's address.  (And conversely.) *)
Theorem C02_sound_bid : forall (K : bytes -> bytes) (cr : crypto) (b : bid) (a : bytes),
  verify_bid K cr b = Ok a <->
  exists d sig, b_dig b = Some d /\ b_sig b = Some sig /\ bid_hash K b = Ok d /\
    length sig = 65%nat /\
    exists v pk, nth_error sig 64 = Some v /\
      recover cr d (firstn 64 sig ++ [v_to01 v]) = Ok pk /\
      verify_rs cr pk d (firstn 64 sig) = true /\ a = addr_of cr pk.
Proof. exact verify_bid_iff. Qed.
Print Assumptions C02_sound_bid.

(* VerifyPreConfirmation additionally requires an embedded bid that verifies, and the
   commitment digest to be the digest covering the bid's fields, digest and signature. *)
Theorem C02_sound_commitment : forall (K : bytes -> bytes) (cr : crypto) (c : preconf) (a : bytes),
  verify_preconf K cr c = Ok a <->
  exists b d sig, c_bid c = Some b /\ c_dig c = Some d /\ c_sig c = Some sig /\
    (exists a', verify_bid K cr b = Ok a') /\
    commitment_hash K c = Ok d /\
    length sig = 65%nat /\
    exists v pk, nth_error sig 64 = Some v /\
      recover cr d (firstn 64 sig ++ [v_to01 v]) = Ok pk /\
      verify_rs cr pk d (firstn 64 sig) = true /\ a = addr_of cr pk.
Proof. exact verify_preconf_iff. Qed.
Print Assumptions C02_sound_commitment.

(* Binding.  Two bids that both verify while presenting the same digest carry the same signed
   VALUES -- tx-hash bytes, the amount as an integer (textual spellings of one integer are one
   value, see C02_alias_amount), block number, both timestamps -- or else K collides on one of
   the three NAMED pairs of pre-images of the two computations (Eip712.bid_preimage_pairs: the two
   final 0x1901||domain||struct-hash strings, the two struct encodings, the two tx strings).
   The pair is exhibited: at the real hash the right disjunct is a concrete Keccak-256 collision
   between two given strings.  (An anonymous "exists x y, x <> y /\ K x = K y" would be true of
   every fixed-length hash by pigeonhole and say nothing -- Eip712_proofs.anonymous_collision_is_free;
   non-vacuity of the named form: Eip712_proofs.named_collision_inhabited.)
   Hence changing the value of a signed field of a valid bid while keeping its digest (and so its
   signature) makes verification fail, unless that collision is produced. *)
Theorem C02_binding_bid : forall (K : bytes -> bytes) (cr : crypto) (b1 b2 : bid) (a1 a2 : bytes),
  (- 2 ^ 63 <= b_bn b1 < 2 ^ 63 /\ - 2 ^ 63 <= b_ds b1 < 2 ^ 63 /\ - 2 ^ 63 <= b_de b1 < 2 ^ 63)%Z ->
  (- 2 ^ 63 <= b_bn b2 < 2 ^ 63 /\ - 2 ^ 63 <= b_ds b2 < 2 ^ 63 /\ - 2 ^ 63 <= b_de b2 < 2 ^ 63)%Z ->
  verify_bid K cr b1 = Ok a1 -> verify_bid K cr b2 = Ok a2 ->
  b_dig b1 = b_dig b2 ->
  (b_tx b1 = b_tx b2 /\
   (exists A, parse_amount (b_amt b1) = Some A /\ parse_amount (b_amt b2) = Some A) /\
   b_bn b1 = b_bn b2 /\ b_ds b1 = b_ds b2 /\ b_de b1 = b_de b2)
  \/ (exists x y : bytes, In (x, y) (bid_preimage_pairs K b1 b2) /\ x <> y /\ K x = K y).
Proof. exact verify_bid_binding. Qed.
Print Assumptions C02_binding_bid.

(* The digest cannot be changed alone: verifying bids with equal field hashes present equal digests. *)
Theorem C02_digest_determined : forall (K : bytes -> bytes) (cr : crypto) (b1 b2 : bid) (a1 a2 : bytes),
  verify_bid K cr b1 = Ok a1 -> verify_bid K cr b2 = Ok a2 ->
  bid_hash K b1 = bid_hash K b2 -> b_dig b1 = b_dig b2.
Proof. exact verify_bid_digest_determined. Qed.
Print Assumptions C02_digest_determined.

(* Commitments: same digest => same bid values AND same bid digest bytes AND same bid signature
   bytes, or a collision on one of the five named pairs (Eip712.commitment_preimage_pairs: final
   strings, struct encodings, tx strings, hex of the bid digests, hex of the bid signatures).
   (Images of K have one length, as Keccak-256's have: Keccak_proofs.keccak256_length.) *)
Theorem C02_binding_commitment :
  forall (K : bytes -> bytes) (cr : crypto) (klen : nat), (forall m, length (K m) = klen) ->
  forall (c1 c2 : preconf) (b1 b2 : bid) (a1 a2 : bytes),
  c_bid c1 = Some b1 -> c_bid c2 = Some b2 ->
  (- 2 ^ 63 <= b_bn b1 < 2 ^ 63 /\ - 2 ^ 63 <= b_ds b1 < 2 ^ 63 /\ - 2 ^ 63 <= b_de b1 < 2 ^ 63)%Z ->
  (- 2 ^ 63 <= b_bn b2 < 2 ^ 63 /\ - 2 ^ 63 <= b_ds b2 < 2 ^ 63 /\ - 2 ^ 63 <= b_de b2 < 2 ^ 63)%Z ->
  (wf_bytes (obytes (b_dig b1)) /\ wf_bytes (obytes (b_sig b1))) ->
  (wf_bytes (obytes (b_dig b2)) /\ wf_bytes (obytes (b_sig b2))) ->
  verify_preconf K cr c1 = Ok a1 -> verify_preconf K cr c2 = Ok a2 ->
  c_dig c1 = c_dig c2 ->
  ((b_tx b1 = b_tx b2 /\
    (exists A, parse_amount (b_amt b1) = Some A /\ parse_amount (b_amt b2) = Some A) /\
    b_bn b1 = b_bn b2 /\ b_ds b1 = b_ds b2 /\ b_de b1 = b_de b2) /\
   obytes (b_dig b1) = obytes (b_dig b2) /\ obytes (b_sig b1) = obytes (b_sig b2))
  \/ (exists x y : bytes, In (x, y) (commitment_preimage_pairs K b1 b2) /\ x <> y /\ K x = K y).
Proof. exact verify_preconf_binding. Qed.
Print Assumptions C02_binding_commitment.

(* Regression of defect 7ab670a.  Before the repair the amount was NOT bound: amounts 5,
   2^256+5 and 5-2^256 (three different integers) got one and the same verdict for every hash
   function, crypto library, digest and signature, and that verdict can be an acceptance. *)
Theorem C02_binding_amount_v0_refuted :
  exists b1 b2 b3 A1 A2 A3,
    parse_amount (b_amt b1) = Some A1 /\ parse_amount (b_amt b2) = Some A2 /\
    parse_amount (b_amt b3) = Some A3 /\ A1 <> A2 /\ A1 <> A3 /\
    (forall K cr d s,
       verify_bid_v0amt K cr (with_ds b2 d s) = verify_bid_v0amt K cr (with_ds b1 d s) /\
       verify_bid_v0amt K cr (with_ds b3 d s) = verify_bid_v0amt K cr (with_ds b1 d s)) /\
    (forall K, exists d s a, verify_bid_v0amt K toy_crypto (with_ds b1 d s) = Ok a).
Proof. exact verify_bid_v0_amount_refuted. Qed.
Print Assumptions C02_binding_amount_v0_refuted.

(* The repaired verifier refuses those aliases whatever digest and signature accompany them. *)
Theorem C02_amount_aliases_refused : forall K cr d s,
  verify_bid K cr (with_ds refute_b2 d s) = Err E_AMOUNT /\
  verify_bid K cr (with_ds refute_b3 d s) = Err E_AMOUNT.
Proof. exact verify_bid_amount_aliases_refused. Qed.
Print Assumptions C02_amount_aliases_refused.

(* Round trip.  Premise on the library (an explicit premise of the statement): what SignHash answers for a
   hash is 65 bytes r||s||v with v in {0,1} from which the node's key pk is recovered and whose
   r||s passes the low-S check.  Then every bid built by ConstructSignedBid verifies to the
   node's own address ... *)
Theorem C02_roundtrip_bid : forall (K : bytes -> bytes) (cr : crypto) (pk : bytes),
  (forall h sg, sign cr h = Ok sg ->
     length sg = 65%nat /\ (nth_error sg 64 = Some 0 \/ nth_error sg 64 = Some 1) /\
     recover cr h sg = Ok pk /\ verify_rs cr pk h (firstn 64 sg) = true) ->
  forall tx amt bn ds de b,
  construct_bid K cr tx amt bn ds de = Ok b -> verify_bid K cr b = Ok (addr_of cr pk).
Proof. exact construct_bid_verifies. Qed.
Print Assumptions C02_roundtrip_bid.

(* ... and every commitment built by ConstructPreConfirmation does. *)
Theorem C02_roundtrip_commitment : forall (K : bytes -> bytes) (cr : crypto) (pk : bytes),
  (forall h sg, sign cr h = Ok sg ->
     length sg = 65%nat /\ (nth_error sg 64 = Some 0 \/ nth_error sg 64 = Some 1) /\
     recover cr h sg = Ok pk /\ verify_rs cr pk h (firstn 64 sg) = true) ->
  forall ob c,
  construct_preconf K cr ob = Ok c -> verify_preconf K cr c = Ok (addr_of cr pk).
Proof. exact construct_preconf_verifies. Qed.
Print Assumptions C02_roundtrip_commitment.

(* Verification keeps no memory: in any sequence of VerifyBid / VerifyPreConfirmation calls on
   one signer the verdict of a call is the verdict of that call alone, whatever was verified
   before or after it (so the soundness and binding statements above hold for every call of
   every session, e.g. for a forged bid that re-uses the digest and signature of a genuine
   bid verified a moment earlier).  The model is stateless because the Go struct has no
   mutable field; the "session" classes of the driver compare this with the implementation. *)
Lemma C02_verify_stateless_model_shape :
  forall (K : bytes -> bytes) (cr : crypto) (pre1 post1 pre2 post2 : list sig_call) (c : sig_call),
  nth_error (sig_session K cr (pre1 ++ c :: post1)) (length pre1) = Some (sig_verdict K cr c) /\
  nth_error (sig_session K cr (pre1 ++ c :: post1)) (length pre1) =
  nth_error (sig_session K cr (pre2 ++ c :: post2)) (length pre2).
Proof. exact session_stateless. Qed.
Print Assumptions C02_verify_stateless_model_shape.

(* Documented reading of "field value": these changes of the BYTES of a valid message are not
   changes of a signed value, and verify exactly as the original does (same address).
   (a) any other spelling of the same integer amount, e.g. "5", "05", "+5"; "0", "-0"; *)
Theorem C02_alias_amount : forall (K : bytes -> bytes) (cr : crypto) (b : bid) (amt' : bytes),
  parse_amount amt' = parse_amount (b_amt b) ->
  verify_bid K cr (with_amt b amt') = verify_bid K cr b.
Proof. exact amount_spelling_alias. Qed.
Print Assumptions C02_alias_amount.

(* (b) the recovery byte 27 for 0 and 28 for 1 (two spellings of one bit). *)
Theorem C02_alias_v : forall (K : bytes -> bytes) (cr : crypto) (b : bid) (rs : bytes) (v : N),
  length rs = 64%nat -> (v = 0 \/ v = 1) ->
  verify_bid K cr (with_sig b (rs ++ [v + 27])) = verify_bid K cr (with_sig b (rs ++ [v])).
Proof. exact v_spelling_alias. Qed.
Print Assumptions C02_alias_v.

(* Signature and digest perturbations, through verify_bid itself, for every crypto library that
   obeys three laws: (L1) the two recovery bits of one (hash, r||s) recover different keys;
   (L2) if r||s passes the low-S check then r||(n-s) passes it under no key; (L3) one signature
   recovers different keys from digests that are different scalars; and distinct keys have
   distinct addresses (truncated hash: outside the proofs).  Then for a bid that verifies to a:
   (i) the other recovery bit is refused or names another address; (ii) s -> n-s is refused
   whatever the recovery byte; (iii) digest substitution -- other field values, the digest
   recomputed for them, the old signature -- is refused or names another address, unless the two
   digests are one scalar (ECDSA reduces the digest modulo n) or a named pre-image pair collides.
   An arbitrary change of r or s cannot be excluded by a theorem: another (r,s) accepted for the
   same key would simply be another valid signature (unforgeability is computational); what IS
   proved for it is C02_sound_bid -- acceptance means a valid low-S signature of that digest. *)
Theorem C02_sig_perturbation :
  forall (K : bytes -> bytes) (cr : crypto) (neg_s : bytes -> bytes) (zn : bytes -> Z),
  (forall h rs pk pk', length rs = 64%nat ->
     recover cr h (rs ++ [0]) = Ok pk -> recover cr h (rs ++ [1]) = Ok pk' -> pk <> pk') ->
  (forall pk pk' h rs, length rs = 64%nat ->
     verify_rs cr pk h rs = true -> verify_rs cr pk' h (neg_s rs) = false) ->
  (forall d d' sig pk pk', zn d <> zn d' ->
     recover cr d sig = Ok pk -> recover cr d' sig = Ok pk' -> pk <> pk') ->
  (forall p q, addr_of cr p = addr_of cr q -> p = q) ->
  (forall b rs v v' a a', length rs = 64%nat -> v_to01 v = 0 -> v_to01 v' = 1 ->
     verify_bid K cr (with_sig b (rs ++ [v])) = Ok a ->
     verify_bid K cr (with_sig b (rs ++ [v'])) = Ok a' -> a' <> a) /\
  (forall b rs v v' a, length rs = 64%nat ->
     verify_bid K cr (with_sig b (rs ++ [v])) = Ok a ->
     forall a', verify_bid K cr (with_sig b (neg_s rs ++ [v'])) <> Ok a') /\
  (forall b b' a a' d d',
     (- 2 ^ 63 <= b_bn b < 2 ^ 63 /\ - 2 ^ 63 <= b_ds b < 2 ^ 63 /\ - 2 ^ 63 <= b_de b < 2 ^ 63)%Z ->
     (- 2 ^ 63 <= b_bn b' < 2 ^ 63 /\ - 2 ^ 63 <= b_ds b' < 2 ^ 63 /\ - 2 ^ 63 <= b_de b' < 2 ^ 63)%Z ->
     verify_bid K cr b = Ok a -> verify_bid K cr b' = Ok a' ->
     b_sig b' = b_sig b -> b_dig b = Some d -> b_dig b' = Some d' ->
     ~ (b_tx b = b_tx b' /\
        (exists A, parse_amount (b_amt b) = Some A /\ parse_amount (b_amt b') = Some A) /\
        b_bn b = b_bn b' /\ b_ds b = b_ds b' /\ b_de b = b_de b') ->
     a' <> a \/ (d <> d' /\ zn d = zn d') \/
     (exists x y : bytes, In (x, y) (bid_preimage_pairs K b b') /\ x <> y /\ K x = K y)).
Proof. exact sig_perturbation_all. Qed.
Print Assumptions C02_sig_perturbation.

(* The three laws hold for the crypto record of the abstract group (r, s as 32-byte integers, the
   point of abscissa r and bit v with logarithm lift r v, opposite points for the two bits, keys as
   logarithms, ECDSA verification = low s and one of the two recoverable keys): so (i)-(iii) hold
   for verify_bid over that record with no premise on the library left.  Non-vacuity:
   Signer_proofs.group7_premises, group7_instance (both bits accepted, to different keys;
   s-negation refused, by evaluation). *)
Theorem C02_group_perturbation : forall (n : Z), prime n -> (n mod 2 = 1)%Z -> (n < 2 ^ 256)%Z ->
  forall (rinv_of : Z -> Z), (forall r, (0 < r < n)%Z -> ((r * rinv_of r) mod n = 1)%Z) ->
  forall (lift : Z -> N -> option Z),
  (forall r v k, lift r v = Some k -> (0 < k < n)%Z) ->
  (forall r k k', lift r 0 = Some k -> lift r 1 = Some k' -> (k' = n - k)%Z) ->
  let cr := group_crypto n rinv_of lift in
  forall (K : bytes -> bytes),
  (forall b rs v v' a a', length rs = 64%nat -> v_to01 v = 0 -> v_to01 v' = 1 ->
     verify_bid K cr (with_sig b (rs ++ [v])) = Ok a ->
     verify_bid K cr (with_sig b (rs ++ [v'])) = Ok a' -> a' <> a) /\
  (forall b rs v v' a, length rs = 64%nat ->
     verify_bid K cr (with_sig b (rs ++ [v])) = Ok a ->
     forall a', verify_bid K cr (with_sig b (g_neg_s n rs ++ [v'])) <> Ok a').
Proof. exact group_perturbation_all. Qed.
Print Assumptions C02_group_perturbation.

(* The same for COMMITMENTS (the commitment's own signature replaced by the other recovery bit or
   by r||(n-s); another embedded bid -- other values, or other digest / signature bytes -- with the
   commitment digest recomputed and the OLD commitment signature), for every crypto library obeying
   L1-L3 and address injectivity. *)
Theorem C02_commitment_perturbation :
  forall (K : bytes -> bytes) (cr : crypto) (neg_s : bytes -> bytes) (zn : bytes -> Z) (klen : nat),
  (forall m, length (K m) = klen) ->
  (forall h rs pk pk', length rs = 64%nat ->
     recover cr h (rs ++ [0]) = Ok pk -> recover cr h (rs ++ [1]) = Ok pk' -> pk <> pk') ->
  (forall pk pk' h rs, length rs = 64%nat ->
     verify_rs cr pk h rs = true -> verify_rs cr pk' h (neg_s rs) = false) ->
  (forall d d' sig pk pk', zn d <> zn d' ->
     recover cr d sig = Ok pk -> recover cr d' sig = Ok pk' -> pk <> pk') ->
  (forall p q, addr_of cr p = addr_of cr q -> p = q) ->
  (forall c rs v v' a a', length rs = 64%nat -> v_to01 v = 0 -> v_to01 v' = 1 ->
     verify_preconf K cr (with_csig c (rs ++ [v])) = Ok a ->
     verify_preconf K cr (with_csig c (rs ++ [v'])) = Ok a' -> a' <> a) /\
  (forall c rs v v' a, length rs = 64%nat ->
     verify_preconf K cr (with_csig c (rs ++ [v])) = Ok a ->
     forall a', verify_preconf K cr (with_csig c (neg_s rs ++ [v'])) <> Ok a') /\
  (forall c c' b b' a a' d d',
     c_bid c = Some b -> c_bid c' = Some b' ->
     (- 2 ^ 63 <= b_bn b < 2 ^ 63 /\ - 2 ^ 63 <= b_ds b < 2 ^ 63 /\ - 2 ^ 63 <= b_de b < 2 ^ 63)%Z ->
     (- 2 ^ 63 <= b_bn b' < 2 ^ 63 /\ - 2 ^ 63 <= b_ds b' < 2 ^ 63 /\ - 2 ^ 63 <= b_de b' < 2 ^ 63)%Z ->
     (wf_bytes (obytes (b_dig b)) /\ wf_bytes (obytes (b_sig b))) ->
     (wf_bytes (obytes (b_dig b')) /\ wf_bytes (obytes (b_sig b'))) ->
     verify_preconf K cr c = Ok a -> verify_preconf K cr c' = Ok a' ->
     c_sig c' = c_sig c -> c_dig c = Some d -> c_dig c' = Some d' ->
     ~ ((b_tx b = b_tx b' /\
         (exists A, parse_amount (b_amt b) = Some A /\ parse_amount (b_amt b') = Some A) /\
         b_bn b = b_bn b' /\ b_ds b = b_ds b' /\ b_de b = b_de b') /\
        obytes (b_dig b) = obytes (b_dig b') /\ obytes (b_sig b) = obytes (b_sig b')) ->
     a' <> a \/ (d <> d' /\ zn d = zn d') \/
     (exists x y : bytes, In (x, y) (commitment_preimage_pairs K b b') /\ x <> y /\ K x = K y)).
Proof. exact commitment_perturbation_all. Qed.
Print Assumptions C02_commitment_perturbation.

(* For the crypto record of the abstract group all of it holds outright: digest substitution for
   bids (completing C02_group_perturbation) and the three perturbations for commitments. *)
Theorem C02_group_perturbation_full : forall (n : Z), prime n -> (n mod 2 = 1)%Z -> (n < 2 ^ 256)%Z ->
  forall (rinv_of : Z -> Z), (forall r, (0 < r < n)%Z -> ((r * rinv_of r) mod n = 1)%Z) ->
  forall (lift : Z -> N -> option Z),
  (forall r v k, lift r v = Some k -> (0 < k < n)%Z) ->
  (forall r k k', lift r 0 = Some k -> lift r 1 = Some k' -> (k' = n - k)%Z) ->
  let cr := group_crypto n rinv_of lift in
  forall (K : bytes -> bytes) (klen : nat), (forall m, length (K m) = klen) ->
  (forall b b' a a' d d', int64_fields b -> int64_fields b' ->
     verify_bid K cr b = Ok a -> verify_bid K cr b' = Ok a' ->
     b_sig b' = b_sig b -> b_dig b = Some d -> b_dig b' = Some d' ->
     ~ same_bid_fields b b' ->
     a' <> a \/ (d <> d' /\ g_zn n d = g_zn n d') \/ collision_among K (bid_preimage_pairs K b b')) /\
  (forall c rs v v' a a', length rs = 64%nat -> v_to01 v = 0 -> v_to01 v' = 1 ->
     verify_preconf K cr (with_csig c (rs ++ [v])) = Ok a ->
     verify_preconf K cr (with_csig c (rs ++ [v'])) = Ok a' -> a' <> a) /\
  (forall c rs v v' a, length rs = 64%nat ->
     verify_preconf K cr (with_csig c (rs ++ [v])) = Ok a ->
     forall a', verify_preconf K cr (with_csig c (g_neg_s n rs ++ [v'])) <> Ok a') /\
  (forall c c' b b' a a' d d',
     c_bid c = Some b -> c_bid c' = Some b' ->
     int64_fields b -> int64_fields b' -> wf_bid b -> wf_bid b' ->
     verify_preconf K cr c = Ok a -> verify_preconf K cr c' = Ok a' ->
     c_sig c' = c_sig c -> c_dig c = Some d -> c_dig c' = Some d' ->
     different_commitment_content b b' ->
     a' <> a \/ (d <> d' /\ g_zn n d = g_zn n d') \/ collision_among K (commitment_preimage_pairs K b b')).
Proof. exact group_perturbation_full. Qed.
Print Assumptions C02_group_perturbation_full.

(* Round trip naming the node's own address: if own (what KeySigner.GetAddress() returns) is the
   address of the key recovered from the key signer's answers -- observed for every generated key
   in each run (Check_C02.signer_genuine) -- the node's bids and commitments verify to own. *)
Theorem C02_roundtrip_own : forall (K : bytes -> bytes) (cr : crypto) (pk own : bytes),
  (forall h sg, sign cr h = Ok sg ->
     length sg = 65%nat /\ (nth_error sg 64 = Some 0 \/ nth_error sg 64 = Some 1) /\
     recover cr h sg = Ok pk /\ verify_rs cr pk h (firstn 64 sg) = true) ->
  addr_of cr pk = own ->
  (forall tx amt bn ds de b, construct_bid K cr tx amt bn ds de = Ok b -> verify_bid K cr b = Ok own) /\
  (forall ob c, construct_preconf K cr ob = Ok c -> verify_preconf K cr c = Ok own).
Proof. exact (fun K cr pk own RS E => conj (construct_bid_verifies_own K cr pk own RS E)
                                          (construct_preconf_verifies_own K cr pk own RS E)). Qed.
Print Assumptions C02_roundtrip_own.

(* Which amount spellings share a digest: those that parse (big.Int.SetString, base 10: optional
   sign, digits) to the same integer -- "200", "+200", "0200", "000200"; "0", "-0".  The converse
   is C02_binding_bid.  This is the interpretation fixed in DESIGN 0.3: a field's value is the
   hashed value. *)
Theorem C02_amount_aliases_same_digest : forall (K : bytes -> bytes) (b : bid) (amt' : bytes),
  parse_amount amt' = parse_amount (b_amt b) ->
  bid_hash K (with_amt b amt') = bid_hash K b /\
  forall dg sg pv, commitment_hash K {| c_bid := Some (with_amt b amt'); c_dig := dg; c_sig := sg; c_prov := pv |} =
                   commitment_hash K {| c_bid := Some b; c_dig := dg; c_sig := sg; c_prov := pv |}.
Proof. exact amount_aliases_same_digest. Qed.
Print Assumptions C02_amount_aliases_same_digest.

(* In the group itself: another digest scalar, or another s, recovers another key. *)
Theorem C02_malleation_digest_and_s : forall n : Z, prime n -> (n mod 2 = 1)%Z ->
  forall r rinv : Z, ((r * rinv) mod n = 1)%Z ->
  (forall z1 z2 s k, recovered n rinv z1 s k = recovered n rinv z2 s k -> (z1 mod n = z2 mod n)%Z) /\
  (forall z s1 s2 k, (0 < k < n)%Z ->
     recovered n rinv z s1 k = recovered n rinv z s2 k -> (s1 mod n = s2 mod n)%Z).
Proof. exact malleation_digest_and_s. Qed.
Print Assumptions C02_malleation_digest_and_s.

(* Malleation, in an abstract group of odd prime order n with points written as discrete
   logarithms: a signature (r, s, bit) on z determines the point R of abscissa r (logarithm k,
   the bit choosing between R and -R) and recovers the key r^-1 (s R - z G).
   (i)   flipping the recovery bit changes the recovered key;
   (ii)  (r, n-s, flipped bit) recovers the same key but violates low-S whenever (r,s) obeyed it;
   (iii) (r, n-s, same bit) recovers a different key. *)
Theorem C02_malleation : forall n : Z, prime n -> (n mod 2 = 1)%Z ->
  forall r rinv s k z : Z, ((r * rinv) mod n = 1)%Z -> (0 < s < n)%Z -> (0 < k < n)%Z ->
  recovered n rinv z s (- k) <> recovered n rinv z s k /\
  recovered n rinv z (n - s) (- k) = recovered n rinv z s k /\
  (low_s n s -> ~ low_s n (n - s)) /\
  recovered n rinv z (n - s) k <> recovered n rinv z s k.
Proof. exact malleation_all. Qed.
Print Assumptions C02_malleation.
(* C02_sig_perturbation / C02_group_perturbation above carry these facts to verify_bid.
   Outside the proofs: that secp256k1 as implemented by the library IS such a group with
   recovery computed as above (the curve arithmetic is not formalised here); that a different
   public key means a different 20-byte address (truncated hash: not a collision of K);
   unforgeability.  The library's actual answers for bit flips and s -> n-s of every generated
   signature are observed in each run (clauses accepts-malleated / wrong-address). *)
