(* C05 -- Bidders only surface commitments validly signed for the bid they sent.
   Statements only; every proof is [exact <lemma>].

   Vocabulary (model/PreconfBidder.v).  [send_bid_op tr o a view D] is SendBid called with
   arguments [a] at time 0 while the peers [view] are connected; the caller's context expires at
   abstract time [D] (D = 0: it had expired before the call).  [o] are the signer's answers
   (construct = ConstructSignedBid, verify = VerifyPreConfirmation: arbitrary functions that may
   fail or panic).  [tr] says, per operation, whether the transport's NewStream / WriteMsg /
   ReadMsg return when the context ends ([ctx_newstream], [ctx_write], [ctx_read]) and how the
   goroutine's final select resolves when the send and the expired context are both ready
   ([pick_send]); [ctx_transport] = all three watch the context, which is what pkg/p2p/libp2p does
   now (regenerated facts, [c05_src_transport]).  Every peer carries the script of its stream
   ([p_reply]: NewStream fails, write fails, read fails, error frame, silence, or decodable frames)
   and the time [p_time] of that event.  [XRun r] = a channel was returned: [xr_sent] the signed
   bid, [xr_contacted] one entry per NewStream call with the messages handed to WriteMsg,
   [xr_delivered] the (time, value) pairs received on the channel, [xr_close] when the channel is
   closed ([At t] or [Never]).

   [send_bid o a view D] is the earlier, coarser reading used by the composed theorems further
   down: a call made before its deadline on [ctx_transport]; C05_op_is_send_bid relates the two. *)
From Coq Require Import List NArith ZArith Bool.
From Coq Require Import Permutation.
From MevVerif Require Import lib.Bytes model.PreconfBidder check.Check_C05 proofs.PreconfBidder_proofs.
Import ListNotations.
Open Scope N_scope.

(* SAFETY, on every transport and for every resolution of the final select.  Every delivered value
   is the first frame [c0] of a connected provider, accepted by the signer with recovered address
   [addr], carrying that address as its provider address and embedding exactly the bid this call
   signed and sent (all fields, digest, signature, no extra fields); on a transport whose ReadMsg
   watches the context it arrived strictly before the deadline.  The delivered values are the
   concatenation of per-provider contributions of length at most one.
   COMPLETENESS is claimed only for an answer STRICTLY before the deadline ([p_time p < D]): such a
   provider contributes exactly its first frame.  A reply that becomes readable AT the deadline may
   or may not be delivered (ReadMsg's select, then the goroutine's
   select { case ch <- c: ; case <-ctx.Done(): }): either outcome is allowed, see class
   reply-at-deadline of the driver.  A provider that does not answer validly contributes nothing
   (given ReadMsg watches the context, or the final select prefers the expired context). *)
Theorem C05_surface : forall tr o a view D r,
  send_bid_op tr o a view D = XRun r ->
  construct o a = Ok (xr_sent r) /\
  (forall t c, In (t, c) (xr_delivered r) ->
     exists p c0 rest addr,
       In p view /\ p_type p = TProvider /\ p_reply p = RFrames c0 rest /\ t = p_time p /\
       (ctx_read tr = true -> t < D) /\
       verify o c0 = Ok addr /\ c = set_prov c0 addr /\ c_prov c = addr /\ c_bid c = Some (xr_sent r)) /\
  (exists contrib : peer -> list (N * commitment),
     xr_delivered r = flat_map contrib (get_peers TProvider view) /\
     forall p, (length (contrib p) <= 1)%nat /\
               ((ctx_read tr = true \/ pick_send tr = false) ->
                ~ answers_validly o (xr_sent r) D p -> contrib p = []) /\
               (forall c0 rest addr, p_reply p = RFrames c0 rest -> p_time p < D ->
                  verify o c0 = Ok addr -> c_bid c0 = Some (xr_sent r) ->
                  contrib p = [(p_time p, set_prov c0 addr)])).
Proof. exact op_surface. Qed.
Print Assumptions C05_surface.

(* If the signer does not look at the ProviderAddress field (premise; the real one does not hash
   it), the value handed to the caller itself verifies, to the address it reports. *)
Theorem C05_surface_verified : forall tr o a view D r,
  (forall c x, verify o (set_prov c x) = verify o c) ->
  send_bid_op tr o a view D = XRun r ->
  forall t c, In (t, c) (xr_delivered r) ->
    verify o c = Ok (c_prov c) /\ c_bid c = Some (xr_sent r) /\ (ctx_read tr = true -> t < D).
Proof. exact op_surface_verified. Qed.
Print Assumptions C05_surface_verified.

(* Who does not answer validly ([answers_validly] unfolded -- a reading aid, not a result): no
   decodable frame, or not before the deadline, or a frame the signer rejects, or a frame for
   another bid. *)
Theorem C05_silent : forall o sent D p,
  (forall c rest, p_reply p <> RFrames c rest) \/ D <= p_time p \/
  (forall c rest, p_reply p = RFrames c rest -> forall addr, verify o c <> Ok addr) \/
  (forall c rest, p_reply p = RFrames c rest -> c_bid c <> Some sent) ->
  ~ answers_validly o sent D p.
Proof. exact silent. Qed.
Print Assumptions C05_silent.

(* One NewStream per peer of type provider connected at call time, in the order the topology
   returned them.  What is handed to WriteMsg on a stream is never anything but the signed bid, at
   most once -- and it is handed over exactly when the stream opened: the script does not make
   NewStream fail and NewStream did not see an already expired context
   ([opens_stream_op tr D p] = reply is not RNewStreamErr and not (ctx_newstream tr and D = 0)). *)
Theorem C05_fanout : forall tr o a view D r,
  send_bid_op tr o a view D = XRun r ->
  construct o a = Ok (xr_sent r) /\
  Forall2 (fun p ct => fst ct = p_addr p /\ snd ct = if opens_stream_op tr D p then [xr_sent r] else [])
          (get_peers TProvider view) (xr_contacted r) /\
  (forall p, In p (get_peers TProvider view) <-> In p view /\ p_type p = TProvider).
Proof. exact op_fanout. Qed.
Print Assumptions C05_fanout.

(* With a context that had expired before the call, on the repository's transport: streams are not
   opened, nothing is written, nothing delivered, the channel is closed at once. *)
Theorem C05_expired : forall o a view r,
  send_bid_op ctx_transport o a view 0 = XRun r ->
  (forall ad ws, In (ad, ws) (xr_contacted r) -> ws = []) /\ xr_delivered r = [] /\ xr_close r = At 0.
Proof. exact op_expired. Qed.
Print Assumptions C05_expired.

(* The call is refused (no channel, nobody contacted) exactly when the bid cannot be signed or no
   provider is connected. *)
Theorem C05_refused : forall tr o a view D,
  send_bid_op tr o a view D = XErr <->
  (exists e, construct o a = Err e) \/ (exists s, construct o a = Ok s /\ get_peers TProvider view = []).
Proof. exact op_refused. Qed.
Print Assumptions C05_refused.

(* No reply script can crash the call unless the signer itself panics. *)
Theorem C05_no_crash : forall tr o a view D,
  construct o a <> Panic -> (forall c, verify o c <> Panic) -> send_bid_op tr o a view D <> XPanic.
Proof. exact op_no_crash. Qed.
Print Assumptions C05_no_crash.

(* TERMINATION.  On every transport the channel is closed when the last goroutine is finished;
   [finish_op tr D p] is when that is, computed from the script, the transport's flags and D
   through [wait]: an operation that watches the context returns at D at the latest, one that does
   not returns at its scripted event -- after D, or never. *)
Theorem C05_close : forall tr o a view D r,
  send_bid_op tr o a view D = XRun r ->
  xr_close r = tmax_list (map (finish_op tr D) (get_peers TProvider view)).
Proof. exact op_close. Qed.
Print Assumptions C05_close.

(* FROM the premise that NewStream, WriteMsg and ReadMsg all watch the context: every goroutine is
   finished at its scripted event if that lies before D and at D otherwise, so the channel is
   closed at some T <= D, T is the finishing time of the last provider, and nothing is delivered
   at or after the deadline or after T. *)
Theorem C05_termination : forall tr o a view D r,
  ctx_newstream tr = true -> ctx_write tr = true -> ctx_read tr = true ->
  send_bid_op tr o a view D = XRun r ->
  exists T, xr_close r = At T /\ T <= D /\
    (forall p, In p (get_peers TProvider view) -> finish_op tr D p = At (finish_time D p) /\ finish_time D p <= T) /\
    (exists p, In p (get_peers TProvider view) /\ T = finish_time D p) /\
    (forall t c, In (t, c) (xr_delivered r) -> t < D /\ t <= T).
Proof. exact op_termination. Qed.
Print Assumptions C05_termination.

Theorem C05_finish_time : forall D p,
  (p_reply p <> RSilence /\ p_time p < D /\ finish_time D p = p_time p) \/
  ((p_reply p = RSilence \/ D <= p_time p) /\ finish_time D p = D).
Proof. exact finish_time_spec. Qed.
Print Assumptions C05_finish_time.

(* The premise is needed, operation by operation: with a ReadMsg that does not watch the context
   and a provider that takes the bid and stays silent the channel is NEVER closed; with a NewStream
   or WriteMsg that does not and is blocked until time 9, deadline 5, it is closed at 9. *)
Theorem C05_termination_needs_ctx :
  (exists r, send_bid_op (mkTransport true true false false) w_oracles w_args silent_view 5 = XRun r /\
             xr_close r = Never) /\
  (exists r, send_bid_op (mkTransport false true true false) w_oracles w_args
                         [mkPeer [1] TProvider RNewStreamErr 9] 5 = XRun r /\ xr_close r = At 9) /\
  (exists r, send_bid_op (mkTransport true false true false) w_oracles w_args
                         [mkPeer [1] TProvider RWriteErr 9] 5 = XRun r /\ xr_close r = At 9).
Proof. exact op_termination_needs_ctx. Qed.
Print Assumptions C05_termination_needs_ctx.

(* For a call made before its deadline the operational model on the repository's transport is the
   coarser reading [send_bid] used below. *)
Theorem C05_op_is_send_bid : forall o a view D,
  0 < D -> send_bid_op ctx_transport o a view D = lift_result (send_bid o a view D).
Proof. exact op_is_send_bid. Qed.
Print Assumptions C05_op_is_send_bid.

(* The code before 93c1731 (no comparison of the embedded bid) surfaces a verified commitment
   for a bid that was not sent. *)
Theorem C05_surface_v0_refuted :
  exists o a view D r t c,
    send_bid_v0 o a view D = SRun r /\ In (t, c) (r_delivered r) /\
    verify o c = Ok (c_prov c) /\ c_bid c <> Some (r_sent r).
Proof. exact surface_v0_refuted. Qed.
Print Assumptions C05_surface_v0_refuted.

(* The executable checker that is evaluated on the implementation's observations in every run
   (check/Check_C05.v: [check_run], clause keys surfaced:other-bid / unverified / wrong-address /
   duplicate, not-offered, not-closed) is silent on everything the model does on a transport that
   watches the context ... *)
Theorem C05_checker_sound : forall tr o a view D r,
  ctx_newstream tr = true -> ctx_write tr = true -> ctx_read tr = true ->
  (forall c x, verify o (set_prov c x) = verify o c) ->
  NoDup (map p_addr (get_peers TProvider view)) ->
  send_bid_op tr o a view D = XRun r ->
  exists T, xr_close r = At T /\
    check_run (verify o) (xr_sent r) (get_peers TProvider view) D
              (xr_contacted r) (xr_delivered r) (Some T) = [].
Proof. exact checker_sound. Qed.
Print Assumptions C05_checker_sound.

(* ... and whenever it is silent on an observation, that observation has the property: every
   delivered value verifies to the address it reports and embeds the bid sent; the delivered
   values (provider address aside) are a sub-multiset of the first frames that arrived in time,
   one per provider; exactly the providers were contacted; on no stream was anything but the signed
   bid handed to WriteMsg, and it was handed over unless the stream could not be opened (NewStream
   failed by script, or the context had expired before the call); the channel was closed when the
   last provider finished. *)
Theorem C05_checker_reflects : forall vf sent provs D contacted delivered closed,
  check_run vf sent provs D contacted delivered closed = [] ->
  (forall t c, In (t, c) delivered -> vf c = Ok (c_prov c) /\ c_bid c = Some sent) /\
  (exists rest, Permutation (map (fun tc => strip (snd tc)) delivered ++ rest) (candidates D provs)) /\
  Permutation (map fst contacted) (map p_addr provs) /\
  (forall ad ws, In (ad, ws) contacted ->
     exists p, In p provs /\ p_addr p = ad /\ (ws = [] \/ ws = [sent]) /\
               (ws = [] -> p_reply p = RNewStreamErr \/ D = 0) /\
               (ws = [sent] -> p_reply p <> RNewStreamErr)) /\
  closed = Some (max_list (map (finish_time D) provs)).
Proof. exact checker_reflects. Qed.
Print Assumptions C05_checker_reflects.

(* "At most one per contacted provider" is per stream: the recovered signer is not required to be
   the contacted peer, so two distinct providers relaying one commitment yield two deliveries that
   report the same address (allowed by the text; recorded, not repaired). *)
Theorem C05_same_address_twice :
  exists view r t1 t2 c,
    send_bid_op ctx_transport w_oracles w_args view 5 = XRun r /\
    xr_delivered r = [(t1, c); (t2, c)] /\ NoDup (map p_addr view).
Proof. exact same_address_twice. Qed.
Print Assumptions C05_same_address_twice.

(* THE DEADLINE OVERTAKING THE OPENING OF A STREAM OR THE WRITE.  [send_bid_lat tr lat o a view D] is
   the operational model in which, per provider, NewStream takes [open_d (lat p)] to open the stream
   and WriteMsg then takes [write_d (lat p)]; the operations are issued one after the other and
   [l_ops] records which were issued.  For every provider list, all latencies, all reply scripts and
   every deadline D, on a transport whose three operations watch the context:
   the channel is closed at some T <= D;
   every delivery is a verified commitment embedding exactly the bid sent, carrying the recovered
   address, made before D by a provider whose write had completed before D;
   per provider, in topology order, one trace: WriteMsg is issued only if the stream was open
   before D, ReadMsg (and with it verification and delivery) only if the write had completed
   before D -- a provider whose open or write had not completed by D receives no further
   operation; the signed bid is handed to WriteMsg exactly when WriteMsg is issued and nothing else
   ever is. *)
Theorem C05_fanout_deadline : forall tr lat o a view D r,
  ctx_newstream tr = true -> ctx_write tr = true -> ctx_read tr = true ->
  send_bid_lat tr lat o a view D = LRun r ->
  construct o a = Ok (lr_sent r) /\
  (exists T, lr_close r = At T /\ T <= D) /\
  (forall t c, In (t, c) (lr_delivered r) ->
     t < D /\
     exists p c0 rest addr,
       In p view /\ p_type p = TProvider /\ p_reply p = RFrames c0 rest /\
       open_d (lat p) + write_d (lat p) < D /\
       verify o c0 = Ok addr /\ c = set_prov c0 addr /\ c_prov c = addr /\ c_bid c = Some (lr_sent r)) /\
  Forall2 (fun p g =>
             l_addr g = p_addr p /\
             (In OpWrite (l_ops g) -> open_d (lat p) < D /\ p_reply p <> RNewStreamErr) /\
             (In OpRead (l_ops g) -> open_d (lat p) + write_d (lat p) < D /\ p_reply p <> RWriteErr) /\
             (l_written g = [lr_sent r] <-> In OpWrite (l_ops g)) /\
             (l_written g = [] \/ l_written g = [lr_sent r]))
          (get_peers TProvider view) (lr_traces r).
Proof. exact fanout_deadline. Qed.
Print Assumptions C05_fanout_deadline.

(* With all latencies 0 this model is [send_bid_op] (the operations issued are forgotten), so the
   theorems above and the checker are statements about the latency-free instance of it. *)
Theorem C05_lat0_is_op : forall tr o a view D,
  forget_result (send_bid_lat tr lat0 o a view D) = send_bid_op tr o a view D.
Proof. exact lat0_is_op. Qed.
Print Assumptions C05_lat0_is_op.

(* ---- composition with C02, C03 and C19 (proofs/Compose_bidder.v) -------------------------------------
   In the theorems above the signer is an oracle pair.  Below it is the signer model itself, for an
   arbitrary hash function K and crypto library cr:
     construct := Signer.construct_bid K cr on the call's five values, put on the wire
                  (Compose_bidder.signer_construct / wire_bid);
     verify    := Signer.verify_preconf K cr on the decoded reply (NoPanic_proofs.conv_commitment:
                  an empty bytes field reads as nil). *)
From MevVerif Require model.Eip712 model.Signer model.BidderApi model.Rules proofs.NoPanic_proofs proofs.Compose_bidder.

(* C05 o C02 (C02_roundtrip_bid).  For every call of SendBid: the bid offered is ConstructSignedBid's
   result, written unchanged on every stream that opened; under the recover-after-sign premise of
   C02_roundtrip, and for a hash function without empty images (Keccak-256 has 32-byte images), the
   message as a provider decodes it IS that result and verifies to the node's own address.
   Non-vacuity: Compose_bidder.ex_premises, Compose_bidder.ex_bidder_path. *)
Theorem C05_offered_bid_signed : forall (K : bytes -> bytes) (cr : Signer.crypto) (pk : bytes),
  (forall h sg, Signer.sign cr h = Ok sg ->
     length sg = 65%nat /\ (nth_error sg 64 = Some 0 \/ nth_error sg 64 = Some 1) /\
     Signer.recover cr h sg = Ok pk /\ Signer.verify_rs cr pk h (firstn 64 sg) = true) ->
  (forall m, K m <> []) ->
  forall a view D r,
    send_bid (Compose_bidder.signer_oracles K cr) a view D = SRun r ->
    exists b,
      Signer.construct_bid K cr (a_tx a) (a_amt a) (a_bn a) (a_ds a) (a_de a) = Ok b /\
      r_sent r = Compose_bidder.wire_bid b /\
      NoPanic_proofs.conv_bid (r_sent r) = b /\
      Signer.verify_bid K cr (NoPanic_proofs.conv_bid (r_sent r)) = Ok (Signer.addr_of cr pk) /\
      (forall ad ws, In (ad, ws) (r_contacted r) -> ws = [] \/ ws = [r_sent r]).
Proof. exact Compose_bidder.offered_bid_signed. Qed.
Print Assumptions C05_offered_bid_signed.

(* C05 o C02 (C02_sound_commitment).  C05_surface with verify := the signer model's
   VerifyPreConfirmation (it does not read ProviderAddress, so the premise of C05_surface_verified is
   discharged): every delivered value embeds exactly the bid sent, arrived before the deadline, and
   presents a non-empty digest that is the commitment hash over the sent bid's fields, digest and
   signature, the sent bid itself verifies, and the 65-byte commitment signature recovers (v brought from
   27/28 to 0/1) to a key that passes the low-S check and whose address is the reported ProviderAddress. *)
Theorem C05_surface_signed : forall (K : bytes -> bytes) (cr : Signer.crypto) o a view D r,
  (forall c, verify o c = Signer.verify_preconf K cr (NoPanic_proofs.conv_commitment c)) ->
  send_bid o a view D = SRun r ->
  forall t c, In (t, c) (r_delivered r) ->
    let sent := NoPanic_proofs.conv_bid (r_sent r) in
    c_bid c = Some (r_sent r) /\ t < D /\
    exists d sig,
      c_dig c = d /\ c_sig c = sig /\ d <> [] /\
      (exists a', Signer.verify_bid K cr sent = Ok a') /\
      Eip712.commitment_hash K {| Eip712.c_bid := Some sent; Eip712.c_dig := None;
                                  Eip712.c_sig := None; Eip712.c_prov := [] |} = Ok d /\
      length sig = 65%nat /\
      exists v pk, nth_error sig 64 = Some v /\
        Signer.recover cr d (firstn 64 sig ++ [Signer.v_to01 v]) = Ok pk /\
        Signer.verify_rs cr pk d (firstn 64 sig) = true /\ c_prov c = Signer.addr_of cr pk.
Proof. exact Compose_bidder.surface_signed. Qed.
Print Assumptions C05_surface_signed.

(* C05 o C02 o C03 (C03_commitment).  When the sent bid lies in the EIP-712 domain (amount below 2^64,
   non-negative int64 numbers) the digest of every delivered commitment is the generic EIP-712 hash of
   the PreConfCommitment message made of the sent bid's values and the lowercase hex of its digest and
   signature. *)
Theorem C05_surface_signed_eip712 : forall (K : bytes -> bytes) (cr : Signer.crypto) o a view D r,
  (forall c, verify o c = Signer.verify_preconf K cr (NoPanic_proofs.conv_commitment c)) ->
  send_bid o a view D = SRun r ->
  forall A, Eip712.parse_amount (b_amt (r_sent r)) = Some A -> (0 <= A < 2 ^ 64)%Z ->
  (0 <= b_bn (r_sent r) < 2 ^ 63)%Z -> (0 <= b_ds (r_sent r) < 2 ^ 63)%Z -> (0 <= b_de (r_sent r) < 2 ^ 63)%Z ->
  forall t c, In (t, c) (r_delivered r) ->
    let s := r_sent r in
    c_dig c = Eip712.eip712_commitment K (b_tx s) (Z.to_N A) (Z.to_N (b_bn s)) (Z.to_N (b_ds s))
                                       (Z.to_N (b_de s)) (b_dig s) (b_sig s).
Proof. exact Compose_bidder.surface_signed_eip712. Qed.
Print Assumptions C05_surface_signed_eip712.

(* C19 o C05 o C03 o C02, end to end.  For a request accepted by the bidder API rules (numbers Go int64
   values), with both signer oracles instantiated: every commitment SendBid surfaces embeds a bid with
   the request's values whose digest is the EIP-712 bid hash of those values, and its own digest is the
   EIP-712 commitment hash over those values, that bid digest and the node's bid signature. *)
Theorem C05_accepted_request_commitments : forall (K : bytes -> bytes) (cr : Signer.crypto) (rq : BidderApi.request),
  Rules.bidder_bid_ok (BidderApi.r_txs rq) (BidderApi.r_amount rq) (BidderApi.r_bn rq) (BidderApi.r_ds rq)
                      (BidderApi.r_de rq) = true ->
  (BidderApi.r_bn rq <= Rules.int64_max)%Z -> (BidderApi.r_ds rq <= Rules.int64_max)%Z ->
  (BidderApi.r_de rq <= Rules.int64_max)%Z ->
  forall view D r,
    send_bid (Compose_bidder.signer_oracles K cr) (Compose_bidder.args_of (BidderApi.forward rq)) view D = SRun r ->
    forall t c, In (t, c) (r_delivered r) ->
      exists b, c_bid c = Some b /\
        b_tx b = join 44 (BidderApi.r_txs rq) /\ b_amt b = BidderApi.r_amount rq /\
        b_bn b = BidderApi.r_bn rq /\ b_ds b = BidderApi.r_ds rq /\ b_de b = BidderApi.r_de rq /\
        b_dig b = Compose_bidder.req_digest K rq /\
        c_dig c = Eip712.eip712_commitment K (join 44 (BidderApi.r_txs rq)) (dec_value (BidderApi.r_amount rq))
                    (Z.to_N (BidderApi.r_bn rq)) (Z.to_N (BidderApi.r_ds rq)) (Z.to_N (BidderApi.r_de rq))
                    (Compose_bidder.req_digest K rq) (b_sig b).
Proof. exact Compose_bidder.accepted_commitments. Qed.
Print Assumptions C05_accepted_request_commitments.

(* ---- the full round trip (proofs/Compose_provider.v): C19 o C05 o C01 o C12 o C07 o C02 o C03 ---------------
   Both nodes modelled, every signer oracle instantiated.  Glue, all explicit:
   * one hash function K and one signature library (rc = crypto.SigToPub, vr = crypto.VerifySignature, ao =
     crypto.PubkeyToAddress) on both nodes; each node has its own key signer (signB, signP); digests have
     between 1 and 64 bytes (Keccak-256: 32); recover-after-sign (premise of C02_roundtrip) for both keys
     pkB, pkP; the provider's key signer answers;
   * the provider's handler reads the bidder's message as decoded from the wire (NoPanic_proofs.conv_bid);
   * what the bidder's stream to that provider does is what the provider's handler does
     ([Compose_provider.reply_of]: the frame it wrote, else an error / end of stream, else nothing), and the
     message on the wire is the handler's commitment ([Compose_provider.frame_of]);
   * the provider's history is the accepting one ([Compose_provider.accepting_run]: the engine takes the bid and
     accepts its digest before the handler's deadline, the allowance check says yes for the bidder's address,
     the chain client takes the settlement transaction, the write succeeds).
   Non-vacuity: Compose_provider.ex_round_trip (and ex_round_trip_rejected for the refusing case). *)
From MevVerif Require model.ProviderSvc model.PreconfProvider proofs.Compose_provider.

(* For a request accepted by the bidder API rules (numbers Go int64 values, as every decoded bidderapi.v1.Bid has: Rules_proofs.int64_of_wire_range) and a provider that answers before the
   bidder's deadline: SendBid surfaces for this provider exactly the commitment the provider wrote -- once,
   embedding exactly the bid sent, with ProviderAddress = the address of the provider's key; its digest is the
   EIP-712 PreConfCommitment hash over the request's values, the EIP-712 bid digest and the bidder's bid
   signature; and the provider had its settlement transaction for that very commitment accepted before. *)
Theorem C05_round_trip_honest :
  forall (K : bytes -> bytes) (rc : bytes -> bytes -> outcome bytes) (vr : bytes -> bytes -> bytes -> bool)
         (ao : bytes -> bytes) (signB signP : bytes -> outcome bytes),
  (forall m, (1 <= length (K m) <= 64)%nat) ->
  forall pkB pkP : bytes,
  (forall hh sg, signB hh = Ok sg ->
     length sg = 65%nat /\ (nth_error sg 64 = Some 0 \/ nth_error sg 64 = Some 1) /\
     rc hh sg = Ok pkB /\ vr pkB hh (firstn 64 sg) = true) ->
  (forall hh sg, signP hh = Ok sg ->
     length sg = 65%nat /\ (nth_error sg 64 = Some 0 \/ nth_error sg 64 = Some 1) /\
     rc hh sg = Ok pkP /\ vr pkP hh (firstn 64 sg) = true) ->
  (forall hh, exists sg, signP hh = Ok sg) ->
  forall rq : BidderApi.request,
  Rules.bidder_bid_ok (BidderApi.r_txs rq) (BidderApi.r_amount rq) (BidderApi.r_bn rq) (BidderApi.r_ds rq)
                      (BidderApi.r_de rq) = true ->
  (BidderApi.r_bn rq <= Rules.int64_max)%Z -> (BidderApi.r_ds rq <= Rules.int64_max)%Z ->
  (BidderApi.r_de rq <= Rules.int64_max)%Z ->
  forall view D rn,
  send_bid (Compose_bidder.signer_oracles K
              {| Signer.recover := rc; Signer.verify_rs := vr; Signer.addr_of := ao; Signer.sign := signB |})
           (Compose_bidder.args_of (BidderApi.forward rq)) view D = SRun rn ->
  forall (addr : bytes) (h sid : N) (allowf : bytes -> bool),
  allowf (ao pkB) = true ->
  forall p, In p view -> p_type p = TProvider ->
  let S := PreconfProvider.run K ProviderSvc.rules_validators (PreconfProvider.node_wiring addr)
             (Compose_provider.accepting_run K
                {| Signer.recover := rc; Signer.verify_rs := vr; Signer.addr_of := ao; Signer.sign := signP |}
                (NoPanic_proofs.conv_bid (r_sent rn)) allowf h sid) in
  p_reply p = Compose_provider.reply_of S h ->
  p_time p < D ->
  exists c : PreconfProvider.preconf,
    Compose_provider.first_write h (PreconfProvider.heff S) = Some c /\
    contribution (Compose_bidder.signer_oracles K
                    {| Signer.recover := rc; Signer.verify_rs := vr; Signer.addr_of := ao; Signer.sign := signB |})
                 (r_sent rn) D p = [(p_time p, set_prov (Compose_provider.frame_of c) (ao pkP))] /\
    In (p_time p, set_prov (Compose_provider.frame_of c) (ao pkP)) (r_delivered rn) /\
    c_bid (set_prov (Compose_provider.frame_of c) (ao pkP)) = Some (r_sent rn) /\
    c_prov (set_prov (Compose_provider.frame_of c) (ao pkP)) = ao pkP /\
    c_dig (set_prov (Compose_provider.frame_of c) (ao pkP)) =
      Eip712.eip712_commitment K (join 44 (BidderApi.r_txs rq)) (dec_value (BidderApi.r_amount rq))
        (Z.to_N (BidderApi.r_bn rq)) (Z.to_N (BidderApi.r_ds rq)) (Z.to_N (BidderApi.r_de rq))
        (Compose_bidder.req_digest K rq) (b_sig (r_sent rn)) /\
    In (PreconfProvider.HStored h true) (PreconfProvider.heff S) /\
    exists amt, PreconfProvider.parse_bigint (BidderApi.r_amount rq) = Some amt /\
                In (PreconfProvider.HSend h addr (PreconfProvider.calldata K amt c)) (PreconfProvider.heff S).
Proof. exact Compose_provider.round_trip_honest. Qed.
Print Assumptions C05_round_trip_honest.

(* The general accepting case: ANY provider history (any interleaving with other handlers) with both oracles
   instantiated, in which the handler that serves the bidder's stream wrote a commitment c. *)
Theorem C05_round_trip_accepting :
  forall (K : bytes -> bytes) (rc : bytes -> bytes -> outcome bytes) (vr : bytes -> bytes -> bytes -> bool)
         (ao : bytes -> bytes) (signB signP : bytes -> outcome bytes),
  (forall m, K m <> []) ->
  forall pkP : bytes,
  (forall hh sg, signP hh = Ok sg ->
     length sg = 65%nat /\ (nth_error sg 64 = Some 0 \/ nth_error sg 64 = Some 1) /\
     rc hh sg = Ok pkP /\ vr pkP hh (firstn 64 sg) = true) ->
  forall a view D rn,
  send_bid (Compose_bidder.signer_oracles K
              {| Signer.recover := rc; Signer.verify_rs := vr; Signer.addr_of := ao; Signer.sign := signB |})
           a view D = SRun rn ->
  forall (addr : bytes) (evs : list PreconfProvider.event),
  let crP := {| Signer.recover := rc; Signer.verify_rs := vr; Signer.addr_of := ao; Signer.sign := signP |} in
  Compose_provider.constructed_history K crP ProviderSvc.rules_validators (PreconfProvider.node_wiring addr) evs ->
  let S := PreconfProvider.run K ProviderSvc.rules_validators (PreconfProvider.node_wiring addr) evs in
  forall (h : N) (allowf : bytes -> bool),
  ProviderSvc.nget h (PreconfProvider.arr S) =
    Some (PreconfProvider.role_bidder,
          PreconfProvider_signed.oracle_of K crP allowf (Some (NoPanic_proofs.conv_bid (r_sent rn)))) ->
  forall p, In p view -> p_type p = TProvider -> p_reply p = Compose_provider.reply_of S h ->
  forall c, Compose_provider.first_write h (PreconfProvider.heff S) = Some c ->
  p_time p < D ->
  contribution (Compose_bidder.signer_oracles K
                  {| Signer.recover := rc; Signer.verify_rs := vr; Signer.addr_of := ao; Signer.sign := signB |})
               (r_sent rn) D p = [(p_time p, set_prov (Compose_provider.frame_of c) (ao pkP))] /\
  In (p_time p, set_prov (Compose_provider.frame_of c) (ao pkP)) (r_delivered rn) /\
  c_bid (set_prov (Compose_provider.frame_of c) (ao pkP)) = Some (r_sent rn) /\
  c_prov (set_prov (Compose_provider.frame_of c) (ao pkP)) = ao pkP /\
  c_dig (set_prov (Compose_provider.frame_of c) (ao pkP)) = PreconfProvider.c_dig c /\
  c_sig (set_prov (Compose_provider.frame_of c) (ao pkP)) = PreconfProvider.c_sig c.
Proof. exact Compose_provider.round_trip_accepting. Qed.
Print Assumptions C05_round_trip_accepting.

(* Nothing is surfaced for a provider that refuses: whenever its handler has returned with any class other than
   "written" / "write failed" -- wrong role, unreadable bid, bad signature, allowance refused, format refused,
   engine REJECTED, undefined status, deadline or context end, construction failure, store failure -- whatever else
   happened on that node, the provider contributes nothing to the bidder's channel. *)
Theorem C05_round_trip_refused :
  forall (K : bytes -> bytes) (rc : bytes -> bytes -> outcome bytes) (vr : bytes -> bytes -> bytes -> bool)
         (ao : bytes -> bytes) (signB : bytes -> outcome bytes) D rn
         (addr : bytes) (evs : list PreconfProvider.event) (h : N) p,
  let S := PreconfProvider.run K ProviderSvc.rules_validators (PreconfProvider.node_wiring addr) evs in
  p_reply p = Compose_provider.reply_of S h ->
  forall r, ProviderSvc.nget h (PreconfProvider.hs S) = Some (PreconfProvider.HDone r) ->
  r <> PreconfProvider.RWritten -> r <> PreconfProvider.RWriteErr ->
  contribution (Compose_bidder.signer_oracles K
                  {| Signer.recover := rc; Signer.verify_rs := vr; Signer.addr_of := ao; Signer.sign := signB |})
               (r_sent rn) D p = [].
Proof. exact Compose_provider.round_trip_refused_classes. Qed.
Print Assumptions C05_round_trip_refused.
