(* C01 -- No commitment without a verified, funded, well-formed and accepted bid.
   Statements only; every proof is [exact <lemma>].

   Machine (model/PreconfProvider.v on top of model/ProviderSvc.v): any number of concurrent
   handleBid handlers and decision streams; [run K V W evs] is the state after an arbitrary event
   list.  "Commit effects" of a handler: HSign (SignHash on the node key), HSend (transaction handed
   to the chain client), HWrite (commitment written to the bidder's stream).  The wiring is the one
   extracted from node.NewNode ([node_wiring], gen/Generated.v): the processor is the provider-API
   service whose validator is the published rule set, the store is the preconf contract at the
   configured address.  Signature verification and the allowance check are the answers the real
   signer / store gave (fields of the Arrive event). *)
From Coq Require Import List NArith ZArith Bool.
From MevVerif Require Import model.Eip712 model.Signer.
From MevVerif Require Import lib.Bytes model.Rules model.ProviderSvc model.PreconfProvider
  proofs.PreconfProvider_proofs proofs.PreconfProvider_traces proofs.PreconfProvider_signed.
Import ListNotations.
Open Scope N_scope.

(* Any signature, settlement transaction or commitment message of a handler implies: the peer was
   enrolled as a bidder, the bid was read, VerifyBid answered with a signer address, the allowance
   check said yes, the bid satisfies the published format rules, the engine sent ACCEPTED for exactly
   this bid's digest, and the handler itself received that status (so it was still waiting: a handler
   whose deadline fired has returned and does nothing further); a written commitment embeds this bid. *)
Theorem C01_gate : forall K addr evs e,
  In e (heff (run K rules_validators (node_wiring addr) evs)) -> is_commit_effect e = true ->
  exists role o b a,
    In (Arrive (eff_handler e) role o) evs /\
    role = role_bidder /\ o_read o = Some b /\ o_verify o = VOk a /\ o_allow o = true /\
    provider_bid_ok (e_txs (to_engine b)) (e_amt (to_engine b)) (e_bn (to_engine b)) (e_dig (to_engine b))
                    (e_ds (to_engine b)) (e_de (to_engine b)) = true /\
    (exists sid, In (Lookup sid (b_dig b) status_accepted) evs) /\
    In (HTake (eff_handler e) status_accepted) (heff (run K rules_validators (node_wiring addr) evs)) /\
    (forall h c, e = HWrite h c -> c_bid c = b).
Proof. exact gate_node. Qed.
Print Assumptions C01_gate.

(* The same with the signer model in place of the VerifyBid oracle (C02_sound_bid): in every history
   whose Arrive events carry [Signer.verify_bid K cr] of the bid read from the wire and the allowance
   answer for the recovered signer ([signed_history]), a commit effect implies that the presented
   digest is [bid_hash] of exactly the bid's fields, that the 65-byte signature recovers to a key
   passing the low-S check whose address a is the one the allowance check approved, that the bid's own
   fields satisfy the published format rules, and that the engine accepted exactly this digest. *)
Theorem C01_gate_signed : forall (K : bytes -> bytes) (cr : crypto) addr evs e,
  signed_history K cr evs ->
  In e (heff (run K rules_validators (node_wiring addr) evs)) -> is_commit_effect e = true ->
  exists role allowf w d sg a,
    In (Arrive (eff_handler e) role (oracle_of K cr allowf (Some w))) evs /\
    role = role_bidder /\
    Eip712.b_dig w = Some d /\ Eip712.b_sig w = Some sg /\ bid_hash K w = Ok d /\ length sg = 65%nat /\
    (exists v pk, nth_error sg 64 = Some v /\ recover cr d (firstn 64 sg ++ [v_to01 v]) = Ok pk /\
                  verify_rs cr pk d (firstn 64 sg) = true /\ a = addr_of cr pk) /\
    allowf a = true /\
    provider_bid_ok (split comma (Eip712.b_tx w)) (Eip712.b_amt w) (Eip712.b_bn w) d (Eip712.b_ds w) (Eip712.b_de w) = true /\
    (exists sid, In (Lookup sid d status_accepted) evs) /\
    In (HTake (eff_handler e) status_accepted) (heff (run K rules_validators (node_wiring addr) evs)) /\
    (forall h c, e = HWrite h c -> c_bid c = of_wire w).
Proof. exact gate_signed. Qed.
Print Assumptions C01_gate_signed.

(* Every other handler -- wrong role, unreadable or unverifiable bid, allowance refused, format
   refused, or no ACCEPTED decision for its digest anywhere in the history (reject, malformed status,
   silence, decisions for other digests) -- produces no commit effect at all. *)
Theorem C01_refusal : forall K addr evs h role o,
  In (Arrive h role o) evs ->
  nget h (arr (run K rules_validators (node_wiring addr) evs)) = Some (role, o) ->
  (gate_class role o <> None \/
   forall b, o_read o = Some b ->
     vbid rules_validators (to_engine b) = false \/ (forall sid, ~ In (Lookup sid (b_dig b) status_accepted) evs)) ->
  forall e, In e (heff (run K rules_validators (node_wiring addr) evs)) -> eff_handler e = h ->
            is_commit_effect e = false.
Proof. exact refusal_node. Qed.
Print Assumptions C01_refusal.

(* A commitment is written only after its settlement transaction was handed to the chain client at
   the configured contract and the client reported success. *)
Theorem C01_order : forall K addr evs h c,
  In (HWrite h c) (heff (run K rules_validators (node_wiring addr) evs)) ->
  In (HStored h true) (heff (run K rules_validators (node_wiring addr) evs)) /\
  exists amt, parse_bigint (b_amt (c_bid c)) = Some amt /\
              In (HSend h addr (calldata K amt c)) (heff (run K rules_validators (node_wiring addr) evs)).
Proof. exact order_node. Qed.
Print Assumptions C01_order.

(* The general form, for any validator and any wiring: the engine-side conjuncts hold when the
   processor is the provider-API service (with the auto-accepting processor they do not:
   ex_noop_processor_refuted). *)
Theorem C01_gate_any_wiring : forall K V W evs e,
  In e (heff (run K V W evs)) -> is_commit_effect e = true ->
  exists role o b a,
    In (Arrive (eff_handler e) role o) evs /\
    role = role_bidder /\ o_read o = Some b /\ o_verify o = VOk a /\ o_allow o = true /\
    (w_processor_api W = true ->
       vbid V (to_engine b) = true /\ exists sid, In (Lookup sid (b_dig b) status_accepted) evs) /\
    In (HTake (eff_handler e) status_accepted) (heff (run K V W evs)) /\
    (forall h c, e = HWrite h c -> c_bid c = b).
Proof. exact gate. Qed.
Print Assumptions C01_gate_any_wiring.

(* ---- "the bidder gets an error or nothing": return class and exact trace of every refusal --------
   [hist h s] is the list of all effects of handler h, newest first; [shape] (proofs/
   PreconfProvider_traces.v) classifies it completely by the handler's control state. *)

(* For every event list and every handler: the complete effect trace is the one determined by the
   control state -- nothing before the decision; Take,Sign,Send while storing; +Stored,Write while
   writing; and for a returned handler exactly the trace of its return class. *)
Theorem C01_trace : forall K addr evs h,
  shape K (node_wiring addr) h (nget h (hs (run K rules_validators (node_wiring addr) evs)))
        (hist h (run K rules_validators (node_wiring addr) evs)).
Proof. exact (fun K addr => handler_trace K rules_validators (node_wiring addr)). Qed.
Print Assumptions C01_trace.

(* role / read / signature / allowance refusals: the handler has returned ErrInvalidBidderTypeForBid
   (RRole), the read error (RRead), InvalidArgument (RVerify), FailedPrecondition (RAllow), and that
   return is its only effect. *)
Theorem C01_refusal_gate : forall K addr evs h role o r,
  nget h (arr (run K rules_validators (node_wiring addr) evs)) = Some (role, o) -> gate_class role o = Some r ->
  (r = RRole \/ r = RRead \/ r = RVerify \/ r = RAllow) /\
  nget h (hs (run K rules_validators (node_wiring addr) evs)) = Some (HDone r) /\
  hist h (run K rules_validators (node_wiring addr) evs) = [HReturn h r].
Proof.
  exact (fun K addr evs h role o r Ha Hg =>
           conj (gate_class_range K role o r Hg) (refusal_gate K rules_validators (node_wiring addr) evs h role o r Ha Hg)).
Qed.
Print Assumptions C01_refusal_gate.

(* format refusal: the validation error of ProcessBid (RFormat), only effect. *)
Theorem C01_refusal_format : forall K addr evs h role o b,
  nget h (arr (run K rules_validators (node_wiring addr) evs)) = Some (role, o) ->
  gate_class role o = None -> o_read o = Some b -> vbid rules_validators (to_engine b) = false ->
  nget h (hs (run K rules_validators (node_wiring addr) evs)) = Some (HDone RFormat) /\
  hist h (run K rules_validators (node_wiring addr) evs) = [HReturn h RFormat].
Proof.
  exact (fun K addr evs h role o b Ha Hg Hr Hv =>
           refusal_format K rules_validators (node_wiring addr) evs h role o b Ha Hg Hr (node_wiring_api addr) Hv).
Qed.
Print Assumptions C01_refusal_format.

(* engine said REJECTED: Internal "bid rejected" (RRejected); trace = receipt of the status, return. *)
Theorem C01_refusal_reject : forall K addr evs h,
  In (HTake h status_rejected) (heff (run K rules_validators (node_wiring addr) evs)) ->
  nget h (hs (run K rules_validators (node_wiring addr) evs)) = Some (HDone RRejected) /\
  hist h (run K rules_validators (node_wiring addr) evs) = [HReturn h RRejected; HTake h status_rejected].
Proof. exact (fun K addr => refusal_reject K rules_validators (node_wiring addr)). Qed.
Print Assumptions C01_refusal_reject.

(* a status outside {ACCEPTED, REJECTED} (never delivered by the service: C12_at_most_once): nil, nothing. *)
Theorem C01_refusal_undefined_status : forall K addr evs h stv,
  In (HTake h stv) (heff (run K rules_validators (node_wiring addr) evs)) ->
  stv <> status_accepted -> stv <> status_rejected ->
  nget h (hs (run K rules_validators (node_wiring addr) evs)) = Some (HDone RNil) /\
  hist h (run K rules_validators (node_wiring addr) evs) = [HReturn h RNil; HTake h stv].
Proof. exact (fun K addr => refusal_other_status K rules_validators (node_wiring addr)). Qed.
Print Assumptions C01_refusal_undefined_status.

(* silence: when the deadline fires on a waiting handler (or the context ends while the bid is still
   offered) the handler returns the context error (RCtx), and that return is its only effect. *)
Theorem C01_refusal_deadline : forall K addr evs h,
  nget h (hs (run K rules_validators (node_wiring addr) evs)) = Some (HDone RCtx) ->
  hist h (run K rules_validators (node_wiring addr) evs) = [HReturn h RCtx].
Proof. exact (fun K addr => refusal_deadline K rules_validators (node_wiring addr)). Qed.
Print Assumptions C01_refusal_deadline.

Theorem C01_deadline_step : forall K addr s h b,
  panicked (svc s) = false -> nget h (hs s) = Some (HInSvc b false) ->
  (exists b0, nget h (calls (svc s)) = Some (PHanded b0)) ->
  nget h (hs (step K rules_validators (node_wiring addr) s (DeadlineFire h))) = Some (HDone RCtx).
Proof. exact (fun K addr => deadline_step K rules_validators (node_wiring addr)). Qed.
Print Assumptions C01_deadline_step.

(* late and duplicate decisions, and anything else that happens after a handler has returned, change
   neither its state nor its trace. *)
Theorem C01_returned_is_final : forall K addr evs evs' h r,
  nget h (hs (run K rules_validators (node_wiring addr) evs)) = Some (HDone r) ->
  nget h (hs (run K rules_validators (node_wiring addr) (evs ++ evs'))) = Some (HDone r) /\
  hist h (run K rules_validators (node_wiring addr) (evs ++ evs')) = hist h (run K rules_validators (node_wiring addr) evs).
Proof. exact (fun K addr => done_final K rules_validators (node_wiring addr)). Qed.
Print Assumptions C01_returned_is_final.

(* Summary: a handler that returned with a refusal class (role, read, verify, allowance, format,
   context/deadline, rejected, nil) has no effect other than that return and, at most, the receipt of
   a status that is not ACCEPTED: no commitment signature, settlement transaction or commitment message. *)
Theorem C01_error_or_nothing : forall K addr evs h r,
  nget h (hs (run K rules_validators (node_wiring addr) evs)) = Some (HDone r) -> refusal_class r = true ->
  forall e, In e (heff (run K rules_validators (node_wiring addr) evs)) -> eff_handler e = h ->
            e = HReturn h r \/ exists stv, e = HTake h stv /\ stv <> status_accepted.
Proof. exact (fun K addr => error_or_nothing K rules_validators (node_wiring addr)). Qed.
Print Assumptions C01_error_or_nothing.
(* Outside these theorems: the Go select choice when a decision and the deadline are ready at the same
   instant (either order is an event list, both are covered). *)
