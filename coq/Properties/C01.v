(* C01 -- No commitment without a verified, funded, well-formed and accepted bid.
   Statements only; every proof is [exact <lemma>].

   Machine (model/PreconfProvider.v on top of model/ProviderSvc.v): any number of concurrent
   handleBid handlers and decision streams; [run K V W evs] is the state after an arbitrary event
   list.  "Commit effects" of a handler: HSign (SignHash on the node key), HSend (transaction handed
   to the chain client), HWrite (commitment written to the bidder's stream).  The wiring is the one
   extracted from node.NewNode ([node_wiring], gen/Generated.v): the processor is the provider-API
   service whose validator is the published rule set, the store is the preconf contract at the
   configured address.  Signature verification and the allowance check are the answers the real
   signer / store gave (fields of the Arrive event). *)
From Coq Require Import List NArith ZArith Bool.
From MevVerif Require Import model.Eip712 model.Signer.
From MevVerif Require Import lib.Bytes model.Rules model.ProviderSvc model.PreconfProvider
  proofs.PreconfProvider_proofs proofs.PreconfProvider_traces proofs.PreconfProvider_signed.
Import ListNotations.
Open Scope N_scope.

(* Any signature, settlement transaction or commitment message of a handler implies: the peer was
   enrolled as a bidder, the bid was read, VerifyBid answered with a signer address, the allowance
   check said yes, the bid satisfies the published format rules, the engine sent ACCEPTED for exactly
   this bid's digest, and the handler itself received that status (so it was still waiting: a handler
   whose deadline fired has returned and does nothing further); a written commitment embeds this bid. *)
Theorem C01_gate : forall K addr evs e,
  In e (heff (run K rules_validators (node_wiring addr) evs)) -> is_commit_effect e = true ->
  exists role o b a,
    In (Arrive (eff_handler e) role o) evs /\
    role = role_bidder /\ o_read o = Some b /\ o_verify o = VOk a /\ o_allow o = true /\
    provider_bid_ok (e_txs (to_engine b)) (e_amt (to_engine b)) (e_bn (to_engine b)) (e_dig (to_engine b))
                    (e_ds (to_engine b)) (e_de (to_engine b)) = true /\
    (exists sid, In (Lookup sid (b_dig b) status_accepted) evs) /\
    In (HTake (eff_handler e) status_accepted) (heff (run K rules_validators (node_wiring addr) evs)) /\
    (forall h c, e = HWrite h c -> c_bid c = b).
Proof. exact gate_node. Qed.
Print Assumptions C01_gate.

(* C01_gate with the accepting decision placed in the history: the event list splits at a Lookup for this
   bid's digest with status ACCEPTED that comes AFTER this handler's Arrive and that, at the moment it was
   processed, was received on a serving stream and found the entry registered by THIS handler (so it is the
   decision whose callback filled this handler's channel: C12_delivered).  "Before the deadline": the handler
   itself then received that status (HTake), which a handler that has returned -- e.g. because its deadline
   step came first -- never does (C01_returned_is_final, C01_late_events_no_effect).
   "A written commitment embeds this bid" holds in the model by construction ([on_status] builds the
   commitment around the bid that was read; ConstructPreConfirmation's answer is modelled as digest and
   signature only): that the frame really written embeds the bid byte for byte is compared on every case
   by the checker (check/Check_C01.v, [bid_eqb] on the observed frame). *)
Theorem C01_gate_ordered : forall K addr evs e,
  In e (heff (run K rules_validators (node_wiring addr) evs)) -> is_commit_effect e = true ->
  exists role o b a sid pre post,
    evs = pre ++ Lookup sid (b_dig b) status_accepted :: post /\
    In (Arrive (eff_handler e) role o) pre /\
    role = role_bidder /\ o_read o = Some b /\ o_verify o = VOk a /\ o_allow o = true /\
    vbid rules_validators (to_engine b) = true /\
    pget (b_dig b) (pending (svc (run K rules_validators (node_wiring addr) pre))) = Some (eff_handler e) /\
    sget sid (svc (run K rules_validators (node_wiring addr) pre)) = SIdle /\
    In (HTake (eff_handler e) status_accepted) (heff (run K rules_validators (node_wiring addr) evs)) /\
    (forall h c, e = HWrite h c -> c_bid c = b).
Proof. exact gate_ordered_node. Qed.
Print Assumptions C01_gate_ordered.

(* The deadline of handleBid is the literal 5 s of the source (gen/Generated.v) ... *)
Theorem C01_deadline_is_5s : Generated.c01_deadline_ns = [5000000000%Z] /\ deadline_ms = 5000.
Proof. exact (conj deadline_literal deadline_ms_value). Qed.
Print Assumptions C01_deadline_is_5s.

(* ... and whatever reaches a waiting handler 5000 ms or more after it started waiting -- an ACCEPTED
   decision, store and write results, anything -- comes after its deadline step: the handler returns the
   context error and its complete trace is that return (no signature, no transaction, no commitment).
   [timed_history h t pre after] is the history the driver's true-deadline cases are judged by. *)
Theorem C01_late_events_no_effect : forall K addr pre after h b t,
  5000 <= t ->
  nget h (hs (run K rules_validators (node_wiring addr) pre)) = Some (HInSvc b false) ->
  (exists b0, nget h (calls (svc (run K rules_validators (node_wiring addr) pre))) = Some (PHanded b0)) ->
  let S := run K rules_validators (node_wiring addr) (timed_history h t pre after) in
  nget h (hs S) = Some (HDone RCtx) /\ hist h S = [HReturn h RCtx].
Proof. exact (fun K addr => late_events_no_effect K rules_validators (node_wiring addr)). Qed.
Print Assumptions C01_late_events_no_effect.

(* No history panics the service, so the "nothing happens after a panic" clause of [step] is dead; and no
   handler reaches the modelled crash of StoreCommitment. *)
Theorem C01_never_panicked : forall K V W evs, panicked (svc (run K V W evs)) = false.
Proof. exact never_panicked. Qed.
Print Assumptions C01_never_panicked.

Theorem C01_no_panic : forall K addr evs h,
  nget h (hs (run K rules_validators (node_wiring addr) evs)) <> Some (HDone RPanic).
Proof. exact no_rpanic_node. Qed.
Print Assumptions C01_no_panic.

(* The same with the signer model in place of the VerifyBid oracle (C02_sound_bid): in every history
   whose Arrive events carry [Signer.verify_bid K cr] of the bid read from the wire and the allowance
   answer for the recovered signer ([signed_history]), a commit effect implies that the presented
   digest is [bid_hash] of exactly the bid's fields, that the 65-byte signature recovers to a key
   passing the low-S check whose address a is the one the allowance check approved, that the bid's own
   fields satisfy the published format rules, and that the engine accepted exactly this digest. *)
Theorem C01_gate_signed : forall (K : bytes -> bytes) (cr : crypto) addr evs e,
  signed_history K cr evs ->
  In e (heff (run K rules_validators (node_wiring addr) evs)) -> is_commit_effect e = true ->
  exists role allowf w d sg a,
    In (Arrive (eff_handler e) role (oracle_of K cr allowf (Some w))) evs /\
    role = role_bidder /\
    Eip712.b_dig w = Some d /\ Eip712.b_sig w = Some sg /\ bid_hash K w = Ok d /\ length sg = 65%nat /\
    (exists v pk, nth_error sg 64 = Some v /\ recover cr d (firstn 64 sg ++ [v_to01 v]) = Ok pk /\
                  verify_rs cr pk d (firstn 64 sg) = true /\ a = addr_of cr pk) /\
    allowf a = true /\
    provider_bid_ok (split comma (Eip712.b_tx w)) (Eip712.b_amt w) (Eip712.b_bn w) d (Eip712.b_ds w) (Eip712.b_de w) = true /\
    (exists sid, In (Lookup sid d status_accepted) evs) /\
    In (HTake (eff_handler e) status_accepted) (heff (run K rules_validators (node_wiring addr) evs)) /\
    (forall h c, e = HWrite h c -> c_bid c = of_wire w).
Proof. exact gate_signed. Qed.
Print Assumptions C01_gate_signed.

(* Every other handler -- wrong role, unreadable or unverifiable bid, allowance refused, format
   refused, or no ACCEPTED decision for its digest anywhere in the history (reject, malformed status,
   silence, decisions for other digests) -- produces no commit effect at all. *)
Theorem C01_refusal : forall K addr evs h role o,
  In (Arrive h role o) evs ->
  nget h (arr (run K rules_validators (node_wiring addr) evs)) = Some (role, o) ->
  (gate_class role o <> None \/
   forall b, o_read o = Some b ->
     vbid rules_validators (to_engine b) = false \/ (forall sid, ~ In (Lookup sid (b_dig b) status_accepted) evs)) ->
  forall e, In e (heff (run K rules_validators (node_wiring addr) evs)) -> eff_handler e = h ->
            is_commit_effect e = false.
Proof. exact refusal_node. Qed.
Print Assumptions C01_refusal.

(* A commitment is written only after its settlement transaction was handed to the chain client at
   the configured contract and the client reported success. *)
Theorem C01_order : forall K addr evs h c,
  In (HWrite h c) (heff (run K rules_validators (node_wiring addr) evs)) ->
  In (HStored h true) (heff (run K rules_validators (node_wiring addr) evs)) /\
  exists amt, parse_bigint (b_amt (c_bid c)) = Some amt /\
              In (HSend h addr (calldata K amt c)) (heff (run K rules_validators (node_wiring addr) evs)).
Proof. exact order_node. Qed.
Print Assumptions C01_order.

(* The general form, for any validator and any wiring: the engine-side conjuncts hold when the
   processor is the provider-API service (with the auto-accepting processor they do not:
   ex_noop_processor_refuted). *)
Theorem C01_gate_any_wiring : forall K V W evs e,
  In e (heff (run K V W evs)) -> is_commit_effect e = true ->
  exists role o b a,
    In (Arrive (eff_handler e) role o) evs /\
    role = role_bidder /\ o_read o = Some b /\ o_verify o = VOk a /\ o_allow o = true /\
    (w_processor_api W = true ->
       vbid V (to_engine b) = true /\ exists sid, In (Lookup sid (b_dig b) status_accepted) evs) /\
    In (HTake (eff_handler e) status_accepted) (heff (run K V W evs)) /\
    (forall h c, e = HWrite h c -> c_bid c = b).
Proof. exact gate. Qed.
Print Assumptions C01_gate_any_wiring.

(* ---- "the bidder gets an error or nothing": return class and exact trace of every refusal --------
   [hist h s] is the list of all effects of handler h, newest first; [shape] (proofs/
   PreconfProvider_traces.v) classifies it completely by the handler's control state. *)

(* For every event list and every handler: the complete effect trace is the one determined by the
   control state -- nothing before the decision; Take,Sign,Send while storing; +Stored,Write while
   writing; and for a returned handler exactly the trace of its return class. *)
Theorem C01_trace : forall K addr evs h,
  shape K (node_wiring addr) h (nget h (hs (run K rules_validators (node_wiring addr) evs)))
        (hist h (run K rules_validators (node_wiring addr) evs)).
Proof. exact (fun K addr => handler_trace K rules_validators (node_wiring addr)). Qed.
Print Assumptions C01_trace.

(* role / read / signature / allowance refusals: the handler has returned ErrInvalidBidderTypeForBid
   (RRole), the read error (RRead), InvalidArgument (RVerify), FailedPrecondition (RAllow), and that
   return is its only effect. *)
Theorem C01_refusal_gate : forall K addr evs h role o r,
  nget h (arr (run K rules_validators (node_wiring addr) evs)) = Some (role, o) -> gate_class role o = Some r ->
  (r = RRole \/ r = RRead \/ r = RVerify \/ r = RAllow) /\
  nget h (hs (run K rules_validators (node_wiring addr) evs)) = Some (HDone r) /\
  hist h (run K rules_validators (node_wiring addr) evs) = [HReturn h r].
Proof.
  exact (fun K addr evs h role o r Ha Hg =>
           conj (gate_class_range K role o r Hg) (refusal_gate K rules_validators (node_wiring addr) evs h role o r Ha Hg)).
Qed.
Print Assumptions C01_refusal_gate.

(* format refusal: the validation error of ProcessBid (RFormat), only effect. *)
Theorem C01_refusal_format : forall K addr evs h role o b,
  nget h (arr (run K rules_validators (node_wiring addr) evs)) = Some (role, o) ->
  gate_class role o = None -> o_read o = Some b -> vbid rules_validators (to_engine b) = false ->
  nget h (hs (run K rules_validators (node_wiring addr) evs)) = Some (HDone RFormat) /\
  hist h (run K rules_validators (node_wiring addr) evs) = [HReturn h RFormat].
Proof.
  exact (fun K addr evs h role o b Ha Hg Hr Hv =>
           refusal_format K rules_validators (node_wiring addr) evs h role o b Ha Hg Hr (node_wiring_api addr) Hv).
Qed.
Print Assumptions C01_refusal_format.

(* engine said REJECTED: Internal "bid rejected" (RRejected); trace = receipt of the status, return. *)
Theorem C01_refusal_reject : forall K addr evs h,
  In (HTake h status_rejected) (heff (run K rules_validators (node_wiring addr) evs)) ->
  nget h (hs (run K rules_validators (node_wiring addr) evs)) = Some (HDone RRejected) /\
  hist h (run K rules_validators (node_wiring addr) evs) = [HReturn h RRejected; HTake h status_rejected].
Proof. exact (fun K addr => refusal_reject K rules_validators (node_wiring addr)). Qed.
Print Assumptions C01_refusal_reject.

(* a status outside {ACCEPTED, REJECTED} (never delivered by the service: C12_at_most_once): nil, nothing. *)
Theorem C01_refusal_undefined_status : forall K addr evs h stv,
  In (HTake h stv) (heff (run K rules_validators (node_wiring addr) evs)) ->
  stv <> status_accepted -> stv <> status_rejected ->
  nget h (hs (run K rules_validators (node_wiring addr) evs)) = Some (HDone RNil) /\
  hist h (run K rules_validators (node_wiring addr) evs) = [HReturn h RNil; HTake h stv].
Proof. exact (fun K addr => refusal_other_status K rules_validators (node_wiring addr)). Qed.
Print Assumptions C01_refusal_undefined_status.

(* silence: when the deadline fires on a waiting handler (or the context ends while the bid is still
   offered) the handler returns the context error (RCtx), and that return is its only effect. *)
Theorem C01_refusal_deadline : forall K addr evs h,
  nget h (hs (run K rules_validators (node_wiring addr) evs)) = Some (HDone RCtx) ->
  hist h (run K rules_validators (node_wiring addr) evs) = [HReturn h RCtx].
Proof. exact (fun K addr => refusal_deadline K rules_validators (node_wiring addr)). Qed.
Print Assumptions C01_refusal_deadline.

Theorem C01_deadline_step : forall K addr s h b,
  panicked (svc s) = false -> nget h (hs s) = Some (HInSvc b false) ->
  (exists b0, nget h (calls (svc s)) = Some (PHanded b0)) ->
  nget h (hs (step K rules_validators (node_wiring addr) s (DeadlineFire h))) = Some (HDone RCtx).
Proof. exact (fun K addr => deadline_step K rules_validators (node_wiring addr)). Qed.
Print Assumptions C01_deadline_step.

(* late and duplicate decisions, and anything else that happens after a handler has returned, change
   neither its state nor its trace. *)
Theorem C01_returned_is_final : forall K addr evs evs' h r,
  nget h (hs (run K rules_validators (node_wiring addr) evs)) = Some (HDone r) ->
  nget h (hs (run K rules_validators (node_wiring addr) (evs ++ evs'))) = Some (HDone r) /\
  hist h (run K rules_validators (node_wiring addr) (evs ++ evs')) = hist h (run K rules_validators (node_wiring addr) evs).
Proof. exact (fun K addr => done_final K rules_validators (node_wiring addr)). Qed.
Print Assumptions C01_returned_is_final.

(* Summary: a handler that returned with a refusal class (role, read, verify, allowance, format,
   context/deadline, rejected, nil) has no effect other than that return and, at most, the receipt of
   a status that is not ACCEPTED: no commitment signature, settlement transaction or commitment message. *)
Theorem C01_error_or_nothing : forall K addr evs h r,
  nget h (hs (run K rules_validators (node_wiring addr) evs)) = Some (HDone r) -> refusal_class r = true ->
  forall e, In e (heff (run K rules_validators (node_wiring addr) evs)) -> eff_handler e = h ->
            e = HReturn h r \/ exists stv, e = HTake h stv /\ stv <> status_accepted.
Proof. exact (fun K addr => error_or_nothing K rules_validators (node_wiring addr)). Qed.
Print Assumptions C01_error_or_nothing.
(* Outside these theorems: the Go select choice when a decision and the deadline are ready at the same
   instant (either order is an event list, both are covered). *)

(* ---- composition with C12, C07, C03, C02 (and C05, C19) (proofs/Compose_provider.v) -------------------------
   Two oracle values of the machine are instantiated: VerifyBid / allowance in [Arrive] ([signed_history],
   as in C01_gate_signed) and ConstructPreConfirmation in [TakeDecision]: [Compose_provider.constructed_history
   K cr] says that the answer a handler consumes is the signer model's ConstructPreConfirmation
   ([Compose_provider.kres K cr], a rendering of Signer.construct_preconf K cr) on the bid that very handler
   holds.  [Compose_provider.to_wire b] is that bid as the *Bid handed to the signer (digest and signature
   present).  K is an arbitrary hash function, cr an arbitrary crypto library.
   Non-vacuity: both premises hold of the accepting history for every verified, funded, well-formed bid
   (Compose_provider.accepting_run_signed, accepting_run_constructed, accepting_run_writes), instance
   Compose_provider.ex_provider_premises / ex_provider_writes. *)
From MevVerif Require lib.Abi proofs.Compose_provider.

(* C01 o C12 o C07 o C03 o C02.  Every commitment written to a bidder
   (a) embeds the very bid its handler read from the wire, which VerifyBid of the signer model accepted (signer a,
       allowance yes), whose digest is its own bid hash, which satisfies the published format rules and whose
       digest the engine accepted;
   (c) has the digest and signature ConstructPreConfirmation of the signer model produces for that bid (the
       signature is the node key's answer for the digest) and, under the recover-after-sign premise of
       C02_roundtrip_commitment, verifies to the provider's own address;
   (b) for Go int64 numbers: the bid digest is the generic EIP-712 PreConfBid hash and the commitment digest the
       generic EIP-712 PreConfCommitment hash of the bid's values, bid digest and bid signature (C03; accepted bids
       lie in its domain: amount in (0, 2^64), numbers positive);
   (d) was preceded by a successful Send to the configured contract whose calldata decodes (C07_args) to amount,
       block number, tx string, decay window, bid signature and that commitment's signature. *)
Theorem C01_written_commitment_is_eip712_and_settled :
  forall (K : bytes -> bytes) (cr : crypto) addr evs h c,
  signed_history K cr evs ->
  Compose_provider.constructed_history K cr rules_validators (node_wiring addr) evs ->
  In (HWrite h c) (heff (run K rules_validators (node_wiring addr) evs)) ->
  let S := run K rules_validators (node_wiring addr) evs in
  let b := c_bid c in
  let w := Compose_provider.to_wire b in
  (exists allowf a,
     In (Arrive h role_bidder (oracle_of K cr allowf (Some w))) evs /\
     verify_bid K cr w = Ok a /\ allowf a = true /\ bid_hash K w = Ok (b_dig b) /\
     provider_bid_ok (split comma (b_tx b)) (b_amt b) (b_bn b) (b_dig b) (b_ds b) (b_de b) = true /\
     (exists sid, In (Lookup sid (b_dig b) status_accepted) evs)) /\
  (construct_preconf K cr (Some w) =
     Ok {| Eip712.c_bid := Some w; Eip712.c_dig := Some (c_dig c); Eip712.c_sig := Some (c_sig c); Eip712.c_prov := [] |} /\
   sign_normalised cr (c_dig c) = Ok (c_sig c)) /\
  (Compose_provider.int64_fields b ->
   exists A, parse_dec (b_amt b) = Some A /\ 0 < A < 18446744073709551616 /\
     b_dig b = eip712_bid K (b_tx b) A (Z.to_N (b_bn b)) (Z.to_N (b_ds b)) (Z.to_N (b_de b)) /\
     c_dig c = eip712_commitment K (b_tx b) A (Z.to_N (b_bn b)) (Z.to_N (b_ds b)) (Z.to_N (b_de b))
                                 (b_dig b) (b_sig b)) /\
  (forall pk,
     (forall hh sg, sign cr hh = Ok sg ->
        length sg = 65%nat /\ (nth_error sg 64 = Some 0 \/ nth_error sg 64 = Some 1) /\
        recover cr hh sg = Ok pk /\ verify_rs cr pk hh (firstn 64 sg) = true) ->
     verify_preconf K cr {| Eip712.c_bid := Some w; Eip712.c_dig := Some (c_dig c); Eip712.c_sig := Some (c_sig c);
                            Eip712.c_prov := [] |} = Ok (addr_of cr pk)) /\
  (In (HStored h true) (heff S) /\
   exists amt, parse_bigint (b_amt b) = Some amt /\ (0 < amt < 18446744073709551616)%Z /\
     In (HSend h addr (calldata K amt c)) (heff S) /\
     ((4 <= length (K (Abi.method_sig store_name store_tys)))%nat -> Compose_provider.int64_fields b ->
      wf_bytes (b_tx b) -> wf_bytes (b_sig b) -> wf_bytes (c_sig c) ->
      Abi.blen (Abi.encode (store_args amt c)) < Abi.two63 ->
      Abi.decode_call store_tys (calldata K amt c) =
      Some (Abi.selector K (Abi.method_sig store_name store_tys),
            [Abi.VUint64 (Z.to_N amt); Abi.VUint64 (Z.to_N (b_bn b)); Abi.VString (b_tx b);
             Abi.VUint64 (Z.to_N (b_ds b)); Abi.VUint64 (Z.to_N (b_de b));
             Abi.VBytes (b_sig b); Abi.VBytes (c_sig c)]))).
Proof. exact Compose_provider.written_commitment_is_eip712_and_settled. Qed.
Print Assumptions C01_written_commitment_is_eip712_and_settled.

(* A fact about the machine alone, used above: every written commitment was built by its handler from a
   ConstructPreConfirmation answer (digest, signature) it consumed while holding the embedded bid. *)
Theorem C01_written_from_decision : forall K V W evs h c,
  In (HWrite h c) (heff (run K V W evs)) ->
  exists pre post auto,
    evs = pre ++ TakeDecision h (KOk (c_dig c) (c_sig c)) :: post /\
    nget h (hs (run K V W pre)) = Some (HInSvc (c_bid c) auto).
Proof. exact Compose_provider.written_from_decision. Qed.
Print Assumptions C01_written_from_decision.

(* The accepting history exists for every bid: when VerifyBid of the signer model accepts the bid as read from the
   wire, the allowance check says yes for its signer, the format rules hold and ConstructPreConfirmation of the
   signer model succeeds, then the history "arrive, engine takes the bid and accepts its digest, decision taken,
   store ok, write ok" ends with exactly that commitment written (and satisfies both premises above). *)
Theorem C01_accepting_run_writes :
  forall (K : bytes -> bytes) (cr : crypto) addr (w : Eip712.bid) (allowf : bytes -> bool) a d sg h sid,
  verify_bid K cr w = Ok a -> allowf a = true ->
  vbid rules_validators (to_engine (of_wire w)) = true ->
  Compose_provider.kres K cr w = KOk d sg ->
  let evs := Compose_provider.accepting_run K cr w allowf h sid in
  Compose_provider.first_write h (heff (run K rules_validators (node_wiring addr) evs)) =
    Some {| c_bid := of_wire w; c_dig := d; c_sig := sg |} /\
  signed_history K cr evs /\
  Compose_provider.constructed_history K cr rules_validators (node_wiring addr) evs.
Proof.
  exact (fun K cr addr w allowf a d sg h sid V A F Kr =>
    conj (Compose_provider.accepting_run_writes K cr addr w allowf a d sg h sid V A F Kr)
      (conj (Compose_provider.accepting_run_signed K cr w allowf h sid)
            (Compose_provider.accepting_run_constructed K cr addr w allowf a h sid V A F))).
Qed.
Print Assumptions C01_accepting_run_writes.

(* C19 o C05 o C01 o C12 o C02 o C03: the provider's side of the full round trip (the bidder's side is
   C05_round_trip_honest, where the glue is spelled out).  For a request accepted by the bidder API rules and
   signed by an honest bidder node (SendBid with both signer oracles instantiated), on a provider node with the
   same hash function and signature library: the bidder's message as decoded passes VerifyBid recovering the
   bidder's address, satisfies the provider's published format rules (what the bidder API accepts, the provider
   accepts), ConstructPreConfirmation succeeds on it, and -- allowance yes -- the accepting history satisfies both
   instantiation premises and writes the commitment embedding exactly the bid the bidder sent. *)
From MevVerif Require model.BidderApi model.PreconfBidder proofs.NoPanic_proofs proofs.Compose_bidder.
Theorem C01_round_trip_honest :
  forall (K : bytes -> bytes) (rc : bytes -> bytes -> outcome bytes) (vr : bytes -> bytes -> bytes -> bool)
         (ao : bytes -> bytes) (signB signP : bytes -> outcome bytes),
  (forall m, (1 <= length (K m) <= 64)%nat) ->
  forall pkB pkP : bytes,
  (forall hh sg, signB hh = Ok sg ->
     length sg = 65%nat /\ (nth_error sg 64 = Some 0 \/ nth_error sg 64 = Some 1) /\
     rc hh sg = Ok pkB /\ vr pkB hh (firstn 64 sg) = true) ->
  (forall hh sg, signP hh = Ok sg ->
     length sg = 65%nat /\ (nth_error sg 64 = Some 0 \/ nth_error sg 64 = Some 1) /\
     rc hh sg = Ok pkP /\ vr pkP hh (firstn 64 sg) = true) ->
  (forall hh, exists sg, signP hh = Ok sg) ->
  forall rq : BidderApi.request,
  bidder_bid_ok (BidderApi.r_txs rq) (BidderApi.r_amount rq) (BidderApi.r_bn rq) (BidderApi.r_ds rq)
                (BidderApi.r_de rq) = true ->
  (BidderApi.r_bn rq <= int64_max)%Z -> (BidderApi.r_ds rq <= int64_max)%Z -> (BidderApi.r_de rq <= int64_max)%Z ->
  forall view D rn,
  PreconfBidder.send_bid
    (Compose_bidder.signer_oracles K {| recover := rc; verify_rs := vr; addr_of := ao; sign := signB |})
    (Compose_bidder.args_of (BidderApi.forward rq)) view D = PreconfBidder.SRun rn ->
  let crP := {| recover := rc; verify_rs := vr; addr_of := ao; sign := signP |} in
  let wB := NoPanic_proofs.conv_bid (PreconfBidder.r_sent rn) in
  verify_bid K crP wB = Ok (ao pkB) /\
  vbid rules_validators (to_engine (of_wire wB)) = true /\
  exists d sg,
    Compose_provider.kres K crP wB = KOk d sg /\
    forall addr h sid (allowf : bytes -> bool), allowf (ao pkB) = true ->
      let evs := Compose_provider.accepting_run K crP wB allowf h sid in
      signed_history K crP evs /\
      Compose_provider.constructed_history K crP rules_validators (node_wiring addr) evs /\
      Compose_provider.first_write h (heff (run K rules_validators (node_wiring addr) evs)) =
        Some {| c_bid := of_wire wB; c_dig := d; c_sig := sg |} /\
      Compose_provider.pbid_of (of_wire wB) = PreconfBidder.r_sent rn.
Proof. exact Compose_provider.round_trip_honest_provider_side. Qed.
Print Assumptions C01_round_trip_honest.

(* Every use of the node key, not only written commitments: whenever a handler hands a digest d to SignHash
   -- also when the signer then fails, the settlement submission fails or the write fails, so that no
   commitment is ever returned -- d is the commitment hash, as the signer model computes it, of the bid that
   very handler read from the wire, and that handler had passed the role check, VerifyBid and the allowance
   check.  Premise: the ConstructPreConfirmation answers consumed by handlers are the signer model's
   ([constructed_history]); non-vacuity: Compose_signed.ex_signed_digest. *)
From MevVerif Require proofs.Compose_signed.
Theorem C01_signed_digest : forall K cr addr evs h d,
  Compose_provider.constructed_history K cr rules_validators (node_wiring addr) evs ->
  In (HSign h d) (heff (run K rules_validators (node_wiring addr) evs)) ->
  exists o b a,
    In (Arrive h role_bidder o) evs /\ o_read o = Some b /\ o_verify o = VOk a /\ o_allow o = true /\
    commitment_hash K (Compose_provider.commit_stub (Compose_provider.to_wire b)) = Ok d.
Proof. exact Compose_signed.signed_digest_is_commitment_hash. Qed.
Print Assumptions C01_signed_digest.
