(* C01 -- No commitment without a verified, funded, well-formed and accepted bid.
   Statements only; every proof is [exact <lemma>].

   Machine (model/PreconfProvider.v on top of model/ProviderSvc.v): any number of concurrent
   handleBid handlers and decision streams; [run K V W evs] is the state after an arbitrary event
   list.  "Commit effects" of a handler: HSign (SignHash on the node key), HSend (transaction handed
   to the chain client), HWrite (commitment written to the bidder's stream).  The wiring is the one
   extracted from node.NewNode ([node_wiring], gen/Generated.v): the processor is the provider-API
   service whose validator is the published rule set, the store is the preconf contract at the
   configured address.  Signature verification and the allowance check are the answers the real
   signer / store gave (fields of the Arrive event). *)
From Coq Require Import List NArith ZArith Bool.
From MevVerif Require Import lib.Bytes model.Rules model.ProviderSvc model.PreconfProvider
  proofs.PreconfProvider_proofs.
Import ListNotations.
Open Scope N_scope.

(* Any signature, settlement transaction or commitment message of a handler implies: the peer was
   enrolled as a bidder, the bid was read, VerifyBid answered with a signer address, the allowance
   check said yes, the bid satisfies the published format rules, the engine sent ACCEPTED for exactly
   this bid's digest, and the handler itself received that status (so it was still waiting: a handler
   whose deadline fired has returned and does nothing further); a written commitment embeds this bid. *)
Theorem C01_gate : forall K addr evs e,
  In e (heff (run K rules_validators (node_wiring addr) evs)) -> is_commit_effect e = true ->
  exists role o b a,
    In (Arrive (eff_handler e) role o) evs /\
    role = role_bidder /\ o_read o = Some b /\ o_verify o = VOk a /\ o_allow o = true /\
    provider_bid_ok (e_txs (to_engine b)) (e_amt (to_engine b)) (e_bn (to_engine b)) (e_dig (to_engine b))
                    (e_ds (to_engine b)) (e_de (to_engine b)) = true /\
    (exists sid, In (Lookup sid (b_dig b) status_accepted) evs) /\
    In (HTake (eff_handler e) status_accepted) (heff (run K rules_validators (node_wiring addr) evs)) /\
    (forall h c, e = HWrite h c -> c_bid c = b).
Proof. exact gate_node. Qed.
Print Assumptions C01_gate.

(* Every other handler -- wrong role, unreadable or unverifiable bid, allowance refused, format
   refused, or no ACCEPTED decision for its digest anywhere in the history (reject, malformed status,
   silence, decisions for other digests) -- produces no commit effect at all. *)
Theorem C01_refusal : forall K addr evs h role o,
  In (Arrive h role o) evs ->
  nget h (arr (run K rules_validators (node_wiring addr) evs)) = Some (role, o) ->
  (gate_class role o <> None \/
   forall b, o_read o = Some b ->
     vbid rules_validators (to_engine b) = false \/ (forall sid, ~ In (Lookup sid (b_dig b) status_accepted) evs)) ->
  forall e, In e (heff (run K rules_validators (node_wiring addr) evs)) -> eff_handler e = h ->
            is_commit_effect e = false.
Proof. exact refusal_node. Qed.
Print Assumptions C01_refusal.

(* A commitment is written only after its settlement transaction was handed to the chain client at
   the configured contract and the client reported success. *)
Theorem C01_order : forall K addr evs h c,
  In (HWrite h c) (heff (run K rules_validators (node_wiring addr) evs)) ->
  In (HStored h true) (heff (run K rules_validators (node_wiring addr) evs)) /\
  exists amt, parse_bigint (b_amt (c_bid c)) = Some amt /\
              In (HSend h addr (calldata K amt c)) (heff (run K rules_validators (node_wiring addr) evs)).
Proof. exact order_node. Qed.
Print Assumptions C01_order.

(* The general form, for any validator and any wiring: the engine-side conjuncts hold when the
   processor is the provider-API service (with the auto-accepting processor they do not:
   ex_noop_processor_refuted). *)
Theorem C01_gate_any_wiring : forall K V W evs e,
  In e (heff (run K V W evs)) -> is_commit_effect e = true ->
  exists role o b a,
    In (Arrive (eff_handler e) role o) evs /\
    role = role_bidder /\ o_read o = Some b /\ o_verify o = VOk a /\ o_allow o = true /\
    (w_processor_api W = true ->
       vbid V (to_engine b) = true /\ exists sid, In (Lookup sid (b_dig b) status_accepted) evs) /\
    In (HTake (eff_handler e) status_accepted) (heff (run K V W evs)) /\
    (forall h c, e = HWrite h c -> c_bid c = b).
Proof. exact gate. Qed.
Print Assumptions C01_gate_any_wiring.
(* Not proved here (named in the evidence): that the return value of a refusing handler is an error
   rather than nil is covered by the correspondence check only (return codes are compared case by
   case); "before the deadline" is expressed through the handler's own receipt of the status (HTake),
   not as a position in the effect list. *)
