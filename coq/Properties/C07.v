(* C07 -- Settlement transaction carries exactly the commitment returned to the bidder.
   Statements only; every proof is [exact <lemma>]. *)
From Coq Require Import String List NArith ZArith Bool.
From MevVerif Require Import lib.Bytes lib.Abi model.Rules model.ProviderSvc model.PreconfProvider
  proofs.PreconfProvider_proofs proofs.PreconfProvider_traces.
Import ListNotations.
Open Scope N_scope.

(* The calldata built for commitment c decodes (go-ethereum ABI) to the method selector and the
   argument tuple of c, for every commitment and every amount: uint64(bid.Int64()), uint64(int64)
   conversions as the code performs them ... *)
Theorem C07_calldata : forall K amt c,
  (4 <= length (K (Abi.method_sig store_name store_tys)))%nat ->
  wf_bytes (b_tx (c_bid c)) -> wf_bytes (b_sig (c_bid c)) -> wf_bytes (c_sig c) ->
  Abi.blen (Abi.encode (store_args amt c)) < Abi.two63 ->
  Abi.decode_call store_tys (calldata K amt c) =
  Some (Abi.selector K (Abi.method_sig store_name store_tys), store_args amt c).
Proof. exact calldata_decodes. Qed.
Print Assumptions C07_calldata.

(* ... and on the validated domain (published format rules hold, int64 fields) the decoded
   arguments are, field by field, the decimal bid amount, block number, transaction-hash string,
   decay window, bid signature and commitment signature of that very commitment. *)
Theorem C07_args : forall K c amt,
  (4 <= length (K (Abi.method_sig store_name store_tys)))%nat ->
  vbid rules_validators (to_engine (c_bid c)) = true ->
  (b_bn (c_bid c) < 9223372036854775808)%Z -> (b_ds (c_bid c) < 9223372036854775808)%Z ->
  (b_de (c_bid c) < 9223372036854775808)%Z ->
  wf_bytes (b_tx (c_bid c)) -> wf_bytes (b_sig (c_bid c)) -> wf_bytes (c_sig c) ->
  Abi.blen (Abi.encode (store_args amt c)) < Abi.two63 ->
  parse_bigint (b_amt (c_bid c)) = Some amt ->
  (0 < amt < 18446744073709551616)%Z /\
  Abi.decode_call store_tys (calldata K amt c) =
  Some (Abi.selector K (Abi.method_sig store_name store_tys),
        [Abi.VUint64 (Z.to_N amt); Abi.VUint64 (Z.to_N (b_bn (c_bid c))); Abi.VString (b_tx (c_bid c));
         Abi.VUint64 (Z.to_N (b_ds (c_bid c))); Abi.VUint64 (Z.to_N (b_de (c_bid c)));
         Abi.VBytes (b_sig (c_bid c)); Abi.VBytes (c_sig c)]).
Proof. exact args_validated. Qed.
Print Assumptions C07_args.

(* Whenever a commitment c is written to a bidder, the history contains the submission of exactly
   calldata(c) to the configured contract, and the chain client's success for that handler. *)
Theorem C07_order : forall K addr evs h c,
  In (HWrite h c) (heff (run K rules_validators (node_wiring addr) evs)) ->
  In (HStored h true) (heff (run K rules_validators (node_wiring addr) evs)) /\
  exists amt, parse_bigint (b_amt (c_bid c)) = Some amt /\
              In (HSend h addr (calldata K amt c)) (heff (run K rules_validators (node_wiring addr) evs)).
Proof. exact order_node. Qed.
Print Assumptions C07_order.

(* The same with the order spelled out: the complete effect trace of the handler (newest first) ends with
   Take ACCEPTED, Sign, Send(calldata c) to the configured contract, Stored ok, Write c -- the submission
   precedes its success, which precedes the write; exactly one submission per commitment; after the write
   at most the handler's return. *)
Theorem C07_order_explicit : forall K addr evs h c,
  let S := run K rules_validators (node_wiring addr) evs in
  In (HWrite h c) (heff S) ->
  exists amt pre, parse_bigint (b_amt (c_bid c)) = Some amt /\
    hist h S = pre ++ [HWrite h c; HStored h true; HSend h addr (calldata K amt c);
                       HSign h (c_dig c); HTake h status_accepted] /\
    (pre = [] \/ pre = [HReturn h RWritten] \/ pre = [HReturn h RWriteErr]).
Proof. exact write_order_explicit. Qed.
Print Assumptions C07_order_explicit.

(* The argument order of handleBid -> StoreCommitment -> Pack -> Send in the Go source, pinned as source
   text regenerated on every run (a swap of two same-typed arguments at a call site, or of two same-typed parameters in the signature of
   StoreCommitment, breaks these equalities); [store_args]
   lists the values in this order. *)
Theorem C07_argument_order :
  Generated.c07_store_call =
  [[bos "ctx"; bos "bidAmt"; bos "uint64(preConfirmation.Bid.BlockNumber)"; bos "preConfirmation.Bid.TxHash";
    bos "uint64(preConfirmation.Bid.DecayStartTimestamp)"; bos "uint64(preConfirmation.Bid.DecayEndTimestamp)";
    bos "preConfirmation.Bid.Signature"; bos "preConfirmation.Signature"]] /\
  Generated.c07_store_params =
  [bos "ctx context.Context"; bos "bid *big.Int"; bos "blockNumber uint64"; bos "txHash string";
   bos "deacyStartTimeStamp uint64"; bos "decayEndTimeStamp uint64"; bos "bidSignature []byte";
   bos "commitmentSignature []byte"] /\
  Generated.c07_pack_args =
  [[bos """storeCommitment"""; bos "uint64(bid.Int64())"; bos "blockNumber"; bos "txHash"; bos "deacyStartTimeStamp";
    bos "decayEndTimeStamp"; bos "bidSignature"; bos "commitmentSignature"]] /\
  Generated.c07_send_args =
  [[bos "ctx"; bos "&evmclient.TxRequest{ To: &p.preconfContractAddr, CallData: callData, }"]].
Proof. exact (conj store_call_order (conj store_params_order (conj pack_args_order send_args_wiring))). Qed.
Print Assumptions C07_argument_order.
(* The path from the TxRequest{To, CallData} handed to client.Send to the transaction that reaches the node
   (evmclient.Send / newTx) is model/EvmTx.v; see C07_transaction_carries_commitment at the end of this file.
   Outside the model: the RLP bytes and the signature of the raw transaction (the driver class raw-tx decodes
   them with go-ethereum and recovers the sender on every case). *)

(* Headline, without any premise about the history: whenever a commitment c has been written to a bidder
   (any event list), and its fields are Go values (int64 block number / timestamps, byte strings, calldata
   shorter than 2^63), a transaction to the configured contract was submitted and reported successful whose
   ABI-decoded arguments are, field by field, the decimal bid amount (in [1,2^64)), block number,
   transaction-hash string, decay window, bid signature and commitment signature of that very commitment. *)
Theorem C07_written_implies_settled : forall K addr evs h c,
  let S := run K rules_validators (node_wiring addr) evs in
  In (HWrite h c) (heff S) ->
  (4 <= length (K (Abi.method_sig store_name store_tys)))%nat ->
  (b_bn (c_bid c) < 9223372036854775808)%Z -> (b_ds (c_bid c) < 9223372036854775808)%Z ->
  (b_de (c_bid c) < 9223372036854775808)%Z ->
  wf_bytes (b_tx (c_bid c)) -> wf_bytes (b_sig (c_bid c)) -> wf_bytes (c_sig c) ->
  (forall amt, Abi.blen (Abi.encode (store_args amt c)) < Abi.two63) ->
  exists amt cd,
    (0 < amt < 18446744073709551616)%Z /\ parse_bigint (b_amt (c_bid c)) = Some amt /\
    In (HSend h addr cd) (heff S) /\ In (HStored h true) (heff S) /\
    Abi.decode_call store_tys cd =
    Some (Abi.selector K (Abi.method_sig store_name store_tys),
          [Abi.VUint64 (Z.to_N amt); Abi.VUint64 (Z.to_N (b_bn (c_bid c))); Abi.VString (b_tx (c_bid c));
           Abi.VUint64 (Z.to_N (b_ds (c_bid c))); Abi.VUint64 (Z.to_N (b_de (c_bid c)));
           Abi.VBytes (b_sig (c_bid c)); Abi.VBytes (c_sig c)]).
Proof. exact written_implies_settled. Qed.
Print Assumptions C07_written_implies_settled.
(* Every transaction the handlers submit goes to the configured contract. *)
Theorem C07_destination : forall K addr evs h to cd,
  In (HSend h to cd) (heff (run K rules_validators (node_wiring addr) evs)) -> to = addr.
Proof. exact (fun K addr => send_destination K rules_validators (node_wiring addr)). Qed.
Print Assumptions C07_destination.

(* If the submission fails, the bidder receives an error instead of a commitment: for every event list,
   a handler whose Send failed has returned Internal "failed to store commitment" (RStore), and no
   commitment was or will ever be written by it (the statement holds for every extension of the list). *)
Theorem C07_store_failure : forall K addr evs h,
  In (HStored h false) (heff (run K rules_validators (node_wiring addr) evs)) ->
  nget h (hs (run K rules_validators (node_wiring addr) evs)) = Some (HDone RStore) /\
  In (HReturn h RStore) (heff (run K rules_validators (node_wiring addr) evs)) /\
  forall c, ~ In (HWrite h c) (heff (run K rules_validators (node_wiring addr) evs)).
Proof. exact (fun K addr => store_failure K rules_validators (node_wiring addr)). Qed.
Print Assumptions C07_store_failure.

(* ---- composition with C01, C03, C02 (proofs/Compose_provider.v) ---------------------------------------------
   VerifyBid and ConstructPreConfirmation instantiated by the signer model (model/Signer.v) for an arbitrary
   hash function K and crypto library cr ([signed_history], [Compose_provider.constructed_history], see
   Properties/C01.v).  Non-vacuity: Compose_provider.ex_provider_premises, ex_provider_writes. *)
From MevVerif Require model.Eip712 model.Signer proofs.PreconfProvider_signed proofs.Compose_provider.

(* C07 o C01 o C03 o C02.  What is settled is what is signed.  For every commitment written to a bidder (Go int64
   numbers, byte-valued strings): the transaction the chain client accepted beforehand went to the configured
   contract and its calldata decodes to (A, block number, tx string, decay window, bid signature, commitment
   signature), where the commitment signature is the provider key's signature of the commitment digest and that
   digest is the generic EIP-712 PreConfCommitment hash of exactly (tx string, A, block number, decay window, bid
   digest, bid signature). *)
Theorem C07_settled_equals_signed :
  forall (K : bytes -> bytes) (cr : Signer.crypto) addr evs h c,
  PreconfProvider_signed.signed_history K cr evs ->
  Compose_provider.constructed_history K cr rules_validators (node_wiring addr) evs ->
  In (HWrite h c) (heff (run K rules_validators (node_wiring addr) evs)) ->
  let S := run K rules_validators (node_wiring addr) evs in
  let b := c_bid c in
  Compose_provider.int64_fields b -> (4 <= length (K (Abi.method_sig store_name store_tys)))%nat ->
  wf_bytes (b_tx b) -> wf_bytes (b_sig b) -> wf_bytes (c_sig c) ->
  exists A,
    parse_dec (b_amt b) = Some A /\ 0 < A < 18446744073709551616 /\
    In (HStored h true) (heff S) /\ In (HSend h addr (calldata K (Z.of_N A) c)) (heff S) /\
    (Abi.blen (Abi.encode (store_args (Z.of_N A) c)) < Abi.two63 ->
     Abi.decode_call store_tys (calldata K (Z.of_N A) c) =
     Some (Abi.selector K (Abi.method_sig store_name store_tys),
           [Abi.VUint64 A; Abi.VUint64 (Z.to_N (b_bn b)); Abi.VString (b_tx b);
            Abi.VUint64 (Z.to_N (b_ds b)); Abi.VUint64 (Z.to_N (b_de b));
            Abi.VBytes (b_sig b); Abi.VBytes (c_sig c)])) /\
    Signer.sign_normalised cr
      (Eip712.eip712_commitment K (b_tx b) A (Z.to_N (b_bn b)) (Z.to_N (b_ds b)) (Z.to_N (b_de b))
                                (b_dig b) (b_sig b)) = Ok (c_sig c) /\
    c_dig c = Eip712.eip712_commitment K (b_tx b) A (Z.to_N (b_bn b)) (Z.to_N (b_ds b)) (Z.to_N (b_de b))
                                       (b_dig b) (b_sig b).
Proof. exact Compose_provider.settled_equals_signed. Qed.
Print Assumptions C07_settled_equals_signed.

(* ---- composition with the chain client (model/EvmTx.v: evmclient.Send, newTx, suggestMaxFeeAndTipCap) --------
   Non-vacuity: EvmTx_proofs.ex_store_accepted, PreconfProvider_traces (a written commitment exists). *)
From MevVerif Require model.EvmSend model.EvmTx proofs.EvmTx_proofs.

(* The source text of newTx's transaction literal, of the EstimateGas argument and of the sign / submit calls of
   Send, regenerated on every run: To: req.To, Data: req.CallData, Value: req.Value, Gas: req.GasLimit, the pair
   returned by suggestMaxFeeAndTipCap is (gasPrice, gasTipCap). *)
Theorem C07_newtx_wiring :
  Generated.c07_newtx_tx_args =
  [[bos "&types.DynamicFeeTx{ Nonce: nonce, ChainID: c.chainID, To: req.To, Value: req.Value, Gas: req.GasLimit, GasFeeCap: gasFeeCap, GasTipCap: gasTipCap, Data: req.CallData, }"]] /\
  Generated.c07_newtx_estimate_args =
  [[bos "ctx"; bos "ethereum.CallMsg{ From: c.owner, To: req.To, Data: req.CallData, Value: req.Value, }"]] /\
  Generated.c07_newtx_suggest_args = [[bos "ctx"; bos "req.GasPrice"]] /\
  nth 0 Generated.c07_suggest_stmts [] = bos "gasTipCap, err := c.ethClient.SuggestGasTipCap(ctx)" /\
  nth 3 Generated.c07_suggest_stmts [] = bos "return gasPrice, gasTipCap, nil" /\
  Generated.c07_send_sign_args = [[bos "txnData"; bos "c.chainID"]] /\
  Generated.c07_send_submit_args = [[bos "ctx"; bos "signedTx"]].
Proof. exact EvmTx_proofs.newtx_wiring. Qed.
Print Assumptions C07_newtx_wiring.

(* Whatever evmclient.Send puts on the wire for ANY request carries the request unchanged (destination, calldata,
   value or zero), the client's chain id, the gas limit given or else the node's estimate, the node's suggested tip,
   as fee cap the given GasPrice or else the node's suggested gas price, and the nonce EvmSend.get_nonce computes
   from the pending answer of this very request, inside the in-flight window; it was signed; and it is the last
   call made. *)
Theorem C07_wire_transaction_fields : forall chain owner ctr conf rq a c r calls t,
  EvmTx.send_tx chain owner ctr conf rq a = (c, r, calls) -> EvmTx.tx_of r = Some t ->
  EvmTx.tx_chain t = chain /\ EvmTx.tx_to t = EvmTx.rq_to rq /\ EvmTx.tx_data t = EvmTx.rq_data rq /\
  EvmTx.tx_value t = EvmTx.big_or_zero (EvmTx.rq_value rq) /\
  EvmTx_proofs.gas_of rq a = Some (EvmTx.tx_gas t) /\ EvmTx.a_tip a = Some (EvmTx.tx_tip t) /\
  EvmTx_proofs.fee_of rq a = Some (EvmTx.tx_feecap t) /\
  (exists p, EvmTx.a_pending a = Some p /\ EvmTx.tx_nonce t = snd (EvmSend.get_nonce ctr p) /\
             EvmSend.allow_nonce conf (EvmTx.tx_nonce t) = true) /\
  EvmTx.a_sign a = true /\
  last calls EvmTx.CPending = EvmTx.CSubmit t.
Proof. exact EvmTx_proofs.send_tx_fields. Qed.
Print Assumptions C07_wire_transaction_fields.

(* Headline through the chain client.  Whenever a commitment c has been written to a bidder (any event list; Go
   int64 numbers, byte strings, calldata shorter than 2^63): the handler called client.Send with StoreCommitment's
   request {To: configured contract, CallData: cd} and the client reported success, and EVERY transaction
   evmclient.Send can put on the wire for that request -- for all values of the client's nonce counter, the confirmed
   nonce, the chain id, and all answers of the chain node -- has To = the configured contract, carries no value,
   ABI-decodes field by field to the decimal bid amount (in [1,2^64)), block number, transaction-hash string, decay
   window, bid signature and commitment signature of that very commitment, has as gas limit, tip cap and fee cap the
   node's estimate and suggestions, and the nonce of the C08 machine; it was either taken or refused by the node
   (never followed by a crash). *)
Theorem C07_transaction_carries_commitment : forall K addr evs h c,
  let S := run K rules_validators (node_wiring addr) evs in
  In (HWrite h c) (heff S) ->
  (4 <= length (K (Abi.method_sig store_name store_tys)))%nat ->
  (b_bn (c_bid c) < 9223372036854775808)%Z -> (b_ds (c_bid c) < 9223372036854775808)%Z ->
  (b_de (c_bid c) < 9223372036854775808)%Z ->
  wf_bytes (b_tx (c_bid c)) -> wf_bytes (b_sig (c_bid c)) -> wf_bytes (c_sig c) ->
  (forall amt, Abi.blen (Abi.encode (store_args amt c)) < Abi.two63) ->
  exists amt cd,
    (0 < amt < 18446744073709551616)%Z /\ parse_bigint (b_amt (c_bid c)) = Some amt /\
    In (HSend h addr cd) (heff S) /\ In (HStored h true) (heff S) /\
    forall chain owner ctr conf a ctr' r calls t,
      EvmTx.send_tx chain owner ctr conf (EvmTx.store_request addr cd) a = (ctr', r, calls) -> EvmTx.tx_of r = Some t ->
      EvmTx.tx_to t = Some addr /\ EvmTx.tx_value t = 0%Z /\ EvmTx.tx_chain t = chain /\
      Abi.decode_call store_tys (EvmTx.tx_data t) =
        Some (Abi.selector K (Abi.method_sig store_name store_tys),
              [Abi.VUint64 (Z.to_N amt); Abi.VUint64 (Z.to_N (b_bn (c_bid c))); Abi.VString (b_tx (c_bid c));
               Abi.VUint64 (Z.to_N (b_ds (c_bid c))); Abi.VUint64 (Z.to_N (b_de (c_bid c)));
               Abi.VBytes (b_sig (c_bid c)); Abi.VBytes (c_sig c)]) /\
      EvmTx.a_est a = Some (EvmTx.tx_gas t) /\ EvmTx.a_tip a = Some (EvmTx.tx_tip t) /\
      EvmTx.a_price a = Some (EvmTx.tx_feecap t) /\
      (exists p, EvmTx.a_pending a = Some p /\ EvmTx.tx_nonce t = snd (EvmSend.get_nonce ctr p)) /\
      (r = EvmTx.TAccepted t \/ r = EvmTx.TRejected t).
Proof. exact EvmTx_proofs.transaction_carries_commitment. Qed.
Print Assumptions C07_transaction_carries_commitment.

(* Fee-cap arithmetic the code relies on (the comment in suggestMaxFeeAndTipCap: the node's gas price is suggested
   tip + base fee).  Under that reading of the node's answers the transaction built for a request without GasPrice is
   well formed (0 <= tip <= fee cap), includable at that base fee, and pays exactly the suggested price with the full
   tip ... *)
Theorem C07_fee_cap_covers_suggested_tip : forall chain owner ctr conf rq a c r calls t base tip,
  EvmTx.send_tx chain owner ctr conf rq a = (c, r, calls) -> EvmTx.tx_of r = Some t ->
  EvmTx.rq_price rq = None -> EvmTx.a_tip a = Some tip -> EvmTx.a_price a = Some (base + tip)%Z ->
  (0 <= base)%Z -> (0 <= tip)%Z ->
  EvmTx.tx_tip t = tip /\ EvmTx.tx_feecap t = (base + tip)%Z /\
  EvmTx.fee_wellformed t = true /\ EvmTx.includable t base = true /\
  EvmTx.effective_price t base = (base + tip)%Z /\ EvmTx.effective_tip t base = tip.
Proof. exact EvmTx_proofs.fee_facts_suggested. Qed.
Print Assumptions C07_fee_cap_covers_suggested_tip.

(* ... with no headroom: at a higher base fee the producer's tip shrinks by exactly the increase, and above
   base + tip the transaction cannot be included at all. *)
Theorem C07_fee_cap_no_headroom : forall t base tip base',
  EvmTx.tx_tip t = tip -> EvmTx.tx_feecap t = (base + tip)%Z -> (0 <= tip)%Z -> (base < base')%Z ->
  EvmTx.effective_tip t base' = (tip - (base' - base))%Z /\
  ((base + tip < base')%Z -> EvmTx.includable t base' = false).
Proof. exact EvmTx_proofs.fee_no_headroom. Qed.
Print Assumptions C07_fee_cap_no_headroom.

(* With a caller-chosen GasPrice the fee cap is that price while the tip stays the node's suggestion: the
   transaction is well formed exactly when the suggestion does not exceed the given price (a witness of an
   ill-formed accepted-by-the-model transaction: EvmTx_proofs.given_price_below_tip_illformed). *)
Theorem C07_given_price_wellformed_iff : forall chain owner ctr conf rq a c r calls t p tip,
  EvmTx.send_tx chain owner ctr conf rq a = (c, r, calls) -> EvmTx.tx_of r = Some t ->
  EvmTx.rq_price rq = Some p -> EvmTx.a_tip a = Some tip -> (0 <= tip)%Z ->
  (EvmTx.fee_wellformed t = true <-> (tip <= p)%Z).
Proof. exact EvmTx_proofs.fee_wellformed_given. Qed.
Print Assumptions C07_given_price_wellformed_iff.

(* "... a transaction to the CONFIGURED commitment-store contract": the configured address is the value of the flag
   preconf-contract, which cmd/main.go carries in the PreconfContract field of node.Options (tables regenerated from
   cmd/main.go on every run) and which node.NewNode turns into the address handed to the commitment store (regenerated
   source text); it depends on no other flag.  [addr] of the theorems above is that address. *)
From MevVerif Require model.Config proofs.Config_proofs.
Theorem C07_configured_contract_is_the_flag : forall env, exists o,
  Config.launch_options env = Some o
  /\ Config.o_preconf_contract o = env (bos "preconf-contract")
  /\ Config.o_provider_registry_contract o = env (bos "provider-registry-contract")
  /\ Config.o_bidder_registry_contract o = env (bos "bidder-registry-contract")
  /\ Config.node_contract_wiring_ok = true.
Proof. exact Config_proofs.configured_contracts_from_flags. Qed.
Print Assumptions C07_configured_contract_is_the_flag.

Theorem C07_configured_contract_depends_on_its_flag_only : forall env env' o o',
  env (bos "preconf-contract") = env' (bos "preconf-contract") ->
  Config.launch_options env = Some o -> Config.launch_options env' = Some o' ->
  Config.o_preconf_contract o = Config.o_preconf_contract o'.
Proof. exact Config_proofs.preconf_contract_depends_on_its_flag_only. Qed.
Print Assumptions C07_configured_contract_depends_on_its_flag_only.

(* What the signer signs IS the transaction of the model: the byte string handed to keccak256 and the signature
   (0x02 and the RLP list chain id, nonce, tip cap, fee cap, gas, destination, value, call data, empty access list;
   lib/Rlp.v, model/EvmTxWire.v) determines all eight fields, so two different model transactions never share a
   signing payload (and hence a signature check over it).  The driver compares these bytes with the ones
   go-ethereum hashes for every raw transaction (class raw-tx). *)
From MevVerif Require lib.Rlp model.EvmTxWire proofs.Rlp_proofs proofs.EvmTxWire_proofs.
Theorem C07_wire_payload_determines_fields : forall (t1 t2 : EvmTx.dyntx) (p : bytes),
  EvmTxWire.signing_payload t1 = Some p -> EvmTxWire.signing_payload t2 = Some p -> t1 = t2.
Proof. exact EvmTxWire_proofs.wire_payload_determines_fields. Qed.
Print Assumptions C07_wire_payload_determines_fields.

(* the RLP decoder reads back every item tree the encoder accepts (arbitrary nesting, every length below 2^64) *)
Theorem C07_rlp_decode_encode : forall (v : Rlp.item) (b : bytes),
  Rlp.encode v = Some b -> Rlp.decode b = Rlp.ROk v.
Proof. exact Rlp_proofs.rlp_decode_encode. Qed.
Print Assumptions C07_rlp_decode_encode.
