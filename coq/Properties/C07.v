(* C07 -- Settlement transaction carries exactly the commitment returned to the bidder.
   Statements only; every proof is [exact <lemma>]. *)
From Coq Require Import String List NArith ZArith Bool.
From MevVerif Require Import lib.Bytes lib.Abi model.Rules model.ProviderSvc model.PreconfProvider
  proofs.PreconfProvider_proofs proofs.PreconfProvider_traces.
Import ListNotations.
Open Scope N_scope.

(* The calldata built for commitment c decodes (go-ethereum ABI) to the method selector and the
   argument tuple of c, for every commitment and every amount: uint64(bid.Int64()), uint64(int64)
   conversions as the code performs them ... *)
Theorem C07_calldata : forall K amt c,
  (4 <= length (K (Abi.method_sig store_name store_tys)))%nat ->
  wf_bytes (b_tx (c_bid c)) -> wf_bytes (b_sig (c_bid c)) -> wf_bytes (c_sig c) ->
  Abi.blen (Abi.encode (store_args amt c)) < Abi.two63 ->
  Abi.decode_call store_tys (calldata K amt c) =
  Some (Abi.selector K (Abi.method_sig store_name store_tys), store_args amt c).
Proof. exact calldata_decodes. Qed.
Print Assumptions C07_calldata.

(* ... and on the validated domain (published format rules hold, int64 fields) the decoded
   arguments are, field by field, the decimal bid amount, block number, transaction-hash string,
   decay window, bid signature and commitment signature of that very commitment. *)
Theorem C07_args : forall K c amt,
  (4 <= length (K (Abi.method_sig store_name store_tys)))%nat ->
  vbid rules_validators (to_engine (c_bid c)) = true ->
  (b_bn (c_bid c) < 9223372036854775808)%Z -> (b_ds (c_bid c) < 9223372036854775808)%Z ->
  (b_de (c_bid c) < 9223372036854775808)%Z ->
  wf_bytes (b_tx (c_bid c)) -> wf_bytes (b_sig (c_bid c)) -> wf_bytes (c_sig c) ->
  Abi.blen (Abi.encode (store_args amt c)) < Abi.two63 ->
  parse_bigint (b_amt (c_bid c)) = Some amt ->
  (0 < amt < 18446744073709551616)%Z /\
  Abi.decode_call store_tys (calldata K amt c) =
  Some (Abi.selector K (Abi.method_sig store_name store_tys),
        [Abi.VUint64 (Z.to_N amt); Abi.VUint64 (Z.to_N (b_bn (c_bid c))); Abi.VString (b_tx (c_bid c));
         Abi.VUint64 (Z.to_N (b_ds (c_bid c))); Abi.VUint64 (Z.to_N (b_de (c_bid c)));
         Abi.VBytes (b_sig (c_bid c)); Abi.VBytes (c_sig c)]).
Proof. exact args_validated. Qed.
Print Assumptions C07_args.

(* Whenever a commitment c is written to a bidder, the history contains the submission of exactly
   calldata(c) to the configured contract, and the chain client's success for that handler. *)
Theorem C07_order : forall K addr evs h c,
  In (HWrite h c) (heff (run K rules_validators (node_wiring addr) evs)) ->
  In (HStored h true) (heff (run K rules_validators (node_wiring addr) evs)) /\
  exists amt, parse_bigint (b_amt (c_bid c)) = Some amt /\
              In (HSend h addr (calldata K amt c)) (heff (run K rules_validators (node_wiring addr) evs)).
Proof. exact order_node. Qed.
Print Assumptions C07_order.

(* The same with the order spelled out: the complete effect trace of the handler (newest first) ends with
   Take ACCEPTED, Sign, Send(calldata c) to the configured contract, Stored ok, Write c -- the submission
   precedes its success, which precedes the write; exactly one submission per commitment; after the write
   at most the handler's return. *)
Theorem C07_order_explicit : forall K addr evs h c,
  let S := run K rules_validators (node_wiring addr) evs in
  In (HWrite h c) (heff S) ->
  exists amt pre, parse_bigint (b_amt (c_bid c)) = Some amt /\
    hist h S = pre ++ [HWrite h c; HStored h true; HSend h addr (calldata K amt c);
                       HSign h (c_dig c); HTake h status_accepted] /\
    (pre = [] \/ pre = [HReturn h RWritten] \/ pre = [HReturn h RWriteErr]).
Proof. exact write_order_explicit. Qed.
Print Assumptions C07_order_explicit.

(* The argument order of handleBid -> StoreCommitment -> Pack -> Send in the Go source, pinned as source
   text regenerated on every run (a swap of two same-typed arguments at a call site, or of two same-typed parameters in the signature of
   StoreCommitment, breaks these equalities); [store_args]
   lists the values in this order. *)
Theorem C07_argument_order :
  Generated.c07_store_call =
  [[bos "ctx"; bos "bidAmt"; bos "uint64(preConfirmation.Bid.BlockNumber)"; bos "preConfirmation.Bid.TxHash";
    bos "uint64(preConfirmation.Bid.DecayStartTimestamp)"; bos "uint64(preConfirmation.Bid.DecayEndTimestamp)";
    bos "preConfirmation.Bid.Signature"; bos "preConfirmation.Signature"]] /\
  Generated.c07_store_params =
  [bos "ctx context.Context"; bos "bid *big.Int"; bos "blockNumber uint64"; bos "txHash string";
   bos "deacyStartTimeStamp uint64"; bos "decayEndTimeStamp uint64"; bos "bidSignature []byte";
   bos "commitmentSignature []byte"] /\
  Generated.c07_pack_args =
  [[bos """storeCommitment"""; bos "uint64(bid.Int64())"; bos "blockNumber"; bos "txHash"; bos "deacyStartTimeStamp";
    bos "decayEndTimeStamp"; bos "bidSignature"; bos "commitmentSignature"]] /\
  Generated.c07_send_args =
  [[bos "ctx"; bos "&evmclient.TxRequest{ To: &p.preconfContractAddr, CallData: callData, }"]].
Proof. exact (conj store_call_order (conj store_params_order (conj pack_args_order send_args_wiring))). Qed.
Print Assumptions C07_argument_order.
(* Not modelled here: the path from the TxRequest{To, CallData} handed to client.Send to the raw
   transaction that reaches the node (evmclient.newTx copies To and CallData; nonce, gas and signing are
   C08's model, which abstracts the payload).  The theorems speak about what is handed to client.Send; that
   the raw transaction carries the same destination and calldata is observed by the end-to-end class of the
   driver (real node.NewNode over an in-process JSON-RPC endpoint, eth_sendRawTransaction decoded). *)

(* Headline, without any premise about the history: whenever a commitment c has been written to a bidder
   (any event list), and its fields are Go values (int64 block number / timestamps, byte strings, calldata
   shorter than 2^63), a transaction to the configured contract was submitted and reported successful whose
   ABI-decoded arguments are, field by field, the decimal bid amount (in [1,2^64)), block number,
   transaction-hash string, decay window, bid signature and commitment signature of that very commitment. *)
Theorem C07_written_implies_settled : forall K addr evs h c,
  let S := run K rules_validators (node_wiring addr) evs in
  In (HWrite h c) (heff S) ->
  (4 <= length (K (Abi.method_sig store_name store_tys)))%nat ->
  (b_bn (c_bid c) < 9223372036854775808)%Z -> (b_ds (c_bid c) < 9223372036854775808)%Z ->
  (b_de (c_bid c) < 9223372036854775808)%Z ->
  wf_bytes (b_tx (c_bid c)) -> wf_bytes (b_sig (c_bid c)) -> wf_bytes (c_sig c) ->
  (forall amt, Abi.blen (Abi.encode (store_args amt c)) < Abi.two63) ->
  exists amt cd,
    (0 < amt < 18446744073709551616)%Z /\ parse_bigint (b_amt (c_bid c)) = Some amt /\
    In (HSend h addr cd) (heff S) /\ In (HStored h true) (heff S) /\
    Abi.decode_call store_tys cd =
    Some (Abi.selector K (Abi.method_sig store_name store_tys),
          [Abi.VUint64 (Z.to_N amt); Abi.VUint64 (Z.to_N (b_bn (c_bid c))); Abi.VString (b_tx (c_bid c));
           Abi.VUint64 (Z.to_N (b_ds (c_bid c))); Abi.VUint64 (Z.to_N (b_de (c_bid c)));
           Abi.VBytes (b_sig (c_bid c)); Abi.VBytes (c_sig c)]).
Proof. exact written_implies_settled. Qed.
Print Assumptions C07_written_implies_settled.
(* Every transaction the handlers submit goes to the configured contract. *)
Theorem C07_destination : forall K addr evs h to cd,
  In (HSend h to cd) (heff (run K rules_validators (node_wiring addr) evs)) -> to = addr.
Proof. exact (fun K addr => send_destination K rules_validators (node_wiring addr)). Qed.
Print Assumptions C07_destination.

(* If the submission fails, the bidder receives an error instead of a commitment: for every event list,
   a handler whose Send failed has returned Internal "failed to store commitment" (RStore), and no
   commitment was or will ever be written by it (the statement holds for every extension of the list). *)
Theorem C07_store_failure : forall K addr evs h,
  In (HStored h false) (heff (run K rules_validators (node_wiring addr) evs)) ->
  nget h (hs (run K rules_validators (node_wiring addr) evs)) = Some (HDone RStore) /\
  In (HReturn h RStore) (heff (run K rules_validators (node_wiring addr) evs)) /\
  forall c, ~ In (HWrite h c) (heff (run K rules_validators (node_wiring addr) evs)).
Proof. exact (fun K addr => store_failure K rules_validators (node_wiring addr)). Qed.
Print Assumptions C07_store_failure.

(* ---- composition with C01, C03, C02 (proofs/Compose_provider.v) ---------------------------------------------
   VerifyBid and ConstructPreConfirmation instantiated by the signer model (model/Signer.v) for an arbitrary
   hash function K and crypto library cr ([signed_history], [Compose_provider.constructed_history], see
   Properties/C01.v).  Non-vacuity: Compose_provider.ex_provider_premises, ex_provider_writes. *)
From MevVerif Require model.Eip712 model.Signer proofs.PreconfProvider_signed proofs.Compose_provider.

(* C07 o C01 o C03 o C02.  What is settled is what is signed.  For every commitment written to a bidder (Go int64
   numbers, byte-valued strings): the transaction the chain client accepted beforehand went to the configured
   contract and its calldata decodes to (A, block number, tx string, decay window, bid signature, commitment
   signature), where the commitment signature is the provider key's signature of the commitment digest and that
   digest is the generic EIP-712 PreConfCommitment hash of exactly (tx string, A, block number, decay window, bid
   digest, bid signature). *)
Theorem C07_settled_equals_signed :
  forall (K : bytes -> bytes) (cr : Signer.crypto) addr evs h c,
  PreconfProvider_signed.signed_history K cr evs ->
  Compose_provider.constructed_history K cr rules_validators (node_wiring addr) evs ->
  In (HWrite h c) (heff (run K rules_validators (node_wiring addr) evs)) ->
  let S := run K rules_validators (node_wiring addr) evs in
  let b := c_bid c in
  Compose_provider.int64_fields b -> (4 <= length (K (Abi.method_sig store_name store_tys)))%nat ->
  wf_bytes (b_tx b) -> wf_bytes (b_sig b) -> wf_bytes (c_sig c) ->
  exists A,
    parse_dec (b_amt b) = Some A /\ 0 < A < 18446744073709551616 /\
    In (HStored h true) (heff S) /\ In (HSend h addr (calldata K (Z.of_N A) c)) (heff S) /\
    (Abi.blen (Abi.encode (store_args (Z.of_N A) c)) < Abi.two63 ->
     Abi.decode_call store_tys (calldata K (Z.of_N A) c) =
     Some (Abi.selector K (Abi.method_sig store_name store_tys),
           [Abi.VUint64 A; Abi.VUint64 (Z.to_N (b_bn b)); Abi.VString (b_tx b);
            Abi.VUint64 (Z.to_N (b_ds b)); Abi.VUint64 (Z.to_N (b_de b));
            Abi.VBytes (b_sig b); Abi.VBytes (c_sig c)])) /\
    Signer.sign_normalised cr
      (Eip712.eip712_commitment K (b_tx b) A (Z.to_N (b_bn b)) (Z.to_N (b_ds b)) (Z.to_N (b_de b))
                                (b_dig b) (b_sig b)) = Ok (c_sig c) /\
    c_dig c = Eip712.eip712_commitment K (b_tx b) A (Z.to_N (b_bn b)) (Z.to_N (b_ds b)) (Z.to_N (b_de b))
                                       (b_dig b) (b_sig b).
Proof. exact Compose_provider.settled_equals_signed. Qed.
Print Assumptions C07_settled_equals_signed.
