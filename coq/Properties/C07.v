(* C07 -- Settlement transaction carries exactly the commitment returned to the bidder.
   Statements only; every proof is [exact <lemma>]. *)
From Coq Require Import List NArith ZArith Bool.
From MevVerif Require Import lib.Bytes lib.Abi model.Rules model.ProviderSvc model.PreconfProvider
  proofs.PreconfProvider_proofs proofs.PreconfProvider_traces.
Import ListNotations.
Open Scope N_scope.

(* The calldata built for commitment c decodes (go-ethereum ABI) to the method selector and the
   argument tuple of c, for every commitment and every amount: uint64(bid.Int64()), uint64(int64)
   conversions as the code performs them ... *)
Theorem C07_calldata : forall K amt c,
  (4 <= length (K (Abi.method_sig store_name store_tys)))%nat ->
  wf_bytes (b_tx (c_bid c)) -> wf_bytes (b_sig (c_bid c)) -> wf_bytes (c_sig c) ->
  Abi.blen (Abi.encode (store_args amt c)) < Abi.two63 ->
  Abi.decode_call store_tys (calldata K amt c) =
  Some (Abi.selector K (Abi.method_sig store_name store_tys), store_args amt c).
Proof. exact calldata_decodes. Qed.
Print Assumptions C07_calldata.

(* ... and on the validated domain (published format rules hold, int64 fields) the decoded
   arguments are, field by field, the decimal bid amount, block number, transaction-hash string,
   decay window, bid signature and commitment signature of that very commitment. *)
Theorem C07_args : forall K c amt,
  (4 <= length (K (Abi.method_sig store_name store_tys)))%nat ->
  vbid rules_validators (to_engine (c_bid c)) = true ->
  (b_bn (c_bid c) < 9223372036854775808)%Z -> (b_ds (c_bid c) < 9223372036854775808)%Z ->
  (b_de (c_bid c) < 9223372036854775808)%Z ->
  wf_bytes (b_tx (c_bid c)) -> wf_bytes (b_sig (c_bid c)) -> wf_bytes (c_sig c) ->
  Abi.blen (Abi.encode (store_args amt c)) < Abi.two63 ->
  parse_bigint (b_amt (c_bid c)) = Some amt ->
  (0 < amt < 18446744073709551616)%Z /\
  Abi.decode_call store_tys (calldata K amt c) =
  Some (Abi.selector K (Abi.method_sig store_name store_tys),
        [Abi.VUint64 (Z.to_N amt); Abi.VUint64 (Z.to_N (b_bn (c_bid c))); Abi.VString (b_tx (c_bid c));
         Abi.VUint64 (Z.to_N (b_ds (c_bid c))); Abi.VUint64 (Z.to_N (b_de (c_bid c)));
         Abi.VBytes (b_sig (c_bid c)); Abi.VBytes (c_sig c)]).
Proof. exact args_validated. Qed.
Print Assumptions C07_args.

(* Whenever a commitment c is written to a bidder, the history contains the submission of exactly
   calldata(c) to the configured contract, and the chain client's success for that handler. *)
Theorem C07_order : forall K addr evs h c,
  In (HWrite h c) (heff (run K rules_validators (node_wiring addr) evs)) ->
  In (HStored h true) (heff (run K rules_validators (node_wiring addr) evs)) /\
  exists amt, parse_bigint (b_amt (c_bid c)) = Some amt /\
              In (HSend h addr (calldata K amt c)) (heff (run K rules_validators (node_wiring addr) evs)).
Proof. exact order_node. Qed.
Print Assumptions C07_order.

(* Every transaction the handlers submit goes to the configured contract. *)
Theorem C07_destination : forall K addr evs h to cd,
  In (HSend h to cd) (heff (run K rules_validators (node_wiring addr) evs)) -> to = addr.
Proof. exact (fun K addr => send_destination K rules_validators (node_wiring addr)). Qed.
Print Assumptions C07_destination.

(* If the submission fails, the bidder receives an error instead of a commitment: for every event list,
   a handler whose Send failed has returned Internal "failed to store commitment" (RStore), and no
   commitment was or will ever be written by it (the statement holds for every extension of the list). *)
Theorem C07_store_failure : forall K addr evs h,
  In (HStored h false) (heff (run K rules_validators (node_wiring addr) evs)) ->
  nget h (hs (run K rules_validators (node_wiring addr) evs)) = Some (HDone RStore) /\
  In (HReturn h RStore) (heff (run K rules_validators (node_wiring addr) evs)) /\
  forall c, ~ In (HWrite h c) (heff (run K rules_validators (node_wiring addr) evs)).
Proof. exact (fun K addr => store_failure K rules_validators (node_wiring addr)). Qed.
Print Assumptions C07_store_failure.
