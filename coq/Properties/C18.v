(* C18 -- Node identity is coherent: one key, one peer identity, one Ethereum address.
   Statements only; every proof is [exact <lemma>]. *)
From Coq Require Import List NArith Bool.
From MevVerif Require Import lib.Bytes model.Identity proofs.Identity_proofs.
Import ListNotations.
Open Scope N_scope.

(* The padded key is exactly the 32-byte big-endian encoding of the scalar, for every scalar
   below 2^256 (so for every count of leading zero bytes): 32 bytes long, same value. *)
Theorem C18_pad : forall d, d < 2 ^ 256 ->
  pad32 (min_be d) = be 32 d /\ length (pad32 (min_be d)) = 32%nat /\ unmarshal_priv (pad32 (min_be d)) = Some d.
Proof. exact (fun d H => conj (pad32_min_be d H) (conj (pad32_length d H) (unmarshal_padded d H))). Qed.
Print Assumptions C18_pad.

(* Extraction of the public key from a peer id the node builds returns that key. *)
Theorem C18_peerid_roundtrip : forall c, length c = 33%nat -> extract_pub (peerid c) = Some c.
Proof. exact extract_peerid. Qed.
Print Assumptions C18_peerid_roundtrip.

(* Coherence: for every private scalar (in particular all of [1, n-1], n < 2^256), the address
   peers derive from the node's transport identity is the address the node signs with.  The curve
   operations are arbitrary functions subject to the two stated premises (33-byte compressed form;
   decompression inverts compression on public keys); keccak is an arbitrary function. *)
Theorem C18_coherent :
  forall (keccak : bytes -> bytes) (pub : N -> point) (compress : point -> bytes)
         (decompress : bytes -> option point),
    (forall P, length (compress P) = 33%nat) ->
    (forall d, decompress (compress (pub d)) = Some (pub d)) ->
    forall d, d < 2 ^ 256 ->
      node_peer_addr keccak pub compress decompress d = Some (signing_addr keccak pub d).
Proof. exact coherent. Qed.
Print Assumptions C18_coherent.

(* What the padding is for: without it every key with a zero leading byte (d < 2^248) cannot
   start a node at all (the transport library insists on 32 bytes). *)
Theorem C18_nopad_cannot_start :
  forall (keccak : bytes -> bytes) (pub : N -> point) (compress : point -> bytes)
         (decompress : bytes -> option point) d,
    d < 2 ^ 248 -> node_peer_addr_nopad keccak pub compress decompress d = None.
Proof. exact nopad_cannot_start. Qed.
Print Assumptions C18_nopad_cannot_start.
