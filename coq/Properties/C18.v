(* C18 -- Node identity is coherent: one key, one peer identity, one Ethereum address.
   Statements only; every proof is [exact <lemma>]. *)
From Coq Require Import List NArith Bool.
From MevVerif Require Import lib.Bytes model.Identity proofs.Identity_proofs model.Config proofs.Config_proofs.
Import ListNotations.
Open Scope N_scope.

(* The padded key is exactly the 32-byte big-endian encoding of the scalar, for every scalar
   below 2^256 (so for every count of leading zero bytes): 32 bytes long, same value. *)
Theorem C18_pad : forall d, d < 2 ^ 256 ->
  pad32 (min_be d) = be 32 d /\ length (pad32 (min_be d)) = 32%nat /\ unmarshal_priv (pad32 (min_be d)) = Some d.
Proof. exact (fun d H => conj (pad32_min_be d H) (conj (pad32_length d H) (unmarshal_padded d H))). Qed.
Print Assumptions C18_pad.

(* Extraction of the public key from a peer id the node builds returns that key. *)
Theorem C18_peerid_roundtrip : forall c, length c = 33%nat -> extract_pub (peerid c) = Some c.
Proof. exact extract_peerid. Qed.
Print Assumptions C18_peerid_roundtrip.

(* Coherence.  A node is started (libp2p.New as written now: [node_peer_addr_now] consults [wiring_ok], computed
   from the source text of New on every run - the key comes from opts.KeySigner.GetPrivateKey(), is padded by
   util.PadKeyTo32Bytes(privKey.D), unmarshalled, handed to libp2p.Identity; the same opts.KeySigner signs the
   handshake and peers bind with GetEthAddressFromPeerID) with a key signer that was given the scalar d.
   The node's address has three sources, computed by different code:
     - the address peers derive from the transport identity            [node_peer_addr_now ... d]
     - the address the key signer reports (KeySigner.GetAddress)         [ks_addr d]
     - the address verifiers recover from the key signer's signatures    [recover_addr d]
   For every scalar below 2^256 (in particular all of [1, n-1], every count of leading zero bytes) the three are
   one address, PROVIDED the key signer is bound to the scalar: it hands out d itself ([ks_priv d = d]), reports
   the address of d's public key and its signatures recover to that address.  These three bindings, like the two
   curve premises (33-byte compressed form; decompression inverts compression on public keys), are library /
   key-signer facts outside the proof; the correspondence check tests each of them per case on all three key
   signers of the repository with real handshake, bid and commitment signatures.  keccak is arbitrary. *)
(* What is proved and what is premise: the proved content is padding + peer-id round trip + wiring; the three
   bindings are premises (conjunct 3 is premise 2 composed with premise 3), honest and tested per case, not theorems. *)
Theorem C18_coherent :
  forall (keccak : bytes -> bytes) (pub : N -> point) (compress : point -> bytes)
         (decompress : bytes -> option point)
         (ks_priv : N -> N) (ks_addr recover_addr : N -> bytes),
    (forall P, length (compress P) = 33%nat) ->
    (forall d, decompress (compress (pub d)) = Some (pub d)) ->
    forall d, d < 2 ^ 256 ->
      ks_priv d = d ->
      ks_addr d = eth_addr keccak (pub d) ->
      recover_addr d = eth_addr keccak (pub d) ->
      node_peer_addr_now keccak pub compress decompress ks_priv d = Some (ks_addr d) /\
      node_peer_addr_now keccak pub compress decompress ks_priv d = Some (recover_addr d) /\
      ks_addr d = recover_addr d.
Proof. exact coherent_sources. Qed.
Print Assumptions C18_coherent.

(* The bindings are not decoration: with the transport identity built from the scalar the signer hands out, a
   signer whose reported (or signing) address is not the address of that scalar's public key yields a node whose
   peers derive another address than the one it reports (signs with). *)
Theorem C18_sources_differ_without_binding :
  forall (keccak : bytes -> bytes) (pub : N -> point) (compress : point -> bytes)
         (decompress : bytes -> option point)
         (ks_priv : N -> N) (ks_addr recover_addr : N -> bytes),
    (forall P, length (compress P) = 33%nat) ->
    (forall d, decompress (compress (pub d)) = Some (pub d)) ->
    forall d, d < 2 ^ 256 -> ks_priv d < 2 ^ 256 ->
    (eth_addr keccak (pub (ks_priv d)) <> ks_addr d ->
     node_peer_addr_now keccak pub compress decompress ks_priv d <> Some (ks_addr d)) /\
    (eth_addr keccak (pub (ks_priv d)) <> recover_addr d ->
     node_peer_addr_now keccak pub compress decompress ks_priv d <> Some (recover_addr d)).
Proof. exact sources_differ_without_binding. Qed.
Print Assumptions C18_sources_differ_without_binding.

(* The source-level fact the statement above rests on, re-established on every run. *)
Theorem C18_wiring_now : wiring_ok = true.
Proof. exact wiring_now. Qed.
Print Assumptions C18_wiring_now.

(* What the padding is for: without it every key with a zero leading byte (d < 2^248) cannot
   start a node at all (the transport library insists on 32 bytes). *)
Theorem C18_nopad_cannot_start :
  forall (keccak : bytes -> bytes) (pub : N -> point) (compress : point -> bytes)
         (decompress : bytes -> option point) d,
    d < 2 ^ 248 -> node_peer_addr_nopad keccak pub compress decompress d = None.
Proof. exact nopad_cannot_start. Qed.
Print Assumptions C18_nopad_cannot_start.

(* ---- composition with C04 (proofs/Compose_p2p.v) -----------------------------------------------------------
   In model/Handshake.v the address of the authenticated transport identity is an oracle answer (addr_of_pid)
   and so is what the signature verifier recovers.  Below both are tied to an honest node, i.e. a node started
   (libp2p.New as written now) with a key signer that was given the scalar d < 2^256 and is bound to it by the
   three binding premises of C18_coherent:
     - the peer's address-of-peer-id answer is GetEthAddressFromPeerID of the transport identity libp2p.New
       builds from the signer's key: [node_peer_addr_now ... ks_priv d];
     - the peer's verifier recovers from the node's handshake request the address the node's signatures recover
       to: [recover_addr d] (that is what recover_addr means -- nothing is assumed about its value here);
     - ks_priv d = d, ks_addr d = eth_addr (pub d), recover_addr d = eth_addr (pub d).
   The address-binding check then succeeds BECAUSE of C18_coherent (peer-id address = recovered address); it is
   not assumed.  The curve operations are arbitrary functions subject to the two curve premises; keccak is
   arbitrary.  Non-vacuity: Compose_p2p.ex_honest_premises. *)
From Coq Require Import ZArith.
From MevVerif Require model.Handshake proofs.Compose_p2p.

(* C18 o C04.  "An honest node always satisfies its peers' address-binding check": the clause "A is the address of
   the authenticated transport identity" of C04's admissibility predicate holds for A = the recovered address,
   and the whole predicate [proves] holds unless the node claims the provider role without the registry
   confirming its stake. *)
Theorem C18_honest_node_passes_binding :
  forall (keccak : bytes -> bytes) (pub : N -> point) (compress : point -> bytes)
         (decompress : bytes -> option point),
    (forall P, length (compress P) = 33%nat) ->
    (forall d, decompress (compress (pub d)) = Some (pub d)) ->
    forall (ks_priv : N -> N) (ks_addr recover_addr : N -> bytes) d, d < 2 ^ 256 ->
    ks_priv d = d -> ks_addr d = eth_addr keccak (pub d) -> recover_addr d = eth_addr keccak (pub d) ->
    forall (o : Handshake.oracles),
      Handshake.addr_of_pid o =
        Compose_p2p.pres_of (node_peer_addr_now keccak pub compress decompress ks_priv d) ->
      forall role token sig,
      Handshake.verify o sig (role ++ token) = Handshake.VOk true (recover_addr d) ->
      Handshake.addr_of_pid o = Handshake.POk (recover_addr d) /\
      ((role = Handshake.provider_string -> Handshake.registered o (recover_addr d) = true) ->
       Handshake.proves o role token sig (recover_addr d)).
Proof. exact Compose_p2p.honest_node_passes_binding. Qed.
Print Assumptions C18_honest_node_passes_binding.

(* C18 o C04.  Consequently such a peer never refuses the honest node for a bad signature, an address
   mismatch or an unusable peer id -- whatever else the transcript contains and whichever writes fail;
   a refusal for stake happens only to a node that claims the provider role and is not registered. *)
Theorem C18_honest_never_refused_for_identity :
  forall (keccak : bytes -> bytes) (pub : N -> point) (compress : point -> bytes)
         (decompress : bytes -> option point),
    (forall P, length (compress P) = 33%nat) ->
    (forall d, decompress (compress (pub d)) = Some (pub d)) ->
    forall (ks_priv : N -> N) (ks_addr recover_addr : N -> bytes) d, d < 2 ^ 256 ->
    ks_priv d = d -> ks_addr d = eth_addr keccak (pub d) -> recover_addr d = eth_addr keccak (pub d) ->
    forall (o : Handshake.oracles),
      Handshake.addr_of_pid o =
        Compose_p2p.pres_of (node_peer_addr_now keccak pub compress decompress ks_priv d) ->
      forall role token sig,
      Handshake.verify o sig (role ++ token) = Handshake.VOk true (recover_addr d) ->
      forall cfg wfail f1 rest,
      Handshake.as_req f1 = Some (role, token, sig) ->
      forall cl, Handshake.res (Handshake.handle cfg o wfail (f1 :: rest)) = Handshake.Refuse cl ->
        cl <> Handshake.RSig /\ cl <> Handshake.RAddr /\ cl <> Handshake.RPid /\
        (cl = Handshake.RStake ->
         role = Handshake.provider_string /\ Handshake.registered o (recover_addr d) = false).
Proof. exact Compose_p2p.honest_never_refused_for_identity. Qed.
Print Assumptions C18_honest_never_refused_for_identity.

(* C18 o C04 (C04_refusal_blocks).  ... and therefore never places a permanent block on it. *)
Theorem C18_honest_never_blocked_for_ever :
  forall (keccak : bytes -> bytes) (pub : N -> point) (compress : point -> bytes)
         (decompress : bytes -> option point),
    (forall P, length (compress P) = 33%nat) ->
    (forall d, decompress (compress (pub d)) = Some (pub d)) ->
    forall (ks_priv : N -> N) (ks_addr recover_addr : N -> bytes) d, d < 2 ^ 256 ->
    ks_priv d = d -> ks_addr d = eth_addr keccak (pub d) -> recover_addr d = eth_addr keccak (pub d) ->
    forall (o : Handshake.oracles),
      Handshake.addr_of_pid o =
        Compose_p2p.pres_of (node_peer_addr_now keccak pub compress decompress ks_priv d) ->
      forall role token sig,
      Handshake.verify o sig (role ++ token) = Handshake.VOk true (recover_addr d) ->
      forall cfg wfail f1 rest has_notifier add,
      Handshake.as_req f1 = Some (role, token, sig) ->
      ~ In (Handshake.EBlock 0%Z) (Handshake.inbound cfg o wfail (f1 :: rest) has_notifier add).
Proof. exact Compose_p2p.honest_never_blocked_for_ever. Qed.
Print Assumptions C18_honest_never_blocked_for_ever.

(* C18 o C04 (C04_exact_responder).  With the echo of the peer's own request in place and no failed write
   the honest node is enrolled, under the address its signatures recover to and the role it claimed. *)
Theorem C18_honest_enrolled :
  forall (keccak : bytes -> bytes) (pub : N -> point) (compress : point -> bytes)
         (decompress : bytes -> option point),
    (forall P, length (compress P) = 33%nat) ->
    (forall d, decompress (compress (pub d)) = Some (pub d)) ->
    forall (ks_priv : N -> N) (ks_addr recover_addr : N -> bytes) d, d < 2 ^ 256 ->
    ks_priv d = d -> ks_addr d = eth_addr keccak (pub d) -> recover_addr d = eth_addr keccak (pub d) ->
    forall (o : Handshake.oracles),
      Handshake.addr_of_pid o =
        Compose_p2p.pres_of (node_peer_addr_now keccak pub compress decompress ks_priv d) ->
      forall role token sig,
      Handshake.verify o sig (role ++ token) = Handshake.VOk true (recover_addr d) ->
      forall cfg wfail f1 f2 rest ea er,
      Handshake.as_req f1 = Some (role, token, sig) ->
      (role = Handshake.provider_string -> Handshake.registered o (recover_addr d) = true) ->
      wfail 0%nat = false -> wfail 1%nat = false ->
      Handshake.as_resp f2 = Some (ea, er) -> Handshake.echo_is_own cfg ea er ->
      Handshake.res (Handshake.handle cfg o wfail (f1 :: f2 :: rest)) =
        Handshake.Enrol (recover_addr d) (Handshake.role_of_string role).
Proof. exact Compose_p2p.honest_enrolled. Qed.
Print Assumptions C18_honest_enrolled.

(* C18 o C04.  The third equality of C18_coherent at work: the peer echoes the address it recovered; the honest
   node's own verifyResp compares it with what its key signer reports (GetAddress) and accepts. *)
Theorem C18_honest_echo_accepted :
  forall (keccak : bytes -> bytes) (pub : N -> point) (compress : point -> bytes)
         (decompress : bytes -> option point),
    (forall P, length (compress P) = 33%nat) ->
    (forall d, decompress (compress (pub d)) = Some (pub d)) ->
    forall (ks_priv : N -> N) (ks_addr recover_addr : N -> bytes) d, d < 2 ^ 256 ->
    ks_priv d = d -> ks_addr d = eth_addr keccak (pub d) -> recover_addr d = eth_addr keccak (pub d) ->
    forall cfg, Handshake.own_addr cfg = ks_addr d ->
    Handshake.echo_ok cfg (recover_addr d) (Handshake.role_string (Handshake.own_type cfg)) = true.
Proof. exact Compose_p2p.honest_echo_accepted. Qed.
Print Assumptions C18_honest_echo_accepted.

(* C18 (used by C14_wf_from_handshake).  Two different CANONICAL peer ids (what peer.IDFromPublicKey answers for
   a secp256k1 key: the ids of authenticated connections) with the same address under GetEthAddressFromPeerID
   are two different compressed public keys whose points have the same Keccak-derived address.  The premise is
   needed for the Go function, not for the model: ExtractPublicKey also accepts non-canonical encodings of one
   key (65-byte uncompressed data, other field order), which [extract_pub] refuses.
   Where the premise comes from: for every identity that libp2p.New of this code derives from a key - the node's own, and
   every peer that runs this code - it is C18_host_id_canonical below (under the 33-byte premise on compression).  For an
   arbitrary remote it stays an explicit premise (named in the level note): the security transport authenticates the id
   peer.IDFromPublicKey computes from the remote's key, a canonical id for a secp256k1 key; for other key types
   GetEthAddressFromPeerID answers an error, so no address arises. *)
Theorem C18_host_id_canonical :
  forall (pub : N -> point) (compress : point -> bytes) key_bytes pid,
  (forall P, length (compress P) = 33%nat) -> host_id pub compress key_bytes = Some pid -> canonical pid.
Proof. exact host_id_canonical. Qed.
Print Assumptions C18_host_id_canonical.

Theorem C18_identity_collision_is_key_collision :
  forall (keccak : bytes -> bytes) (decompress : bytes -> option point) p p' A,
  canonical p -> canonical p' ->
  p <> p' ->
  addr_of_peerid keccak decompress p = Some A -> addr_of_peerid keccak decompress p' = Some A ->
  exists c c' P P', c <> c' /\ decompress c = Some P /\ decompress c' = Some P' /\
                    eth_addr keccak P = A /\ eth_addr keccak P' = A.
Proof. exact Compose_p2p.identity_collision_is_key_collision. Qed.
Print Assumptions C18_identity_collision_is_key_collision.

(* "every private key the node can be started with": cmd/main.go obtains the key signer from exactly two
   constructors (statements of newKeySigner regenerated from the source on every run): the keystore signer when
   keystore-path is set, the private-key-file signer otherwise.  The C18 driver starts identities through both. *)
Theorem C18_key_sources_are_the_two_signers : MevVerif.model.Config.key_signer_sources_ok = true.
Proof. exact MevVerif.proofs.Config_proofs.key_signer_sources. Qed.
Print Assumptions C18_key_sources_are_the_two_signers.
