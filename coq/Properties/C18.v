(* C18 -- Node identity is coherent: one key, one peer identity, one Ethereum address.
   Statements only; every proof is [exact <lemma>]. *)
From Coq Require Import List NArith Bool.
From MevVerif Require Import lib.Bytes model.Identity proofs.Identity_proofs.
Import ListNotations.
Open Scope N_scope.

(* The padded key is exactly the 32-byte big-endian encoding of the scalar, for every scalar
   below 2^256 (so for every count of leading zero bytes): 32 bytes long, same value. *)
Theorem C18_pad : forall d, d < 2 ^ 256 ->
  pad32 (min_be d) = be 32 d /\ length (pad32 (min_be d)) = 32%nat /\ unmarshal_priv (pad32 (min_be d)) = Some d.
Proof. exact (fun d H => conj (pad32_min_be d H) (conj (pad32_length d H) (unmarshal_padded d H))). Qed.
Print Assumptions C18_pad.

(* Extraction of the public key from a peer id the node builds returns that key. *)
Theorem C18_peerid_roundtrip : forall c, length c = 33%nat -> extract_pub (peerid c) = Some c.
Proof. exact extract_peerid. Qed.
Print Assumptions C18_peerid_roundtrip.

(* Coherence: for every private scalar (in particular all of [1, n-1], n < 2^256), the address
   peers derive from the node's transport identity is the address the node signs with.  The curve
   operations are arbitrary functions subject to the two stated premises (33-byte compressed form;
   decompression inverts compression on public keys); keccak is an arbitrary function. *)
Theorem C18_coherent :
  forall (keccak : bytes -> bytes) (pub : N -> point) (compress : point -> bytes)
         (decompress : bytes -> option point),
    (forall P, length (compress P) = 33%nat) ->
    (forall d, decompress (compress (pub d)) = Some (pub d)) ->
    forall d, d < 2 ^ 256 ->
      node_peer_addr keccak pub compress decompress d = Some (signing_addr keccak pub d).
Proof. exact coherent. Qed.
Print Assumptions C18_coherent.

(* What the padding is for: without it every key with a zero leading byte (d < 2^248) cannot
   start a node at all (the transport library insists on 32 bytes). *)
Theorem C18_nopad_cannot_start :
  forall (keccak : bytes -> bytes) (pub : N -> point) (compress : point -> bytes)
         (decompress : bytes -> option point) d,
    d < 2 ^ 248 -> node_peer_addr_nopad keccak pub compress decompress d = None.
Proof. exact nopad_cannot_start. Qed.
Print Assumptions C18_nopad_cannot_start.

(* ---- composition with C04 (proofs/Compose_p2p.v) -----------------------------------------------------------
   In model/Handshake.v the address of the authenticated transport identity is an oracle answer
   (addr_of_pid).  Below it is GetEthAddressFromPeerID of model/Identity.v applied to the transport
   identity of an honest node: private scalar d < 2^256, transport identity
   host_id (pad32 (min_be d)) = peerid (compress (pub d)) (Compose_p2p.honest_pid), signing address
   signing_addr d (Compose_p2p.honest_addr).  The curve operations are arbitrary functions subject to the
   two premises of C18_coherent; keccak is arbitrary.
   Non-vacuity: Compose_p2p.ex_honest_premises. *)
From Coq Require Import ZArith.
From MevVerif Require model.Handshake proofs.Compose_p2p.

(* C18 o C04.  "An honest node always satisfies its peers' address-binding check": whenever the peer's
   signature verifier recovered the node's signing address from the handshake request, the clause
   "A is the address of the authenticated transport identity" of C04's admissibility predicate holds,
   and the whole predicate [proves] holds unless the node claims the provider role without the registry
   confirming its stake. *)
Theorem C18_honest_node_passes_binding :
  forall (keccak : bytes -> bytes) (pub : N -> point) (compress : point -> bytes)
         (decompress : bytes -> option point),
    (forall P, length (compress P) = 33%nat) ->
    (forall d, decompress (compress (pub d)) = Some (pub d)) ->
    forall d, d < 2 ^ 256 ->
    host_id pub compress (pad32 (min_be d)) = Some (Compose_p2p.honest_pid pub compress d) /\
    forall (o : Handshake.oracles),
      Handshake.addr_of_pid o =
        Compose_p2p.pres_of (addr_of_peerid keccak decompress (Compose_p2p.honest_pid pub compress d)) ->
      forall role token sig,
      Handshake.verify o sig (role ++ token) = Handshake.VOk true (signing_addr keccak pub d) ->
      Handshake.addr_of_pid o = Handshake.POk (signing_addr keccak pub d) /\
      ((role = Handshake.provider_string -> Handshake.registered o (signing_addr keccak pub d) = true) ->
       Handshake.proves o role token sig (signing_addr keccak pub d)).
Proof.
  exact (fun keccak pub compress decompress H1 H2 d Hd =>
    conj (Compose_p2p.honest_host_id pub compress d Hd)
         (Compose_p2p.honest_node_passes_binding keccak pub compress decompress H1 H2 d Hd)).
Qed.
Print Assumptions C18_honest_node_passes_binding.

(* C18 o C04.  Consequently such a peer never refuses the honest node for a bad signature, an address
   mismatch or an unusable peer id -- whatever else the transcript contains and whichever writes fail;
   a refusal for stake happens only to a node that claims the provider role and is not registered. *)
Theorem C18_honest_never_refused_for_identity :
  forall (keccak : bytes -> bytes) (pub : N -> point) (compress : point -> bytes)
         (decompress : bytes -> option point),
    (forall P, length (compress P) = 33%nat) ->
    (forall d, decompress (compress (pub d)) = Some (pub d)) ->
    forall d, d < 2 ^ 256 ->
    forall (o : Handshake.oracles),
      Handshake.addr_of_pid o =
        Compose_p2p.pres_of (addr_of_peerid keccak decompress (Compose_p2p.honest_pid pub compress d)) ->
      forall role token sig,
      Handshake.verify o sig (role ++ token) = Handshake.VOk true (signing_addr keccak pub d) ->
      forall cfg wfail f1 rest,
      Handshake.as_req f1 = Some (role, token, sig) ->
      forall cl, Handshake.res (Handshake.handle cfg o wfail (f1 :: rest)) = Handshake.Refuse cl ->
        cl <> Handshake.RSig /\ cl <> Handshake.RAddr /\ cl <> Handshake.RPid /\
        (cl = Handshake.RStake ->
         role = Handshake.provider_string /\ Handshake.registered o (signing_addr keccak pub d) = false).
Proof. exact Compose_p2p.honest_never_refused_for_identity. Qed.
Print Assumptions C18_honest_never_refused_for_identity.

(* C18 o C04 (C04_refusal_blocks).  ... and therefore never places a permanent block on it. *)
Theorem C18_honest_never_blocked_for_ever :
  forall (keccak : bytes -> bytes) (pub : N -> point) (compress : point -> bytes)
         (decompress : bytes -> option point),
    (forall P, length (compress P) = 33%nat) ->
    (forall d, decompress (compress (pub d)) = Some (pub d)) ->
    forall d, d < 2 ^ 256 ->
    forall (o : Handshake.oracles),
      Handshake.addr_of_pid o =
        Compose_p2p.pres_of (addr_of_peerid keccak decompress (Compose_p2p.honest_pid pub compress d)) ->
      forall role token sig,
      Handshake.verify o sig (role ++ token) = Handshake.VOk true (signing_addr keccak pub d) ->
      forall cfg wfail f1 rest has_notifier add,
      Handshake.as_req f1 = Some (role, token, sig) ->
      ~ In (Handshake.EBlock 0%Z) (Handshake.inbound cfg o wfail (f1 :: rest) has_notifier add).
Proof. exact Compose_p2p.honest_never_blocked_for_ever. Qed.
Print Assumptions C18_honest_never_blocked_for_ever.

(* C18 o C04 (C04_exact_responder).  With the echo of the peer's own request in place and no failed write
   the honest node is enrolled, under its signing address and the role it claimed. *)
Theorem C18_honest_enrolled :
  forall (keccak : bytes -> bytes) (pub : N -> point) (compress : point -> bytes)
         (decompress : bytes -> option point),
    (forall P, length (compress P) = 33%nat) ->
    (forall d, decompress (compress (pub d)) = Some (pub d)) ->
    forall d, d < 2 ^ 256 ->
    forall (o : Handshake.oracles),
      Handshake.addr_of_pid o =
        Compose_p2p.pres_of (addr_of_peerid keccak decompress (Compose_p2p.honest_pid pub compress d)) ->
      forall role token sig,
      Handshake.verify o sig (role ++ token) = Handshake.VOk true (signing_addr keccak pub d) ->
      forall cfg wfail f1 f2 rest ea er,
      Handshake.as_req f1 = Some (role, token, sig) ->
      (role = Handshake.provider_string -> Handshake.registered o (signing_addr keccak pub d) = true) ->
      wfail 0%nat = false -> wfail 1%nat = false ->
      Handshake.as_resp f2 = Some (ea, er) -> Handshake.echo_is_own cfg ea er ->
      Handshake.res (Handshake.handle cfg o wfail (f1 :: f2 :: rest)) =
        Handshake.Enrol (signing_addr keccak pub d) (Handshake.role_of_string role).
Proof. exact Compose_p2p.honest_enrolled. Qed.
Print Assumptions C18_honest_enrolled.

(* C18 (used by C14_wf_from_handshake).  Two different peer ids with the same address under
   GetEthAddressFromPeerID are two different compressed public keys whose points have the same
   Keccak-derived address. *)
Theorem C18_identity_collision_is_key_collision :
  forall (keccak : bytes -> bytes) (decompress : bytes -> option point) p p' A,
  p <> p' ->
  addr_of_peerid keccak decompress p = Some A -> addr_of_peerid keccak decompress p' = Some A ->
  exists c c' P P', c <> c' /\ decompress c = Some P /\ decompress c' = Some P' /\
                    eth_addr keccak P = A /\ eth_addr keccak P' = A.
Proof. exact Compose_p2p.identity_collision_is_key_collision. Qed.
Print Assumptions C18_identity_collision_is_key_collision.
