(* C17 -- Peers that fail authentication stay blocked; timed blocks hold their full term.
   Statements only; every proof is [exact <lemma>].

   Vocabulary (model/Blocklist.v): events Block p d t (blockPeer(p, d) at time t, d = 0 meaning
   forever), Query (isBlocked), Dial (InterceptPeerDial), Secured (InterceptSecured), AddrDial,
   Upgraded, Accept, Listing (BlockedPeers); [query_answer w evs p t] is what isBlocked(p) returns
   at time t after the events evs, [dial_answer]/[secured_answer] what the gater returns (true =
   allow); w is the gater wiring of libp2p.New.  Event lists have arbitrary length and contents. *)
From Coq Require Import List NArith ZArith Bool.
From MevVerif Require Import lib.Bytes model.Blocklist check.Check_C17 proofs.Blocklist_proofs.
Import ListNotations.
Open Scope Z_scope.

(* A permanent block never lapses: whatever happened before and whatever follows (re-blocking
   with any duration, queries at any times, any other peers' events), at every time t. *)
Theorem C17_permanent : forall w pre post p t0 t,
  query_answer w (pre ++ Block p 0 t0 :: post) p t = true.
Proof. exact permanent_holds. Qed.
Print Assumptions C17_permanent.

(* (Durations are the non-negative constants of the source; for d < 0 the interval below lies before
   the placement and the statement says nothing useful.)
   A block of duration d placed at t0 holds at every time t <= t0 + d, whatever precedes it and
   whatever follows it up to t (in particular shorter re-blocks do not shorten it). *)
Theorem C17_timed_full_term : forall w pre post p d t0 t,
  Forall (fun e => time_of e <= t) post -> t <= t0 + d ->
  query_answer w (pre ++ Block p d t0 :: post) p t = true.
Proof. exact timed_full_term. Qed.
Print Assumptions C17_timed_full_term.

(* Lifted afterwards: if every block ever placed on p was timed and its term ended before t,
   p is not blocked at t. *)
Theorem C17_lifted : forall w evs p t,
  (forall d t0, In (Block p d t0) evs -> d <> 0 /\ t0 + d < t) ->
  query_answer w evs p t = false.
Proof. exact lifted. Qed.
Print Assumptions C17_lifted.

(* Peers that were never blocked are not blocked, whatever happened to other peers ... *)
Theorem C17_unaffected : forall w evs p t,
  (forall d t0, ~ In (Block p d t0) evs) -> query_answer w evs p t = false.
Proof. exact unaffected. Qed.
Print Assumptions C17_unaffected.

(* ... and in general a peer's status depends only on the events that name it. *)
Theorem C17_independent : forall w evs p t,
  query_answer w evs p t = query_answer w (filter (concerns p) evs) p t.
Proof. exact independent. Qed.
Print Assumptions C17_independent.

(* Both directions at once: when no earlier event is later than t, isBlocked answers exactly
   "some block placed on p is permanent or has t within its term". *)
Theorem C17_exact : forall w evs p t,
  Forall (fun e => time_of e <= t) evs -> query_answer w evs p t = covered evs p t.
Proof. exact answer_exact. Qed.
Print Assumptions C17_exact.

(* The first sentence of the property in its own words: while some placed block covers t, the
   gater lets through neither a dial to p nor a secured connection from p.  (The model has no
   connection state: connections that exist when the block is placed are closed by the caller --
   handleConnectReq calls ClosePeer and then blockPeer, so a reconnect landing between the two calls
   passes InterceptSecured before the block exists; recorded as an observation, outside the claim.) *)
Theorem C17_no_new_connection_while_blocked : forall evs p t,
  Forall (fun e => time_of e <= t) evs -> covered evs p t = true ->
  dial_answer wiring_now evs p t = false /\ secured_answer wiring_now evs p t = false.
Proof. exact no_new_connection_while_blocked. Qed.
Print Assumptions C17_no_new_connection_while_blocked.

(* The gater: with the wiring libp2p.New has now (gater installed in the host, service set as
   its blocker -- regenerated from the source), a dial to p and a secured connection from p are
   allowed exactly when p is not blocked ... *)
Theorem C17_gater : forall evs p t,
  Forall (fun e => time_of e <= t) evs ->
  dial_answer wiring_now evs p t = negb (covered evs p t) /\
  secured_answer wiring_now evs p t = negb (covered evs p t).
Proof. exact gater_now. Qed.
Print Assumptions C17_gater.

(* ... for any wiring with a blocker the gater's answer is the negation of isBlocked's, with the
   same effect on the list; the other interceptors leave the list alone and answer without it. *)
Theorem C17_gater_calls : forall w evs p t m ok,
  (wired w = true -> dial_answer w evs p t = negb (query_answer w evs p t) /\
                     secured_answer w evs p t = negb (query_answer w evs p t)) /\
  (fst (intercept_peer_dial true m p t) = fst (is_blocked m p t) /\
   fst (intercept_secured true m p t) = fst (is_blocked m p t)) /\
  (intercept_addr_dial m p = (m, true) /\ intercept_upgraded m p = (m, true) /\
   intercept_accept m ok = (m, ok)).
Proof. exact gater_calls. Qed.
Print Assumptions C17_gater_calls.

(* Which failures block for how long (switches of handleConnectReq and Connect, regenerated from
   the source): signature and address failures forever, insufficient stake 2 min / 5 min. *)
Theorem C17_failure_durations :
  inbound_block_duration SigFailed = Some 0 /\ inbound_block_duration AddrMismatch = Some 0 /\
  inbound_block_duration LowStake = Some 120000000000 /\
  outbound_block_duration SigFailed = Some 0 /\ outbound_block_duration AddrMismatch = Some 0 /\
  outbound_block_duration LowStake = Some 300000000000.
Proof. exact failure_durations. Qed.
Print Assumptions C17_failure_durations.

(* BlockedPeers lists only peers isBlocked reports blocked, and says "Forever" exactly for the
   permanent entries. *)
Theorem C17_listing : forall m p t,
  (listed m p t <> 0 -> snd (is_blocked m p t) = true) /\
  (listed m p t = 2 <-> exists i, lookup p m = Some i /\ e_dur i = 0).
Proof. exact listing_spec. Qed.
Print Assumptions C17_listing.

(* The clause classifier that bin/check evaluates on the implementation's answers (check/Check_C17.v:
   lapsed-permanent, lapsed-early, not-lifted, unblocked-affected) never fires on the model's answers. *)
Theorem C17_checker_accepts_model : forall w evs p t,
  Forall (fun e => time_of e <= t) evs -> classify evs p t (query_answer w evs p t) = None.
Proof. exact classify_model. Qed.
Print Assumptions C17_checker_accepts_model.

(* ... in the order-free mode too (cases whose time stamps are not monotone are still judged on the
   clauses that need no ordering), without any premise. *)
Theorem C17_checker_accepts_model_unordered : forall w evs p t,
  classify_gen false evs p t (query_answer w evs p t) = None.
Proof. exact classify_unordered_model. Qed.
Print Assumptions C17_checker_accepts_model_unordered.

(* BlockedPeers as the Go function is: an entry whose peer id yields no Ethereum address is
   skipped (oracle addr_ok); for ids with an address the listing is as in C17_listing. *)
Theorem C17_listing_go : forall addr_ok m p t,
  (listed_go addr_ok m p t <> 0 -> snd (is_blocked m p t) = true) /\
  (addr_ok p = true -> (listed_go addr_ok m p t = 2 <-> exists i, lookup p m = Some i /\ e_dur i = 0)) /\
  (addr_ok p = false -> listed_go addr_ok m p t = 0).
Proof. exact listing_go_spec. Qed.
Print Assumptions C17_listing_go.

(* Regression: blockPeer as it was before commit 6a06465 (unconditional overwrite) violates
   C17_permanent and C17_timed_full_term. *)
Theorem C17_permanent_refuted : exists pre post p t0 t,
  query_answer_v0 wiring_now (pre ++ Block p 0 t0 :: post) p t = false.
Proof. exact permanent_refuted_v0. Qed.
Print Assumptions C17_permanent_refuted.

Theorem C17_timed_refuted : exists pre post p d t0 t,
  Forall (fun e => time_of e <= t) post /\ t <= t0 + d /\
  query_answer_v0 wiring_now (pre ++ Block p d t0 :: post) p t = false.
Proof. exact timed_refuted_v0. Qed.
Print Assumptions C17_timed_refuted.

(* ---- composition with C04 (proofs/Compose_p2p.v) -----------------------------------------------------------
   The Block events above are placed by handleConnectReq / Connect when a handshake is refused
   (model/Handshake.v: effect EBlock d).  [Compose_p2p.block_events p t0 effs] turns the EBlock effects of
   one such call into the blockPeer calls on the remote peer id p at time t0 (the blocked peer is the
   remote of the failed handshake: Blocklist_proofs.inbound_blocks_remote / outbound_blocks_remote).
   Everything holds for every configuration, oracle answers, write failures, script, whatever the list saw
   before (pre) and sees afterwards (post).
   Non-vacuity: Compose_p2p.ex_refusals, Compose_p2p.ex_blocked_later. *)
From MevVerif Require model.Handshake proofs.Compose_p2p.

(* C04 o C17 (C04_refusal_blocks, C17_permanent, C17_gater_calls).  After an inbound handshake refused for
   a bad signature or an address mismatch the peer is blocked at EVERY time, whatever else happens, and the
   gater of the node as wired by libp2p.New refuses to dial it and refuses its secured connections. *)
Theorem C17_inbound_identity_failure_blocks_for_ever :
  forall c o wfail script p t0 pre post has_notifier add cl,
  Handshake.res (Handshake.handle c o wfail script) = Handshake.Refuse cl ->
  cl = Handshake.RSig \/ cl = Handshake.RAddr ->
  let evs := pre ++ Compose_p2p.block_events p t0 (Handshake.inbound c o wfail script has_notifier add) ++ post in
  forall t,
    query_answer wiring_now evs p t = true /\
    dial_answer wiring_now evs p t = false /\ secured_answer wiring_now evs p t = false.
Proof. exact Compose_p2p.inbound_identity_failure_blocks_for_ever. Qed.
Print Assumptions C17_inbound_identity_failure_blocks_for_ever.

(* The same after Connect (outbound) got such a refusal. *)
Theorem C17_outbound_identity_failure_blocks_for_ever :
  forall c o wfail script p t0 pre post add cl,
  Handshake.res (Handshake.handshake c o wfail script) = Handshake.Refuse cl ->
  cl = Handshake.RSig \/ cl = Handshake.RAddr ->
  let evs := pre ++ Compose_p2p.block_events p t0 (Handshake.outbound c o wfail script add) ++ post in
  forall t,
    query_answer wiring_now evs p t = true /\
    dial_answer wiring_now evs p t = false /\ secured_answer wiring_now evs p t = false.
Proof. exact Compose_p2p.outbound_identity_failure_blocks_for_ever. Qed.
Print Assumptions C17_outbound_identity_failure_blocks_for_ever.

(* C04 o C17 (C17_timed_full_term).  Insufficient stake: blocked for the full 2 minutes (inbound) ... *)
Theorem C17_inbound_stake_failure_blocks_full_term :
  forall c o wfail script p t0 pre post has_notifier add,
  Handshake.res (Handshake.handle c o wfail script) = Handshake.Refuse Handshake.RStake ->
  let evs := pre ++ Compose_p2p.block_events p t0 (Handshake.inbound c o wfail script has_notifier add) ++ post in
  forall t, Forall (fun e => time_of e <= t) post -> t <= t0 + 120000000000 ->
    query_answer wiring_now evs p t = true /\
    dial_answer wiring_now evs p t = false /\ secured_answer wiring_now evs p t = false.
Proof. exact Compose_p2p.inbound_stake_failure_blocks_full_term. Qed.
Print Assumptions C17_inbound_stake_failure_blocks_full_term.

(* ... and 5 minutes (outbound), whatever precedes and whatever follows up to the time of the question. *)
Theorem C17_outbound_stake_failure_blocks_full_term :
  forall c o wfail script p t0 pre post add,
  Handshake.res (Handshake.handshake c o wfail script) = Handshake.Refuse Handshake.RStake ->
  let evs := pre ++ Compose_p2p.block_events p t0 (Handshake.outbound c o wfail script add) ++ post in
  forall t, Forall (fun e => time_of e <= t) post -> t <= t0 + 300000000000 ->
    query_answer wiring_now evs p t = true /\
    dial_answer wiring_now evs p t = false /\ secured_answer wiring_now evs p t = false.
Proof. exact Compose_p2p.outbound_stake_failure_blocks_full_term. Qed.
Print Assumptions C17_outbound_stake_failure_blocks_full_term.

(* The two models of the same two switch statements agree: model/Handshake.v reads the durations by
   position (c04_* anchors), model/Blocklist.v looks them up by the name of the error (c17_* anchors). *)
Theorem C17_durations_agree_with_C04 : forall f has_notifier add,
  exists dur,
    inbound_block_duration f = Some dur /\
    Handshake.handle_connect_req has_notifier add (Handshake.Refuse (Compose_p2p.refusal_of f)) =
      [Handshake.EResetStream; Handshake.EClosePeer; Handshake.EBlock dur] /\
  exists dur',
    outbound_block_duration f = Some dur' /\
    Handshake.connect add (Handshake.Refuse (Compose_p2p.refusal_of f)) =
      [Handshake.EClosePeer; Handshake.EBlock dur'; Handshake.EReturnErr (Compose_p2p.refusal_of f)].
Proof. exact Compose_p2p.durations_agree. Qed.
Print Assumptions C17_durations_agree_with_C04.

(* The error-to-block-duration decision of the two handshake failure paths is not hand-written knowledge:
   [c17_inbound_block_fn] (handleConnectReq) and [c17_outbound_block_fn] (Connect) are regenerated on every run
   from the switch over errors.Is alternatives by the translator of harness/extract.  Arguments: the answers of
   errors.Is for ErrSignatureVerificationFailed, ErrObservedAddressMismatch, ErrInsufficientStake in source
   order; result: the duration handed to blockPeer, None when blockPeer is not called. *)
From MevVerif Require gen.Generated.
Theorem C17_model_is_translation_of_source_block_duration : forall f : hs_failure,
  Generated.c17_inbound_block_fn (Blocklist_proofs.is_failure f SigFailed) (Blocklist_proofs.is_failure f AddrMismatch)
                                 (Blocklist_proofs.is_failure f LowStake) = inbound_block_duration f /\
  Generated.c17_outbound_block_fn (Blocklist_proofs.is_failure f SigFailed) (Blocklist_proofs.is_failure f AddrMismatch)
                                  (Blocklist_proofs.is_failure f LowStake) = outbound_block_duration f.
Proof. exact Blocklist_proofs.block_duration_translation. Qed.
Print Assumptions C17_model_is_translation_of_source_block_duration.

(* The same for arbitrary answers of the three tests (an error may wrap several of the values): the first
   alternative that matches decides; no match, no block. *)
Theorem C17_model_is_translation_of_source_block_table : forall s a k : bool,
  Generated.c17_inbound_block_fn s a k =
    (if s then Some 0 else if a then Some 0 else if k then Some 120000000000 else None) /\
  Generated.c17_outbound_block_fn s a k =
    (if s then Some 0 else if a then Some 0 else if k then Some 300000000000 else None).
Proof. exact Blocklist_proofs.block_table_translation. Qed.
Print Assumptions C17_model_is_translation_of_source_block_table.
