(* C12 -- Engine decisions reach exactly the pending bid they name, at most once.
   Statements only; every proof is [exact <lemma>].

   Machine (model/ProviderSvc.v): any number of concurrent ProcessBid calls [Submit h b],
   [EngineTake h], [Abandon h]; any number of concurrently open decision streams with the loop
   body split at the mutex: [Lookup sid digest status] (validate, lookup+delete), [Callback sid]
   (send on the one-shot channel, close); [RecvErr sid].  [run V evs] is the state after an
   arbitrary event list [evs]; the validator is the published rule set [rules_validators]
   (model/Rules.v). *)
From Coq Require Import List NArith ZArith Bool.
From MevVerif Require Import lib.Bytes model.Rules model.ProviderSvc proofs.ProviderSvc_proofs.
From MevVerif Require check.Check_C12 proofs.Check_C12_proofs proofs.Check_C12_fields proofs.Check_C12_delivery.
Import ListNotations.
Open Scope N_scope.

(* A bid reaches the engine stream only for a ProcessBid call of the history, with exactly the
   fields of that call's bid (tx hashes split at commas), and only if the published format rules
   hold for it ... *)
Theorem C12_forward : forall evs h e,
  In (h, e) (emitted (run rules_validators evs)) ->
  exists b, In (Submit h b) evs /\ e = to_engine b /\
            provider_bid_ok (e_txs e) (e_amt e) (e_bn e) (e_dig e) (e_ds e) (e_de e) = true.
Proof. exact (forward rules_validators). Qed.
Print Assumptions C12_forward.

(* ... and every call is forwarded at most once. *)
Theorem C12_forward_once : forall evs, NoDup (map fst (emitted (run rules_validators evs))).
Proof. exact (forward_once rules_validators). Qed.
Print Assumptions C12_forward_once.

(* No history panics (no send on a closed channel, no double close); every one-shot channel
   receives at most one value; a delivered value is a well-formed decision (status ACCEPTED or
   REJECTED) that the engine sent for exactly the digest of the call owning the channel. *)
Theorem C12_at_most_once : forall evs,
  let s := run rules_validators evs in
  panicked s = false /\ NoDup (delivered s) /\
  forall ch d st, In (EDeliver ch d st) (eff s) ->
    provider_response_ok d st = true /\ (exists sid, In (Lookup sid d st) evs) /\
    exists b, In (Submit ch b) evs /\ b_dig b = d /\ vbid rules_validators (to_engine b) = true.
Proof. exact (at_most_once rules_validators). Qed.
Print Assumptions C12_at_most_once.

(* The callback always finds its channel empty and open: the buffered send does not block. *)
Theorem C12_no_blocking_send : forall evs sid ch d st,
  sget sid (run rules_validators evs) = SCalling ch d st -> cget ch (run rules_validators evs) = CEmpty.
Proof. exact (callback_finds_empty rules_validators). Qed.
Print Assumptions C12_no_blocking_send.

(* A well-formed decision whose digest has no entry (unknown, already answered, abandoned) changes
   nothing but the log: map, calls, channels, streams untouched, the stream keeps serving. *)
Theorem C12_ignore : forall s sid d st,
  panicked s = false -> sget sid s = SIdle -> provider_response_ok d st = true -> pget d (pending s) = None ->
  let s' := step rules_validators s (Lookup sid d st) in
  pending s' = pending s /\ calls s' = calls s /\ chans s' = chans s /\ streams s' = streams s /\
  panicked s' = false /\ eff s' = EIgnore sid d st :: eff s.
Proof. exact (ignore rules_validators). Qed.
Print Assumptions C12_ignore.

(* An answered call owns no entry any more (neither in the map nor in flight). *)
Theorem C12_answered_gone : forall evs ch,
  In ch (delivered (run rules_validators evs)) ->
  ~ In ch (vals (pending (run rules_validators evs))) /\ ~ In ch (calling (streams (run rules_validators evs))).
Proof. exact (answered_not_pending rules_validators). Qed.
Print Assumptions C12_answered_gone.

(* Every entry of the map belongs to a call that is still offered or handed over, under that
   call's own digest; in particular an abandoned call leaves none behind. *)
Theorem C12_no_leak : forall evs,
  (forall d h, In (d, h) (pending (run rules_validators evs)) ->
     exists b, (nget h (calls (run rules_validators evs)) = Some (POffered b) \/
                nget h (calls (run rules_validators evs)) = Some (PHanded b)) /\ b_dig b = d) /\
  (forall h b, nget h (calls (run rules_validators evs)) = Some (PAbandoned b) ->
     ~ In h (vals (pending (run rules_validators evs)))) /\
  NoDup (vals (pending (run rules_validators evs))).
Proof.
  exact (fun evs => conj (no_leak rules_validators evs)
                    (conj (abandoned_no_entry rules_validators evs) (pending_distinct rules_validators evs))).
Qed.
Print Assumptions C12_no_leak.

(* The abandon step removes whatever entry stands under the digest of the abandoned call -- with
   equal digests that may be a later call's entry (that call then gets nothing: examples
   ex_equal_digest_overwrite / ex_equal_digest_abandon in proofs/ProviderSvc_proofs.v). *)
Theorem C12_abandon_step : forall s h b,
  panicked s = false -> nget h (calls s) = Some (POffered b) ->
  let s' := step rules_validators s (Abandon h) in
  pget (b_dig b) (pending s') = None /\ nget h (calls s') = Some (PAbandoned b) /\
  (forall d ch, d <> b_dig b -> (In (d, ch) (pending s') <-> In (d, ch) (pending s))).
Proof. exact (abandon_removes rules_validators). Qed.
Print Assumptions C12_abandon_step.

(* Positive delivery: in every reachable state, a well-formed decision arriving on a serving stream whose
   digest HAS a pending entry is delivered -- by its Lookup and Callback steps -- to exactly the channel of
   the call owning that entry, with exactly that status; the entry is consumed, the stream keeps serving,
   every other channel is untouched.  ("emitted"/"taken" in this file means handed to a ReceiveBids
   goroutine through s.receiver; a failing srv.Send afterwards loses the bid while its entry stays.) *)
Theorem C12_delivered : forall evs sid d st ch,
  let s := run rules_validators evs in
  sget sid s = SIdle -> provider_response_ok d st = true -> pget d (pending s) = Some ch ->
  let s' := step rules_validators (step rules_validators s (Lookup sid d st)) (Callback sid) in
  cget ch s' = CFull st /\ In (EDeliver ch d st) (eff s') /\ pget d (pending s') = None /\
  sget sid s' = SIdle /\ panicked s' = false /\
  (forall ch', ch' <> ch -> cget ch' s' = cget ch' s).
Proof. exact (delivered_step rules_validators). Qed.
Print Assumptions C12_delivered.

(* A malformed decision (status outside {ACCEPTED, REJECTED}) ends that RPC and nothing else: map,
   channels, calls and every other stream are untouched, nothing is delivered; the ended stream then
   processes nothing further. *)
Theorem C12_malformed : forall s sid d st,
  panicked s = false -> sget sid s = SIdle -> provider_response_ok d st = false ->
  let s' := step rules_validators s (Lookup sid d st) in
  pending s' = pending s /\ chans s' = chans s /\ calls s' = calls s /\ sget sid s' = SEnded /\
  (forall x, x <> sid -> sget x s' = sget x s) /\ eff s' = EStreamEnd sid true :: eff s /\ panicked s' = false.
Proof. exact (malformed_step rules_validators). Qed.
Print Assumptions C12_malformed.

Theorem C12_ended_stream_inert : forall s sid d st,
  sget sid s = SEnded ->
  step rules_validators s (Lookup sid d st) = s /\ step rules_validators s (Callback sid) = s.
Proof. exact (ended_stream_inert rules_validators). Qed.
Print Assumptions C12_ended_stream_inert.
(* Non-vacuity under the validator of these statements: ex_rules_validators (proofs/ProviderSvc_proofs.v). *)

(* Counting form of "each decision is delivered at most once": for every digest d and status st, the number
   of deliveries of (d, st) -- over all channels -- never exceeds the number of decision events (d, st) of the
   history: k equal decisions justify at most k deliveries. *)
Theorem C12_deliveries_le_decisions : forall d st evs,
  (cnt_deliv d st (run rules_validators evs) <= cnt_look d st evs)%nat.
Proof. exact (deliveries_le_decisions rules_validators). Qed.
Print Assumptions C12_deliveries_le_decisions.

(* The property checker of the correspondence (check/Check_C12.v) raises no alarm on the model's own
   prediction, for EVERY op list -- proved for three of its six clauses: "forwarded-invalid", "fields-differ"
   (each forwarded bid is the bid of the first submission of that call, every call forwarded at most once)
   and "stream-ended" (a predicted stream end always has its cause among the ops, the model never panics).
   The clause "double-delivery" is covered by the next theorem.  Still open: the clauses "leak" and
   "decision-dropped"; for these the absence of false alarms rests on the runs.  The checker's own bookkeeping registers an expected delivery at the
   callback half of a decision and lets a parked or ended stream read nothing, as the machine does. *)
Theorem C12_checker_accepts_model_partial : forall i l,
  Check_C12.chk_forwarded_valid (Check_C12_proofs.model_case i l) = true /\
  Check_C12.chk_fields (Check_C12_proofs.model_case i l) = true /\
  Check_C12.chk_stream (Check_C12_proofs.model_case i l) = true.
Proof.
  exact (fun i l => conj (Check_C12_proofs.checker_accepts_model_forwarded i l)
                   (conj (Check_C12_fields.checker_accepts_model_fields i l)
                         (Check_C12_fields.checker_accepts_model_stream i l))).
Qed.
Print Assumptions C12_checker_accepts_model_partial.

(* The clause "double-delivery" (at most one value per channel, every value a well-formed decision sent for
   that call's digest, deliveries of (digest, status) bounded by the decisions (digest, status), no panic)
   never fires on the model's own prediction, for every op list in which no call identifier is submitted
   twice.  That premise is needed: with a repeated OSubmit h the prediction lists call h twice and the
   clause counts its one delivery twice; the driver never generates such a list.  The bound itself is
   C12_deliveries_le_decisions. *)
Theorem C12_checker_accepts_model_double_delivery : forall i l,
  NoDup (map fst (Check_C12.submitted l)) ->
  Check_C12.chk_delivery (Check_C12_proofs.model_case i l) = true.
Proof. exact Check_C12_delivery.checker_accepts_model_delivery. Qed.
Print Assumptions C12_checker_accepts_model_double_delivery.
