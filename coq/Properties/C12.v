(* C12 -- Engine decisions reach exactly the pending bid they name, at most once.
   Statements only; every proof is [exact <lemma>].

   Machine (model/ProviderSvc.v): any number of concurrent ProcessBid calls [Submit h b],
   [EngineTake h], [Abandon h]; any number of concurrently open decision streams with the loop
   body split at the mutex: [Lookup sid digest status] (validate, lookup+delete), [Callback sid]
   (send on the one-shot channel, close); [RecvErr sid].  [run V evs] is the state after an
   arbitrary event list [evs]; the validator is the published rule set [rules_validators]
   (model/Rules.v). *)
From Coq Require Import String List NArith ZArith Bool.
From MevVerif Require Import lib.Bytes model.Rules model.ProviderSvc proofs.ProviderSvc_proofs.
From MevVerif Require check.Check_C12 proofs.Check_C12_proofs proofs.Check_C12_fields proofs.Check_C12_delivery
  proofs.Check_C12_accepts.
Import ListNotations.
Open Scope N_scope.

(* A bid reaches the engine stream only for a ProcessBid call of the history, with exactly the
   fields of that call's bid (tx hashes split at commas), and only if the published format rules
   hold for it ... *)
Theorem C12_forward : forall evs h e,
  In (h, e) (emitted (run rules_validators evs)) ->
  exists b, In (Submit h b) evs /\ e = to_engine b /\
            provider_bid_ok (e_txs e) (e_amt e) (e_bn e) (e_dig e) (e_ds e) (e_de e) = true.
Proof. exact (forward rules_validators). Qed.
Print Assumptions C12_forward.

(* ... and every call is forwarded at most once. *)
Theorem C12_forward_once : forall evs, NoDup (map fst (emitted (run rules_validators evs))).
Proof. exact (forward_once rules_validators). Qed.
Print Assumptions C12_forward_once.

(* No history panics (no send on a closed channel, no double close); every one-shot channel
   receives at most one value; a delivered value is a well-formed decision (status ACCEPTED or
   REJECTED) that the engine sent for exactly the digest of the call owning the channel. *)
Theorem C12_at_most_once : forall evs,
  let s := run rules_validators evs in
  panicked s = false /\ NoDup (delivered s) /\
  forall ch d st, In (EDeliver ch d st) (eff s) ->
    provider_response_ok d st = true /\ (exists sid, In (Lookup sid d st) evs) /\
    exists b, In (Submit ch b) evs /\ b_dig b = d /\ vbid rules_validators (to_engine b) = true.
Proof. exact (at_most_once rules_validators). Qed.
Print Assumptions C12_at_most_once.

(* The callback always finds its channel empty and open: the buffered send does not block. *)
Theorem C12_no_blocking_send : forall evs sid ch d st,
  sget sid (run rules_validators evs) = SCalling ch d st -> cget ch (run rules_validators evs) = CEmpty.
Proof. exact (callback_finds_empty rules_validators). Qed.
Print Assumptions C12_no_blocking_send.

(* A well-formed decision whose digest has no entry (unknown, already answered, abandoned) changes
   nothing but the log: map, calls, channels, streams untouched, the stream keeps serving. *)
Theorem C12_ignore : forall s sid d st,
  panicked s = false -> sget sid s = SIdle -> provider_response_ok d st = true -> pget d (pending s) = None ->
  let s' := step rules_validators s (Lookup sid d st) in
  pending s' = pending s /\ calls s' = calls s /\ chans s' = chans s /\ streams s' = streams s /\
  panicked s' = false /\ eff s' = EIgnore sid d st :: eff s.
Proof. exact (ignore rules_validators). Qed.
Print Assumptions C12_ignore.

(* An answered call owns no entry any more (neither in the map nor in flight). *)
Theorem C12_answered_gone : forall evs ch,
  In ch (delivered (run rules_validators evs)) ->
  ~ In ch (vals (pending (run rules_validators evs))) /\ ~ In ch (calling (streams (run rules_validators evs))).
Proof. exact (answered_not_pending rules_validators). Qed.
Print Assumptions C12_answered_gone.

(* Every entry of the map belongs to a call that is still offered or handed over, under that
   call's own digest; in particular an abandoned call leaves none behind. *)
Theorem C12_no_leak : forall evs,
  (forall d h, In (d, h) (pending (run rules_validators evs)) ->
     exists b, (nget h (calls (run rules_validators evs)) = Some (POffered b) \/
                nget h (calls (run rules_validators evs)) = Some (PHanded b)) /\ b_dig b = d) /\
  (forall h b, nget h (calls (run rules_validators evs)) = Some (PAbandoned b) ->
     ~ In h (vals (pending (run rules_validators evs)))) /\
  NoDup (vals (pending (run rules_validators evs))).
Proof.
  exact (fun evs => conj (no_leak rules_validators evs)
                    (conj (abandoned_no_entry rules_validators evs) (pending_distinct rules_validators evs))).
Qed.
Print Assumptions C12_no_leak.

(* The abandon step removes whatever entry stands under the digest of the abandoned call -- with
   equal digests that may be a later call's entry (that call then gets nothing: examples
   ex_equal_digest_overwrite / ex_equal_digest_abandon in proofs/ProviderSvc_proofs.v). *)
Theorem C12_abandon_step : forall s h b,
  panicked s = false -> nget h (calls s) = Some (POffered b) ->
  let s' := step rules_validators s (Abandon h) in
  pget (b_dig b) (pending s') = None /\ nget h (calls s') = Some (PAbandoned b) /\
  (forall d ch, d <> b_dig b -> (In (d, ch) (pending s') <-> In (d, ch) (pending s))).
Proof. exact (abandon_removes rules_validators). Qed.
Print Assumptions C12_abandon_step.

(* Positive delivery: in every reachable state, a well-formed decision arriving on a serving stream whose
   digest HAS a pending entry is delivered -- by its Lookup and Callback steps -- to exactly the channel of
   the call owning that entry, with exactly that status; the entry is consumed, the stream keeps serving,
   every other channel is untouched.  ("emitted"/"taken" in this file means handed to a ReceiveBids
   goroutine through s.receiver; a failing srv.Send afterwards loses the bid while its entry stays.) *)
Theorem C12_delivered : forall evs sid d st ch,
  let s := run rules_validators evs in
  sget sid s = SIdle -> provider_response_ok d st = true -> pget d (pending s) = Some ch ->
  let s' := step rules_validators (step rules_validators s (Lookup sid d st)) (Callback sid) in
  cget ch s' = CFull st /\ In (EDeliver ch d st) (eff s') /\ pget d (pending s') = None /\
  sget sid s' = SIdle /\ panicked s' = false /\
  (forall ch', ch' <> ch -> cget ch' s' = cget ch' s).
Proof. exact (delivered_step rules_validators). Qed.
Print Assumptions C12_delivered.

(* A malformed decision (status outside {ACCEPTED, REJECTED}) ends that RPC and nothing else: map,
   channels, calls and every other stream are untouched, nothing is delivered; the ended stream then
   processes nothing further. *)
Theorem C12_malformed : forall s sid d st,
  panicked s = false -> sget sid s = SIdle -> provider_response_ok d st = false ->
  let s' := step rules_validators s (Lookup sid d st) in
  pending s' = pending s /\ chans s' = chans s /\ calls s' = calls s /\ sget sid s' = SEnded /\
  (forall x, x <> sid -> sget x s' = sget x s) /\ eff s' = EStreamEnd sid true :: eff s /\ panicked s' = false.
Proof. exact (malformed_step rules_validators). Qed.
Print Assumptions C12_malformed.

Theorem C12_ended_stream_inert : forall s sid d st,
  sget sid s = SEnded ->
  step rules_validators s (Lookup sid d st) = s /\ step rules_validators s (Callback sid) = s.
Proof. exact (ended_stream_inert rules_validators). Qed.
Print Assumptions C12_ended_stream_inert.
(* Non-vacuity under the validator of these statements: ex_rules_validators (proofs/ProviderSvc_proofs.v). *)

(* Counting form of "each decision is delivered at most once": for every digest d and status st, the number
   of deliveries of (d, st) -- over all channels -- never exceeds the number of decision events (d, st) of the
   history: k equal decisions justify at most k deliveries. *)
Theorem C12_deliveries_le_decisions : forall d st evs,
  (cnt_deliv d st (run rules_validators evs) <= cnt_look d st evs)%nat.
Proof. exact (deliveries_le_decisions rules_validators). Qed.
Print Assumptions C12_deliveries_le_decisions.

(* The property checker of the correspondence (check/Check_C12.v) raises no alarm on the model's own
   prediction, for EVERY op list -- proved for three of its six clauses: "forwarded-invalid", "fields-differ"
   (each forwarded bid is the bid of the first submission of that call, every call forwarded at most once)
   and "stream-ended" (a predicted stream end always has its cause among the ops, the model never panics).
   The clause "double-delivery" is covered by the next theorem, the whole checker by
   C12_checker_accepts_model below (kept: this part needs no premise).  The checker's own bookkeeping registers an expected delivery at the
   callback half of a decision and lets a parked or ended stream read nothing, as the machine does. *)
Theorem C12_checker_accepts_model_partial : forall i l,
  Check_C12.chk_forwarded_valid (Check_C12_proofs.model_case i l) = true /\
  Check_C12.chk_fields (Check_C12_proofs.model_case i l) = true /\
  Check_C12.chk_stream (Check_C12_proofs.model_case i l) = true.
Proof.
  exact (fun i l => conj (Check_C12_proofs.checker_accepts_model_forwarded i l)
                   (conj (Check_C12_fields.checker_accepts_model_fields i l)
                         (Check_C12_fields.checker_accepts_model_stream i l))).
Qed.
Print Assumptions C12_checker_accepts_model_partial.

(* The clause "double-delivery" (at most one value per channel, every value a well-formed decision sent for
   that call's digest, deliveries of (digest, status) bounded by the decisions (digest, status), no panic)
   never fires on the model's own prediction, for every op list in which no call identifier is submitted
   twice.  That premise is needed: with a repeated OSubmit h the prediction lists call h twice and the
   clause counts its one delivery twice; the driver never generates such a list.  The bound itself is
   C12_deliveries_le_decisions. *)
Theorem C12_checker_accepts_model_double_delivery : forall i l,
  NoDup (map fst (Check_C12.submitted l)) ->
  Check_C12.chk_delivery (Check_C12_proofs.model_case i l) = true.
Proof. exact Check_C12_delivery.checker_accepts_model_delivery. Qed.
Print Assumptions C12_checker_accepts_model_double_delivery.

(* One-theorem form.  The WHOLE boolean checker of check/Check_C12.v (all six clauses, in the order in which
   [violation] evaluates them) is silent on the model's own run, for every case number and every op list that
   satisfies two premises on the op list itself:
     - no call identifier is submitted twice ([ops_wf]: NoDup of the identifiers of the OSubmit ops) - needed by
       "double-delivery", see C12_checker_double_submit_refuted;
     - no OTake reports a call whose hand-off had been abandoned ([takes_clean]: the second conjunct of the
       clause "leak" is a function of the op list alone, because an OTake op records which call the driver SAW
       being served) - needed by "leak", and exactly so: C12_checker_accepts_model_iff.
   The clauses "forwarded-invalid", "fields-differ", "stream-ended", "decision-dropped" and the size half of "leak"
   need no premise (C12_checker_observation_clauses). *)
Theorem C12_checker_accepts_model : forall i l,
  NoDup (map fst (Check_C12.submitted l)) ->
  Check_C12.taken_after_abandon l [] [] = false ->
  Check_C12.violation (Check_C12_proofs.model_case i l) = None.
Proof. exact Check_C12_accepts.checker_accepts_model. Qed.
Print Assumptions C12_checker_accepts_model.

Theorem C12_checker_accepts_model_iff : forall i l,
  NoDup (map fst (Check_C12.submitted l)) ->
  (Check_C12.violation (Check_C12_proofs.model_case i l) = None <->
   Check_C12.taken_after_abandon l [] [] = false).
Proof. exact Check_C12_accepts.checker_accepts_model_iff. Qed.
Print Assumptions C12_checker_accepts_model_iff.

Theorem C12_checker_observation_clauses : forall i l,
  Check_C12.chk_forwarded_valid (Check_C12_proofs.model_case i l) = true /\
  Check_C12.chk_fields (Check_C12_proofs.model_case i l) = true /\
  Check_C12.chk_stream (Check_C12_proofs.model_case i l) = true /\
  Check_C12.chk_not_dropped (Check_C12_proofs.model_case i l) = true /\
  (Check_C12.o_pending (Check_C12.ob (Check_C12_proofs.model_case i l)) <=?
   N.of_nat (length (Check_C12.dedup_bytes (Check_C12.live_digests (Check_C12_proofs.model_case i l))))) = true.
Proof. exact Check_C12_accepts.checker_accepts_model_observation_clauses. Qed.
Print Assumptions C12_checker_observation_clauses.

(* What the second premise means: it holds for every op list whose OTake ops are all performed by the machine
   (the named call is still offered when the op is reached; [takes_effective] replays the machine along the list),
   i.e. for every op list the machine itself could have produced.  The driver records an OTake only for a call
   it saw being served. *)
Theorem C12_checker_accepts_model_effective : forall i l,
  NoDup (map fst (Check_C12.submitted l)) ->
  Check_C12_accepts.takes_effective init l = true ->
  Check_C12.violation (Check_C12_proofs.model_case i l) = None.
Proof. exact Check_C12_accepts.checker_accepts_model_effective. Qed.
Print Assumptions C12_checker_accepts_model_effective.

(* Both premises are necessary: with the identifier 1 submitted twice the prediction lists call 1 twice and
   "double-delivery" counts its one delivery twice; with an OTake of a call abandoned before, "leak" fires
   whatever the observation is. *)
Theorem C12_checker_double_submit_refuted :
  ~ NoDup (map fst (Check_C12.submitted Check_C12_accepts.l_double_submit)) /\
  Check_C12.taken_after_abandon Check_C12_accepts.l_double_submit [] [] = false /\
  Check_C12.violation (Check_C12_proofs.model_case 0 Check_C12_accepts.l_double_submit) = Some "double-delivery"%string.
Proof. exact Check_C12_accepts.double_submit_refuted. Qed.
Print Assumptions C12_checker_double_submit_refuted.

Theorem C12_checker_take_after_abandon_refuted :
  NoDup (map fst (Check_C12.submitted Check_C12_accepts.l_take_after_abandon)) /\
  Check_C12.taken_after_abandon Check_C12_accepts.l_take_after_abandon [] [] <> false /\
  Check_C12.violation (Check_C12_proofs.model_case 0 Check_C12_accepts.l_take_after_abandon) = Some "leak"%string.
Proof. exact Check_C12_accepts.take_after_abandon_refuted. Qed.
Print Assumptions C12_checker_take_after_abandon_refuted.
(* Non-vacuity: ex_checker_accepts_model (proofs/Check_C12_accepts.v). *)

(* Entries of calls whose context ends AFTER the hand-off.  The end of the context of a call that already got
   its channel back is no event of the service (the step is the identity), and an entry leaves the map only
   through a decision for its digest, an abandon of a still-offered call with that digest, or a submission
   with that digest (which replaces it) ... *)
Theorem C12_cancel_after_handoff_noop : forall s h b,
  nget h (calls s) = Some (PHanded b) -> step rules_validators s (Abandon h) = s.
Proof. exact Check_C12_accepts.cancel_after_handoff_noop. Qed.
Print Assumptions C12_cancel_after_handoff_noop.

Theorem C12_entry_persists : forall s e d h,
  In (d, h) (pending s) ->
  In (d, h) (pending (step rules_validators s e)) \/
  (exists sid st, e = Lookup sid d st) \/
  (exists h' b, e = Abandon h' /\ nget h' (calls s) = Some (POffered b) /\ b_dig b = d) \/
  (exists h' b, e = Submit h' b /\ b_dig b = d).
Proof. exact Check_C12_accepts.entry_persists. Qed.
Print Assumptions C12_entry_persists.

(* ... so the map grows by exactly one entry per such call: n well-formed bids with pairwise distinct digests,
   each submitted under a fresh identifier, handed to an engine stream, then its context ended (the handler of
   pkg/preconfirmation gives up after 5 s) leave exactly n entries, in this order; every one of these calls got
   its channel back and nothing was delivered.  Only an engine decision for the digest (or a later bid with an
   equal digest) ever removes such an entry: the service has no other bound on the size of the map.
   (Driver class "timeout-after-handoff" observes the same size on the implementation.) *)
Theorem C12_timeout_after_handoff_leaves_entry : forall hbs : list (N * bid),
  NoDup (map fst hbs) -> NoDup (map (fun hb => b_dig (snd hb)) hbs) ->
  (forall hb, In hb hbs -> vbid rules_validators (to_engine (snd hb)) = true) ->
  let s := run rules_validators (flat_map Check_C12_accepts.handoff_timeout hbs) in
  pending s = rev (map (fun hb => (b_dig (snd hb), fst hb)) hbs) /\
  length (pending s) = length hbs /\
  (forall hb, In hb hbs -> nget (fst hb) (calls s) = Some (PHanded (snd hb)) /\ cget (fst hb) s = CEmpty) /\
  delivered s = [].
Proof. exact Check_C12_accepts.timeout_after_handoff_leaves_entry. Qed.
Print Assumptions C12_timeout_after_handoff_leaves_entry.
(* Non-vacuity: ex_timeout_after_handoff (proofs/Check_C12_accepts.v). *)
