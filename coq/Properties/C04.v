(* C04 -- Peers are enrolled only after a handshake proving address, role and stake.
   Statements only; every proof is [exact <lemma>].

   Vocabulary (model/Handshake.v):
     handle / handshake      = handshake.Service.Handle (responder) / .Handshake (initiator), as pure
                               functions of the node's own configuration c, the oracles o
                               (verify = signer.Verify, addr_of_pid = address of the authenticated
                               transport peer id, registered = CheckProviderRegistered), the set of
                               failing writes wfail and the script of incoming frames;
     inbound / outbound      = effects of Service.handleConnectReq / Service.Connect around them
                               (ERegister = peers.addPeer created the entry, ENotify =
                               notifier.Connected, EReturnPeer = Connect hands the peer to its caller,
                               EClosePeer = the connection is closed, EBlock d);
     has_notifier, add       = whether a notifier is set, and the outcome of peers.addPeer
                               (all outcomes are covered).
   All theorems hold for every script (any length, any contents), every oracle, every write-failure
   pattern, every local configuration. *)
From Coq Require Import String List NArith ZArith Bool.
From MevVerif Require Import lib.Bytes gen.Generated model.Handshake check.Check_C04 proofs.Handshake_proofs.
Import ListNotations.
Open Scope Z_scope.

(* Responder.  If the remote is registered as (A, T), or announced as connected with (A, T), then
   the first frame was a request (role, token, sig) with T = FromString(role), the signature over
   role ++ token verified and recovered A, A is the address of the transport identity, a provider
   was confirmed by the registry through exactly one lookup, for A (no lookup otherwise), and the
   second frame echoed this node's own address and role. *)
Theorem C04_responder : forall c o wfail script has_notifier add A T,
  In (ERegister A T) (inbound c o wfail script has_notifier add) \/
  In (ENotify A T) (inbound c o wfail script has_notifier add) ->
  exists role token sig ea er f1 f2 rest,
    script = f1 :: f2 :: rest /\
    as_req f1 = Some (role, token, sig) /\ T = role_of_string role /\
    verify o sig (role ++ token) = VOk true A /\
    addr_of_pid o = POk A /\
    (T = type_provider -> registered o A = true /\ lookups (handle c o wfail script) = [A]) /\
    (T <> type_provider -> lookups (handle c o wfail script) = []) /\
    as_resp f2 = Some (ea, er) /\ ea = own_addr c /\ er = role_string (own_type c) /\
    res (handle c o wfail script) = Enrol A T.
Proof. exact responder_sound. Qed.
Print Assumptions C04_responder.

(* Initiator.  The same, and the responder's echo of (own address, own role) comes first. *)
Theorem C04_initiator : forall c o wfail script add A T,
  In (ERegister A T) (outbound c o wfail script add) \/
  In (EReturnPeer A T) (outbound c o wfail script add) ->
  exists role token sig ea er f1 f2 rest,
    script = f1 :: f2 :: rest /\
    as_resp f1 = Some (ea, er) /\ ea = own_addr c /\ er = role_string (own_type c) /\
    as_req f2 = Some (role, token, sig) /\ T = role_of_string role /\
    verify o sig (role ++ token) = VOk true A /\
    addr_of_pid o = POk A /\
    (T = type_provider -> registered o A = true /\ lookups (handshake c o wfail script) = [A]) /\
    (T <> type_provider -> lookups (handshake c o wfail script) = []) /\
    res (handshake c o wfail script) = Enrol A T.
Proof. exact initiator_sound. Qed.
Print Assumptions C04_initiator.

(* The rest of the node is told "connected (A, T)" only together with, and right after, the registration
   that actually added the peer, and only on an admissible transcript: the inbound effects are then
   exactly [Register; Notify].  (Before the repair of addPeer a peer on an already closed connection
   was announced without being registered: Handshake_proofs.handle_connect_req_v0_refuted.) *)
Theorem C04_notify_only_after_register : forall c o wfail script has_notifier add A T,
  In (ENotify A T) (inbound c o wfail script has_notifier add) ->
  inbound c o wfail script has_notifier add = [ERegister A T; ENotify A T] /\
  add = Added /\ resp_ok c o wfail script A T.
Proof. exact notify_only_after_register. Qed.
Print Assumptions C04_notify_only_after_register.

(* The handshake result is Enrol (A, T) exactly for the admissible transcripts
   (resp_ok / init_ok: request proving (A, role) + echo of our own (address, role), no failed write). *)
Theorem C04_exact_responder : forall c o wfail script A T,
  res (handle c o wfail script) = Enrol A T <-> resp_ok c o wfail script A T.
Proof. exact handle_enrol_iff. Qed.
Print Assumptions C04_exact_responder.

Theorem C04_exact_initiator : forall c o wfail script A T,
  res (handshake c o wfail script) = Enrol A T <-> init_ok c o wfail script A T.
Proof. exact handshake_enrol_iff. Qed.
Print Assumptions C04_exact_initiator.

(* Every other transcript: the handshake refuses, the connection is closed, and nothing is
   registered, announced or returned -- whatever addPeer would have answered. *)
Theorem C04_refuse_responder : forall c o wfail script,
  (forall A T, ~ resp_ok c o wfail script A T) ->
  exists cl, res (handle c o wfail script) = Refuse cl /\
    forall has_notifier add,
      let eff := inbound c o wfail script has_notifier add in
      In EClosePeer eff /\ forall e, In e eff -> announces e = false.
Proof. exact refuse_responder. Qed.
Print Assumptions C04_refuse_responder.

Theorem C04_refuse_initiator : forall c o wfail script,
  (forall A T, ~ init_ok c o wfail script A T) ->
  exists cl, res (handshake c o wfail script) = Refuse cl /\
    forall add,
      let eff := outbound c o wfail script add in
      In EClosePeer eff /\ In (EReturnErr cl) eff /\ forall e, In e eff -> announces e = false.
Proof. exact refuse_initiator. Qed.
Print Assumptions C04_refuse_initiator.

(* Admissible transcripts are accepted (so the two theorems above are not satisfied by a node that
   refuses everybody). *)
Theorem C04_accept_responder : forall c o wfail script A T has_notifier,
  resp_ok c o wfail script A T ->
  inbound c o wfail script has_notifier Added =
  ERegister A T :: (if has_notifier then [ENotify A T] else []).
Proof. exact accept_responder. Qed.
Print Assumptions C04_accept_responder.

Theorem C04_accept_initiator : forall c o wfail script A T,
  init_ok c o wfail script A T ->
  outbound c o wfail script Added = [ERegister A T; EReturnPeer A T].
Proof. exact accept_initiator. Qed.
Print Assumptions C04_accept_initiator.

(* Registry questions, whatever the outcome: at most one, and only about an address that a verified
   signature recovered and that is the transport identity's, for the claimed role "provider". *)
Theorem C04_lookups : forall c o wfail script,
  lookups (handle c o wfail script) = [] \/
  exists role token sig a f1 rest,
    script = f1 :: rest /\ as_req f1 = Some (role, token, sig) /\
    lookups (handle c o wfail script) = [a] /\
    verify o sig (role ++ token) = VOk true a /\ addr_of_pid o = POk a /\ role = provider_string.
Proof. exact handle_lookups_any. Qed.
Print Assumptions C04_lookups.

(* The responder writes nothing (no echo, no own request) to a remote that has not proved itself. *)
Theorem C04_no_answer_before_proof : forall c o wfail script,
  written (handle c o wfail script) <> [] ->
  exists role token sig A f1 rest,
    script = f1 :: rest /\ as_req f1 = Some (role, token, sig) /\ proves o role token sig A /\
    hd_error (written (handle c o wfail script)) = Some (WResp A role).
Proof. exact handle_writes_only_after_proof. Qed.
Print Assumptions C04_no_answer_before_proof.

(* The initiator asks no signature or registry question before its own request was echoed. *)
Theorem C04_no_question_before_echo : forall c o wfail script,
  verifies (handshake c o wfail script) <> [] \/ lookups (handshake c o wfail script) <> [] ->
  exists ea er f1 rest, script = f1 :: rest /\ as_resp f1 = Some (ea, er) /\ echo_is_own c ea er.
Proof. exact handshake_no_question_before_echo. Qed.
Print Assumptions C04_no_question_before_echo.

(* What is signed is role ++ token with no separator.  For the role strings p2p.FromString knows
   (valid_roles = its three literals, regenerated from p2p.go) the split is unique: a signature cannot
   be moved between two of them. *)
Theorem C04_role_prefix_free : forall r1 r2 t1 t2,
  In r1 valid_roles -> In r2 valid_roles -> r1 ++ t1 = r2 ++ t2 -> r1 = r2 /\ t1 = t2.
Proof. exact role_prefix_free. Qed.
Print Assumptions C04_role_prefix_free.

(* FINDING recorded as a theorem: verifyReq accepts any role string; outside the three known ones the
   split of the signed text is ambiguous (and such a peer is enrolled with PeerType -1, see
   Handshake_proofs.unknown_role_enrolled). *)
Theorem C04_role_ambiguous_outside_valid_roles :
  exists r1 t1 r2 t2, In r1 valid_roles /\ ~ In r2 valid_roles /\ r1 <> r2 /\
                      signed_data r1 t1 = signed_data r2 t2.
Proof. exact role_concat_ambiguous_outside_valid_roles. Qed.
Print Assumptions C04_role_ambiguous_outside_valid_roles.

(* Blocks placed on refusal, from the tables regenerated from libp2p.go. *)
Theorem C04_refusal_blocks : forall add has_notifier,
  handle_connect_req has_notifier add (Refuse RSig) = [EResetStream; EClosePeer; EBlock 0] /\
  handle_connect_req has_notifier add (Refuse RAddr) = [EResetStream; EClosePeer; EBlock 0] /\
  handle_connect_req has_notifier add (Refuse RStake) = [EResetStream; EClosePeer; EBlock 120000000000] /\
  connect add (Refuse RSig) = [EClosePeer; EBlock 0; EReturnErr RSig] /\
  connect add (Refuse RAddr) = [EClosePeer; EBlock 0; EReturnErr RAddr] /\
  connect add (Refuse RStake) = [EClosePeer; EBlock 300000000000; EReturnErr RStake] /\
  (forall c, c <> RSig -> c <> RAddr -> c <> RStake ->
     handle_connect_req has_notifier add (Refuse c) = [EResetStream; EClosePeer] /\
     connect add (Refuse c) = [EClosePeer; EReturnErr c]).
Proof. exact refusal_blocks. Qed.
Print Assumptions C04_refusal_blocks.

(* Assembly (libp2p.New, handleConnectReq, Connect) as extracted from the source on this run. *)
Theorem C04_wiring : wiring_as_modelled.
Proof. exact wiring_fact. Qed.
Print Assumptions C04_wiring.

(* The run-time property checker (check/Check_C04.v) and the theorems fit together: on a scripted case
   whose observation equals the model's prediction it reports nothing (so a VIOLATION always stems from
   an observation the model does not allow), and when it reports nothing for an observed enrolment
   (A, T) the clauses of C04 hold on the ground truth computed by the driver. *)
Theorem C04_checker_accepts_model : forall c,
  mode c = 0%N -> o_wrap c = None -> agrees c = true -> violation c = [].
Proof. exact checker_accepts_model. Qed.
Print Assumptions C04_checker_accepts_model.

(* the same for end-to-end cases (wrapper observations: registered, Connected / Disconnected calls, block,
   closure, registry record read back) of a fresh remote: when the observation equals the model's prediction
   none of the clauses enrolled-without:*, effect-on-refusal, refused-left-open, refused-still-registered
   fires *)
Theorem C04_checker_accepts_model_e2e : forall c w,
  mode c <> 0%N -> o_wrap c = Some w -> prior c = None -> stall c = false ->
  agrees c = true -> violation c = [].
Proof. exact checker_accepts_model_e2e. Qed.
Print Assumptions C04_checker_accepts_model_e2e.

Theorem C04_checker_sound : forall c A T,
  enrol_violation c A T = None ->
  exists role token sig ea er,
    claimed c = Some (role, token, sig) /\ echoed c = Some (ea, er) /\
    vlookup (vtab c) sig (role ++ token) = Some (VOk true A) /\ T = role_of_string role /\
    pid c = POk A /\
    (T = type_provider -> mem A (staked c) = true /\ mem A (o_lookups c) = true) /\
    ea = own_addr (cfg c) /\ er = role_string (own_type (cfg c)).
Proof. exact checker_sound. Qed.
Print Assumptions C04_checker_sound.

(* ---- Connect's tail and head; one remote over time ----------------------------------------------------------
   Connect tells its caller "connected (A, T)" only when the remote is in the peer registry at that point
   (registered by this call, or found by getPeer after addPeer answered "exists"); when the connection
   closed during an admissible handshake nothing is registered and the caller gets ErrPeerNotFound.
   [connect_tail add known] is the tail of Connect with [known] = the answer of getPeer after addPeer said
   "exists"; [connect add] = [connect_tail add true] (used by C04_initiator and the blocking theorems; the
   refusal branch does not depend on [known]).  connect_tail_v1, the wrapper before commit ad08637, is
   refuted: Handshake_proofs.connect_tail_v1_refuted. *)
Theorem C04_outbound_told_implies_known : forall add known r A T,
  In (EReturnPeer A T) (connect_tail add known r) ->
  r = Enrol A T /\ known_after add known = true /\
  (add = Added -> connect_tail add known r = [ERegister A T; EReturnPeer A T]) /\
  (add = NotAdded -> connect_tail add known r = [EReturnPeer A T]).
Proof. exact outbound_told_implies_known. Qed.
Print Assumptions C04_outbound_told_implies_known.

Theorem C04_outbound_gone : forall add known a t,
  known_after add known = false -> connect_tail add known (Enrol a t) = [EReturnNotFound].
Proof. exact outbound_gone. Qed.
Print Assumptions C04_outbound_gone.

(* The node over time (model/Handshake.v, node_step): state = the registry entry of the remote; events =
   inbound handshake streams, calls of Connect, loss of the last connection; each event carries its own
   oracle answers.  Connect first asks isConnected and returns a present entry WITHOUT any handshake.
   Invariant: an entry (A, T) is backed -- some earlier event carried an admissible handshake for (A, T)
   and the remote was not disconnected since. *)
Theorem C04_entry_backed : forall c evs A T,
  node_run c evs = Some (A, T) -> backed c evs A T.
Proof. exact node_entry_backed. Qed.
Print Assumptions C04_entry_backed.

(* For every history and every next event: a Register or Notify effect for (A, T) is produced only by an
   event whose OWN handshake is admissible with the answers (signature, transport identity, registry)
   given during that event -- "at that moment" -- and only when there was no entry; a peer returned by
   Connect is either that, or the short cut: then it is exactly the registered record, no handshake and no
   registry question take place, and what C04 guarantees is that the record stems from an admissible
   handshake of the current connection period (the stake was confirmed then, it is NOT confirmed again). *)
Theorem C04_announcements_in_histories : forall c evs ev e A T,
  In e (snd (node_step c (node_run c evs) ev)) ->
  (e = ERegister A T \/ e = ENotify A T -> event_proves c ev A T /\ node_run c evs = None) /\
  (e = EReturnPeer A T ->
     (event_proves c ev A T /\ node_run c evs = None /\ node_run c (evs ++ [ev]) = Some (A, T)) \/
     (exists o wf sc cl, ev = EvConnect o wf sc cl /\ node_run c evs = Some (A, T) /\ backed c evs A T /\
                         snd (node_step c (node_run c evs) ev) = [EReturnPeer A T])).
Proof. exact node_announcements. Qed.
Print Assumptions C04_announcements_in_histories.
(* A refused inbound handshake evicts the remote, on whichever of its transport connections it ran:
   ClosePeer closes ALL connections of the peer id, so an entry that an earlier admissible handshake
   created (possibly on another, still open connection) is gone afterwards, the notifier is told
   Disconnected for it, and nothing is announced.  "Every other transcript ends with the connection
   refused and no peer registered" -- also for a peer that had been enrolled before. *)
Theorem C04_refusal_evicts : forall c evs o wf sc hn cl,
  (forall A T, ~ resp_ok c o wf sc A T) ->
  let ev := EvInbound o wf sc hn cl in
  let eff := snd (node_step c (node_run c evs) ev) in
  node_run c (evs ++ [ev]) = None /\
  In EClosePeer eff /\
  (forall a t, node_run c evs = Some (a, t) -> In (ENotifyGone a t) eff) /\
  (forall e, In e eff -> announces e = false).
Proof. exact refusal_evicts. Qed.
Print Assumptions C04_refusal_evicts.

(* Connect runs a handshake only when there is no entry; refused, there is none afterwards either. *)
Theorem C04_refusal_outbound_leaves_nothing : forall c evs o wf sc cl,
  node_run c evs = None -> (forall A T, ~ init_ok c o wf sc A T) ->
  let ev := EvConnect o wf sc cl in
  node_run c (evs ++ [ev]) = None /\ In EClosePeer (snd (node_step c (node_run c evs) ev)).
Proof. exact refusal_outbound_leaves_nothing. Qed.
Print Assumptions C04_refusal_outbound_leaves_nothing.

(* That handshake.Service itself keeps nothing between handshakes is the shape of the model ([handle] and
   [handshake] have no state argument), not a theorem; it is what the driver's session classes test (a
   prelude of handshakes on one long-lived Service, registry answers changing in between). *)

(* ---- a remote that stalls --------------------------------------------------------------------------------------
   [handle_waits] / [handshake_waits]: the run has consumed everything that arrived and is blocked in a
   read.  The handshake has NO deadline of its own: the read ends only with the context it was given --
   handleConnectReq passes the Service's base context (ended by Close only), Connect its caller's.  While
   it waits no (A, T) is admissible for what has arrived, hence (C04_responder / C04_initiator) nothing is
   registered, announced or returned; once the context ends the read -- whatever arrives later -- the
   outcome is a read refusal: all connections of the peer closed, no block, nothing announced.  The
   "connection refused" half of C04 for a staller therefore rests on that context ending (interpretation:
   a stalled exchange is not yet a transcript; it becomes the truncated one when the read is cancelled). *)
Theorem C04_stalled_responder : forall c o wfail script,
  handle_waits c o wfail script = true ->
  (forall A T, ~ resp_ok c o wfail script A T) /\
  (forall more, handle c o wfail (script ++ eof :: more) = handle c o wfail script) /\
  res (handle c o wfail script) = Refuse RRead /\
  (forall more has_notifier add,
     inbound c o wfail (script ++ eof :: more) has_notifier add = [EResetStream; EClosePeer]).
Proof. exact stalled_responder. Qed.
Print Assumptions C04_stalled_responder.

Theorem C04_stalled_initiator : forall c o wfail script,
  handshake_waits c o wfail script = true ->
  (forall A T, ~ init_ok c o wfail script A T) /\
  (forall more, handshake c o wfail (script ++ eof :: more) = handshake c o wfail script) /\
  res (handshake c o wfail script) = Refuse RRead /\
  (forall more add,
     outbound c o wfail (script ++ eof :: more) add = [EClosePeer; EReturnErr RRead]).
Proof. exact stalled_initiator. Qed.
Print Assumptions C04_stalled_initiator.

(* The stake gate and the role: a remote is enrolled as provider, and the registry is asked, for the
   exact string "provider" only; every other role string whose signature verifies is enrolled WITHOUT a
   registry question -- "bootnode"/"bidder" with their type, any other string (e.g. "Provider",
   " provider", "") with p2p.PeerType(-1).  (Recorded finding: such unknown-role peers are registered
   and announced; C04 as worded is not violated, they are not providers.) *)
Theorem C04_provider_exactly : forall c o wfail script A T role token sig f1 rest,
  script = f1 :: rest -> as_req f1 = Some (role, token, sig) ->
  res (handle c o wfail script) = Enrol A T ->
  (T = type_provider <-> role = provider_string) /\
  (lookups (handle c o wfail script) <> [] <-> role = provider_string) /\
  (T = -1 <-> ~ In role valid_roles).
Proof. exact provider_exactly. Qed.
Print Assumptions C04_provider_exactly.

(* ---- composition with C17 (proofs/Compose_p2p.v) -----------------------------------------------------------
   The EBlock effects above are the Block events of model/Blocklist.v ([Compose_p2p.block_events p t0 effs]:
   blockPeer on the remote peer id p at time t0 for every EBlock among the effects of one call).  From the
   inputs of a handshake to the answers of the blocklist and of the gater, for every configuration, script
   tail, write-failure pattern, and whatever the list saw before (pre) and sees afterwards (post).
   Non-vacuity: Compose_p2p.ex_refusals, Compose_p2p.ex_blocked_later. *)
From MevVerif Require model.Blocklist proofs.Compose_p2p.

(* C04 o C17 (C17_permanent, C17_gater_calls).  A remote whose request carries a signature that does not
   verify is refused: the connection is closed, nothing is registered, announced or returned, and from
   then on the peer is blocked at every time and the gater (as wired by libp2p.New) refuses to dial it and
   refuses its secured connections. *)
Theorem C04_bad_signature_blocked_for_ever :
  forall c o wfail f1 rest role token sig p t0 pre post has_notifier add,
  as_req f1 = Some (role, token, sig) ->
  (forall a, verify o sig (role ++ token) <> VOk true a) ->
  let effs := inbound c o wfail (f1 :: rest) has_notifier add in
  In EClosePeer effs /\ (forall e, In e effs -> announces e = false) /\
  forall t,
    Blocklist.query_answer Blocklist.wiring_now (pre ++ Compose_p2p.block_events p t0 effs ++ post) p t = true /\
    Blocklist.dial_answer Blocklist.wiring_now (pre ++ Compose_p2p.block_events p t0 effs ++ post) p t = false /\
    Blocklist.secured_answer Blocklist.wiring_now (pre ++ Compose_p2p.block_events p t0 effs ++ post) p t = false.
Proof. exact Compose_p2p.bad_signature_blocked_for_ever. Qed.
Print Assumptions C04_bad_signature_blocked_for_ever.

(* The same for a verified signature whose recovered address is not the address of the authenticated
   transport identity. *)
Theorem C04_address_mismatch_blocked_for_ever :
  forall c o wfail f1 rest role token sig a observed p t0 pre post has_notifier add,
  as_req f1 = Some (role, token, sig) ->
  verify o sig (role ++ token) = VOk true a -> addr_of_pid o = POk observed -> observed <> a ->
  let effs := inbound c o wfail (f1 :: rest) has_notifier add in
  In EClosePeer effs /\ (forall e, In e effs -> announces e = false) /\
  forall t,
    Blocklist.query_answer Blocklist.wiring_now (pre ++ Compose_p2p.block_events p t0 effs ++ post) p t = true /\
    Blocklist.dial_answer Blocklist.wiring_now (pre ++ Compose_p2p.block_events p t0 effs ++ post) p t = false /\
    Blocklist.secured_answer Blocklist.wiring_now (pre ++ Compose_p2p.block_events p t0 effs ++ post) p t = false.
Proof. exact Compose_p2p.address_mismatch_blocked_for_ever. Qed.
Print Assumptions C04_address_mismatch_blocked_for_ever.

(* A provider request with a verified, matching address but no confirmed stake is refused with the stake
   error (the timed block of C17_inbound_stake_failure_blocks_full_term). *)
Theorem C04_unstaked_provider_refused : forall c o wfail f1 rest token sig a,
  as_req f1 = Some (provider_string, token, sig) ->
  verify o sig (provider_string ++ token) = VOk true a -> addr_of_pid o = POk a -> registered o a = false ->
  res (handle c o wfail (f1 :: rest)) = Refuse RStake.
Proof. exact Compose_p2p.handle_refuses_unstaked_provider. Qed.
Print Assumptions C04_unstaked_provider_refused.

(* Every other outcome (enrolment; refusal for a failed read or write, an unusable peer id, a wrong
   echo) places no block at all. *)
Theorem C04_other_outcomes_do_not_block : forall c o wfail script p t0 has_notifier add,
  (forall cl, res (handle c o wfail script) = Refuse cl -> cl <> RSig /\ cl <> RAddr /\ cl <> RStake) ->
  Compose_p2p.block_events p t0 (inbound c o wfail script has_notifier add) = [].
Proof. exact Compose_p2p.other_outcomes_do_not_block. Qed.
Print Assumptions C04_other_outcomes_do_not_block.

(* C04 o C14.  The [add] value of the theorems above instantiated by the registry model
   (model/PeerRegistry.v, [Compose_p2p.add_of]): the two models of the tail of handleConnectReq agree on
   when notifier.Connected is called. *)
From MevVerif Require model.PeerRegistry.
Theorem C04_announce_models_agree : forall r c pe closed A T,
  In (ENotify A T) (handle_connect_req true (Compose_p2p.add_of r c pe closed) (Enrol A T)) <->
  PeerRegistry.inbound_announces r c pe closed = true.
Proof. exact Compose_p2p.announce_models_agree. Qed.
Print Assumptions C04_announce_models_agree.

(* PeerType.String and p2p.FromString of the model are not hand-written knowledge: [c04_role_string_fn] and
   [c04_role_of_string_fn] are regenerated on every run from the two function bodies by the translator of
   harness/extract (switch on an integer resp. a string; the PeerType constants evaluated with iota).  For all
   arguments they equal the model's functions, so every theorem above that mentions a role string or a role code
   is a theorem about the translated source text. *)
Theorem C04_model_is_translation_of_source_role_string : forall t : Z,
  c04_role_string_fn t = role_string t.
Proof. exact Handshake_proofs.role_string_translation. Qed.
Print Assumptions C04_model_is_translation_of_source_role_string.

Theorem C04_model_is_translation_of_source_role_of_string : forall s : bytes,
  c04_role_of_string_fn s = role_of_string s.
Proof. exact Handshake_proofs.role_of_string_translation. Qed.
Print Assumptions C04_model_is_translation_of_source_role_of_string.
