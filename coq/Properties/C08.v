(* C08 -- the transaction sender never reuses or skips nonces and bounds its in-flight window.
   Statements only; every proof is [exact <lemma>].

   Vocabulary (model/EvmSend.v).  A history [ops] is any list of
     Send rq a  -- one Send call with the answers [a] of every external call made for it
                   (PendingNonceAt = [pending a], None meaning error; EstimateGas, SuggestGasTipCap,
                   SuggestGasPrice, SignTx, SendTransaction each succeed or fail);
     Conf v     -- the node reports confirmed nonce v to the monitor;
     Restart    -- a new client on the same node.
   Concurrent Sends are serialised by the client mutex: the order of the list is the order in
   which they hold it (= arrival order at the node).  [run init ops] is what the node sees:
     TSend p r with r = Accepted n (the node took a transaction with nonce n and Send returned nil),
     Rejected n (it reached the node, which answered an error), NoTx (Send failed before);
     TConf v; TRestart.
   [wf_ops ops]: the node never reports 2^64-1025 as confirmed nonce (the only value for which
   nonce 2^64-1, after which no larger nonce exists, passes the window test). *)
From Coq Require Import String List NArith Bool.
From MevVerif Require Import lib.Bytes gen.Generated model.EvmSend check.Check_C08 proofs.EvmSend_proofs.
Import ListNotations.
Open Scope N_scope.

(* Every accepted transaction carries a nonce strictly greater than every earlier accepted one of
   the same client: for all pending answers (stale, wrong, zero), all failures, all interleavings. *)
Theorem C08_monotone : forall ops pre p1 n1 mid p2 n2 post,
  wf_ops ops ->
  run init ops = pre ++ TSend p1 (Accepted n1) :: mid ++ TSend p2 (Accepted n2) :: post ->
  no_restart mid -> n1 < n2.
Proof. exact monotone. Qed.
Print Assumptions C08_monotone.

(* Across client restarts.  What is proved with a premise on the node's answers only: once ONE pending
   answer given to the restarted client (up to and including the one for this request) is above a nonce
   accepted before the restart, every nonce the new client gets accepted from then on is above that nonce
   (together with C08_first_after_restart: its first accepted nonce is exactly the highest pending answer it
   has received). *)
Theorem C08_restart_fresh_answer : forall ops pre mid p2 n2 post n1 q,
  wf_ops ops ->
  run init ops = pre ++ TRestart :: mid ++ TSend p2 (Accepted n2) :: post ->
  no_restart mid ->
  In q (pendings (mid ++ [TSend p2 (Accepted n2)])) -> n1 < q -> n1 < n2.
Proof. exact restart_fresh_answer. Qed.
Print Assumptions C08_restart_fresh_answer.

(* The same for whole histories with any number of restarts, under the decidable premise [sync_ok]: no
   client that has not yet learnt a non-zero nonce (since its start all its pending answers were errors or 0
   and nothing was accepted) is given a pending answer at or below a nonce accepted earlier.
   WHAT REMAINS UNPROVED WITHOUT IT, and is in fact false (next theorem): ordering between a nonce accepted
   before a restart and one accepted after it when every answer the restarted client received so far is
   stale (at or below that nonce).  The property's quantifier lists "client restarts at any point" and
   "stale pending answers" together; for that combination the code -- like any client that keeps its counter
   in memory only -- reuses nonces.  Everything else of the clause (one client's lifetime: C08_monotone with
   no condition on the answers; restart followed by at least one non-stale answer: C08_restart_fresh_answer)
   holds outright. *)
Theorem C08_restart : forall ops pre p1 n1 mid p2 n2 post,
  wf_ops ops -> sync_ok (run init ops) = true ->
  run init ops = pre ++ TSend p1 (Accepted n1) :: mid ++ TSend p2 (Accepted n2) :: post ->
  n1 < n2.
Proof. exact monotone_restart. Qed.
Print Assumptions C08_restart.

(* The premise is needed: nonce 0 accepted, restart, stale answer 0 -> nonce 0 accepted again. *)
Theorem C08_restart_without_premise_refuted :
  exists ops pre p1 n1 mid p2 n2 post,
    wf_ops ops /\
    run init ops = pre ++ TSend p1 (Accepted n1) :: mid ++ TSend p2 (Accepted n2) :: post /\
    sync_ok (run init ops) = false /\ ~ n1 < n2.
Proof. exact restart_without_premise_refuted. Qed.
Print Assumptions C08_restart_without_premise_refuted.

(* Whatever reaches the node (accepted or rejected by it) is never below the pending nonce reported
   for that request (no premise). *)
Theorem C08_ge_pending : forall ops p r n,
  In (TSend (Some p) r) (run init ops) -> reached r = Some n -> p <= n.
Proof. exact ge_pending. Qed.
Print Assumptions C08_ge_pending.

(* Exactly one greater than the previous one when nothing failed in between and the node reported
   no higher pending nonce. *)
Theorem C08_succ : forall ops pre p1 n1 q n2 post,
  wf_ops ops ->
  run init ops = pre ++ TSend p1 (Accepted n1) :: TSend (Some q) (Accepted n2) :: post ->
  q <= n1 + 1 -> n2 = n1 + 1.
Proof. exact succ. Qed.
Print Assumptions C08_succ.

(* Requests failing in between (any number, at any call, including a transaction the node
   rejected) consume no nonce. *)
Theorem C08_fail_consumes_nothing : forall ops pre p1 n1 mid p2 n2 post,
  wf_ops ops ->
  run init ops = pre ++ TSend p1 (Accepted n1) :: mid ++ TSend p2 (Accepted n2) :: post ->
  no_restart mid -> accepted mid = [] ->
  (forall q, In q (pendings (mid ++ [TSend p2 (Accepted n2)])) -> q <= n1 + 1) ->
  n2 = n1 + 1.
Proof. exact fail_consumes_nothing. Qed.
Print Assumptions C08_fail_consumes_nothing.

(* No skip in general: the next accepted nonce is exactly the larger of previous+1 and the highest
   pending nonce the node reported since (outside transactions). *)
Theorem C08_no_skip : forall ops pre p1 n1 mid p2 n2 post,
  wf_ops ops ->
  run init ops = pre ++ TSend p1 (Accepted n1) :: mid ++ TSend p2 (Accepted n2) :: post ->
  no_restart mid -> accepted mid = [] ->
  n2 = N.max (n1 + 1) (max_list (pendings (mid ++ [TSend p2 (Accepted n2)]))).
Proof. exact next_exact. Qed.
Print Assumptions C08_no_skip.

(* The first accepted nonce of a client (account nonce zero or above) is the highest pending nonce
   reported to it so far: for the first client ... *)
Theorem C08_first : forall ops mid p n post,
  wf_ops ops ->
  run init ops = mid ++ TSend p (Accepted n) :: post ->
  no_restart mid -> accepted mid = [] ->
  n = max_list (pendings (mid ++ [TSend p (Accepted n)])).
Proof. exact first_exact. Qed.
Print Assumptions C08_first.

(* ... and after a restart at any point. *)
Theorem C08_first_after_restart : forall ops pre mid p n post,
  wf_ops ops ->
  run init ops = pre ++ TRestart :: mid ++ TSend p (Accepted n) :: post ->
  no_restart mid -> accepted mid = [] ->
  n = max_list (pendings (mid ++ [TSend p (Accepted n)])).
Proof. exact first_exact_restart. Qed.
Print Assumptions C08_first_after_restart.

(* A request in which any consulted call fails is not accepted (so, by the clauses above, it uses
   no nonce). *)
Theorem C08_failure_not_accepted : forall gn ctr cf rq a c' n,
  send_with gn ctr cf rq a = (c', Accepted n) ->
  pending a <> None /\ (gas_given rq = false -> est_ok a = true) /\ tip_ok a = true /\
  (price_given rq = false -> price_ok a = true) /\ sign_ok a = true /\ submit_ok a = true.
Proof. exact send_needs_all_calls. Qed.
Print Assumptions C08_failure_not_accepted.

(* No transaction reaches the node with a nonce more than 1024 beyond the highest confirmed nonce
   the node has reported (no premise at all: any uint64 contents, either getNonce variant; the
   uint64 wrap of lastConfirmedNonce + maxSentTxs only makes the test stricter). *)
Theorem C08_window : forall gn ops pre p r n post,
  run_with gn init ops = pre ++ TSend p r :: post -> reached r = Some n ->
  n <= max_list (confs pre) + 1024.
Proof. exact window. Qed.
Print Assumptions C08_window.

(* "All interleavings of concurrent send requests": a history is a sequence of WHOLE Send calls because Send
   takes the client mutex first and releases it by defer -- the calls c.mtx.Lock / c.mtx.Unlock inside
   EvmClient.Send are regenerated from evmclient.go on every run, so removing the lock breaks this build
   (and the driver's concurrent bursts observe the node-side order). *)
Theorem C08_send_serialised :
  Generated.c08_send_locks = true /\ Generated.c08_send_unlocks = true.
Proof. exact send_serialised_now. Qed.
Print Assumptions C08_send_serialised.

(* Tighter than mere presence, with the extractor kinds that exist (source text of call arguments and of
   assignments): one Lock call and one Unlock call; allowNonce and newTx are applied to the [nonce] that
   getNonce returned (a window test moved to the local counter changes this text); Send writes c.nonce only
   by ++, getNonce only with the node's PendingNonceAt answer (a reset "c.nonce = 0" changes this table).
   Position of Lock and the defer: C08_send_lock_first below; the order of the later statements is not pinned. *)
Theorem C08_send_source_shape :
  Generated.c08_send_lock_calls = [[]] /\ Generated.c08_send_unlock_calls = [[]] /\
  Generated.c08_send_getnonce_args = [[bos "ctx"]] /\
  Generated.c08_send_allow_args = [[bos "nonce"]] /\
  Generated.c08_send_newtx_args = [[bos "ctx"; bos "tx"; bos "nonce"]] /\
  Generated.c08_send_nonce_writes = [bos "++"] /\
  Generated.c08_getnonce_nonce_writes = [bos "accountNonce"; bos "accountNonce"] /\
  Generated.c08_getnonce_pending_args = [[bos "ctx"; bos "c.owner"]].
Proof. exact send_source_shape_now. Qed.
Print Assumptions C08_send_source_shape.

(* The first two statements of Send are "c.mtx.Lock()" and "defer c.mtx.Unlock()", and that is its only
   deferred call: every external call of a Send lies inside the critical section. *)
Theorem C08_send_lock_first :
  Generated.c08_send_top_stmts = [bos "c.mtx.Lock()"; bos "defer c.mtx.Unlock()"] /\
  Generated.c08_send_defers = [bos "c.mtx.Unlock()"].
Proof. exact send_lock_first_now. Qed.
Print Assumptions C08_send_lock_first.

(* The boolean checker the harness evaluates on every observed history (clauses nonce-reuse,
   below-pending, skipped, failure-consumed, window) never fires on a history of the model. *)
Theorem C08_checker_silent_on_model : forall ops,
  wf_ops ops -> check_trace (run init ops) = None.
Proof. exact checker_silent_on_model. Qed.
Print Assumptions C08_checker_silent_on_model.

(* getNonce as it was before commit a9d18e4 ("first nonce" early return): nonce 0 is reused. *)
Theorem C08_monotone_v0_refuted :
  exists ops pre p1 n1 mid p2 n2 post,
    wf_ops ops /\
    run_v0 init ops = pre ++ TSend p1 (Accepted n1) :: mid ++ TSend p2 (Accepted n2) :: post /\
    no_restart mid /\ ~ n1 < n2.
Proof. exact monotone_v0_refuted. Qed.
Print Assumptions C08_monotone_v0_refuted.

(* ---- composition with C10 (proofs/Compose_chain.v) -----------------------------------------------------------
   The combined machine [Compose_chain.crun cl ops] interleaves the operations above with CancelTx calls
   (OCancel: the target is one of the transactions accepted so far, named by position, or any other
   transaction the node knows -- CancelTx takes any hash; every other answer is free).  The three theorems
   below hold for every target.  [Compose_chain.strip ops] is the history with the cancellations removed,
   [Compose_chain.send_events t] the Send / Conf / Restart events of a combined trace.  Frame fact: CancelTx
   never assigns c.nonce and never stores the monitor's confirmed nonce -- regenerated from evmclient.go on
   every run (gen/Generated.v: c10_cancel_writes_nonce, c10_cancel_touches_confirmed; C10_cancel_frame); the
   CancelTx step of the combined machine leaves the sender's state alone only when
   [Compose_chain.machine_ok], computed from those and from the Lock / Unlock anchors of Send and CancelTx, holds.  Non-vacuity: Compose_chain.ex_chain. *)
From MevVerif Require model.Cancel proofs.Compose_chain.

(* C08 o C10.  What the node sees of the Send calls of a history with cancellations is exactly what it sees
   of the same history without them: a cancellation -- accepted, rejected or refused, of any target --
   consumes no nonce and leaves the sender's counter where it was; so every theorem above holds for the
   Send events of a combined history. *)
Theorem C08_cancel_transparent : forall cl ops,
  Compose_chain.send_events (Compose_chain.crun cl ops) = run init (Compose_chain.strip ops).
Proof. exact Compose_chain.cancel_transparent. Qed.
Print Assumptions C08_cancel_transparent.

(* In particular nonces of accepted Sends increase strictly whatever cancellations lie between them ... *)
Theorem C08_monotone_across_cancels : forall cl ops pre p1 n1 mid p2 n2 post,
  wf_ops (Compose_chain.strip ops) ->
  Compose_chain.crun cl ops =
    pre ++ Compose_chain.ESend (TSend p1 (Accepted n1)) :: mid ++ Compose_chain.ESend (TSend p2 (Accepted n2)) :: post ->
  no_restart (Compose_chain.send_events mid) -> n1 < n2.
Proof. exact Compose_chain.monotone_across_cancels. Qed.
Print Assumptions C08_monotone_across_cancels.

(* ... and none is skipped: the next accepted nonce is the larger of previous+1 and the highest pending
   answer since, however often the previous transaction was cancelled in between. *)
Theorem C08_no_skip_across_cancels : forall cl ops pre p1 n1 mid p2 n2 post,
  wf_ops (Compose_chain.strip ops) ->
  Compose_chain.crun cl ops =
    pre ++ Compose_chain.ESend (TSend p1 (Accepted n1)) :: mid ++ Compose_chain.ESend (TSend p2 (Accepted n2)) :: post ->
  no_restart (Compose_chain.send_events mid) -> accepted (Compose_chain.send_events mid) = [] ->
  n2 = N.max (n1 + 1) (max_list (pendings (Compose_chain.send_events mid ++ [TSend p2 (Accepted n2)]))).
Proof. exact Compose_chain.no_skip_across_cancels. Qed.
Print Assumptions C08_no_skip_across_cancels.

(* The frame fact is needed: in the machine whose CancelTx step may write the sender's state
   ([Compose_chain.crun_gen false]) a cancellation that resets the counter makes the next Send reuse a
   nonce; [Compose_chain.crun] is [crun_gen] at the flag computed from the source (C10_cancel_frame). *)
Theorem C08_cancel_frame_needed :
  exists cl ops,
    wf_ops (Compose_chain.strip ops) /\
    Compose_chain.send_events (Compose_chain.crun_gen false cl init [] ops) <> run init (Compose_chain.strip ops) /\
    accepted (Compose_chain.send_events (Compose_chain.crun_gen false cl init [] ops)) = [5; 5].
Proof. exact Compose_chain.frame_needed. Qed.
Print Assumptions C08_cancel_frame_needed.

(* ---- the nonce on the wire (model/EvmTx.v: the same Send with the transaction payload kept) -----------------
   Erasing the payload of EvmTx.send_tx gives exactly EvmSend.send, for every request, counter, confirmed nonce and
   node answers: every theorem of this file about accepted / rejected nonces is a theorem about the nonce field of
   the transactions on the wire.  Non-vacuity: EvmTx_proofs.ex_store_accepted. *)
From MevVerif Require model.EvmTx proofs.EvmTx_proofs.
Theorem C08_wire_nonce_is_machine_nonce : forall chain owner ctr conf rq a,
  let '(c, r, _) := EvmTx.send_tx chain owner ctr conf rq a in
  (c, EvmTx.erase r) = EvmSend.send ctr conf (EvmTx.req_of rq) (EvmTx.ans_of a).
Proof. exact EvmTx_proofs.send_tx_refines_send. Qed.
Print Assumptions C08_wire_nonce_is_machine_nonce.

(* ... over whole histories on one client *)
Theorem C08_wire_history_refines : forall chain owner l ctr,
  map (fun x => EvmTx.erase (fst x)) (EvmTx.run_tx chain owner ctr l) =
  EvmTx_proofs.run_send ctr (EvmTx_proofs.erase_ops l).
Proof. exact EvmTx_proofs.run_tx_refines. Qed.
Print Assumptions C08_wire_history_refines.

(* a request that fails before SendTransaction hands no transaction to the node *)
Theorem C08_failed_request_submits_nothing : forall chain owner ctr conf rq a c calls,
  EvmTx.send_tx chain owner ctr conf rq a = (c, EvmTx.TNoTx, calls) -> forall t, ~ In (EvmTx.CSubmit t) calls.
Proof. exact EvmTx_proofs.send_tx_no_tx_no_submit. Qed.
Print Assumptions C08_failed_request_submits_nothing.
