(* C15 -- Topology view and provider gossip follow connect/disconnect events exactly.
   Statements only; every proof is [exact <lemma>].

   Vocabulary (model/Topology.v): [run evs] is the state of the wired Topology+Discovery after the
   event list evs (any length); [step s e] gives the next state and the effects of one event:
   [Announce to recs] (Topology calls the announcer), [Wire to recs] (the PeerList Discovery writes
   on a stream to [to]), [Dial u] (Connect(u) called), [Add p] (the discovery worker calls
   AddPeers(p)).  Lookups and announcement faults are tables carried by the Connected event
   ([tbl_get lk q = None]: GetPeerInfo(q) fails).  [adds_of s e] is what event e puts into the
   views: Connected p -> [p]; AddPeers ps -> ps; ConnectDone u (Some p) -> [p] when a Connect(u) is
   in flight in s; nothing otherwise. *)
From Coq Require Import String List NArith ZArith Bool.
From MevVerif Require Import lib.Bytes model.Topology check.Check_C15 proofs.Topology_proofs.
From MevVerif Require proofs.Topology_overlap.
Import ListNotations.
Open Scope N_scope.

(* ---- view ------------------------------------------------------------------------------------- *)
(* After any history, (a, r) is reported for role r (provider or bidder) exactly when some event
   added (a, r) -- a Connected, an AddPeers, or the successful completion of an in-flight dial
   returning (a, r) -- and no later event is a Disconnected of (a, r). *)
Theorem C15_view : forall evs a r, r = ROLE_PROVIDER \/ r = ROLE_BIDDER ->
  (In (mkPeer a r) (get_peers r (run evs))
   <-> exists pre e post, evs = pre ++ e :: post /\ In (mkPeer a r) (adds_of (run pre) e)
         /\ forall e', In e' post -> ~ (exists p, e' = Disconnected p /\ p_addr p = a /\ p_role p = r)).
Proof. exact view_exact. Qed.
Print Assumptions C15_view.

(* Every reported peer carries the role that was asked for, no address is reported twice, and
   nothing is reported for bootnodes or unknown roles (those never enter the view). *)
Theorem C15_view_shape : forall evs r,
  (forall q, In q (get_peers r (run evs)) -> p_role q = r)
  /\ NoDup (map p_addr (get_peers r (run evs)))
  /\ (r <> ROLE_PROVIDER -> r <> ROLE_BIDDER -> get_peers r (run evs) = []).
Proof.
  exact (fun evs r => conj (view_role_of evs r) (conj (view_nodup evs r) (get_peers_other r (run evs)))).
Qed.
Print Assumptions C15_view_shape.

(* IsConnected(a) is true exactly when a is live as a provider or as a bidder. *)
Theorem C15_view_is_connected : forall evs a,
  is_connected a (run evs) = true <-> live a ROLE_PROVIDER evs \/ live a ROLE_BIDDER evs.
Proof. exact is_connected_exact. Qed.
Print Assumptions C15_view_is_connected.

(* ---- announce --------------------------------------------------------------------------------- *)
(* On Connected p after any history: a message to the newcomer p is never empty and contains
   exactly the records (a, u) of the providers a known after the event, other than p's own
   address, whose lookup succeeded with u -- so never p's own record and never a record of a
   peer that is only a bidder; ... *)
Theorem C15_announce : forall evs p lk ann recs,
  let s' := fst (step (run evs) (Connected p lk ann)) in
  let eff := snd (step (run evs) (Connected p lk ann)) in
  In (p, recs) (announces eff) ->
  recs <> [] /\
  forall a u, In (a, u) recs <->
    a <> p_addr p /\ In (mkPeer a ROLE_PROVIDER) (get_peers ROLE_PROVIDER s')
    /\ tbl_get lk (mkPeer a ROLE_PROVIDER) = Some u.
Proof. exact ann_newcomer. Qed.
Print Assumptions C15_announce.

(* ... every such record is sent, in at most one message to p (none at all when there is no such
   record, by the theorem above); ... *)
Theorem C15_announce_sent : forall evs p lk ann,
  let s' := fst (step (run evs) (Connected p lk ann)) in
  let eff := snd (step (run evs) (Connected p lk ann)) in
  (forall a u, a <> p_addr p -> In (mkPeer a ROLE_PROVIDER) (get_peers ROLE_PROVIDER s') ->
               tbl_get lk (mkPeer a ROLE_PROVIDER) = Some u ->
               exists recs, In (p, recs) (announces eff) /\ In (a, u) recs)
  /\ (length (filter (fun m => peer_eqb (fst m) p) (announces eff)) <= 1)%nat.
Proof. exact (fun evs p lk ann => conj (ann_newcomer_sent evs p lk ann) (ann_newcomer_once evs p lk ann)). Qed.
Print Assumptions C15_announce_sent.

(* ... any other announcement happens only when p is a provider whose own lookup succeeded with
   u: it goes to a known bidder and is exactly [p's record]; every known bidder gets it; when p is
   not a provider or its lookup fails nobody but p is sent anything. *)
Theorem C15_announce_fanout : forall evs p lk ann,
  let s' := fst (step (run evs) (Connected p lk ann)) in
  let eff := snd (step (run evs) (Connected p lk ann)) in
  (forall t recs, In (t, recs) (announces eff) -> t <> p ->
     p_role p = ROLE_PROVIDER /\ In t (get_peers ROLE_BIDDER s')
     /\ exists u, tbl_get lk p = Some u /\ recs = [(p_addr p, u)])
  /\ (forall u b, p_role p = ROLE_PROVIDER -> tbl_get lk p = Some u -> In b (get_peers ROLE_BIDDER s') ->
        In (b, [(p_addr p, u)]) (announces eff))
  /\ (p_role p <> ROLE_PROVIDER \/ tbl_get lk p = None ->
        forall t recs, In (t, recs) (announces eff) -> t = p).
Proof.
  exact (fun evs p lk ann => conj (ann_fanout evs p lk ann)
           (conj (ann_fanout_sent evs p lk ann) (ann_fanout_none evs p lk ann))).
Qed.
Print Assumptions C15_announce_fanout.

(* Announcement faults (stream cannot be opened, write fails) change nothing else: the resulting
   state is the state with p added, whatever the lookups and faults; the announcer is called with
   the same recipients and records under any other fault table; a Connected event never dials and
   never makes the worker add a peer. *)
Theorem C15_announce_faults : forall evs p lk ann ann2,
  let s := run evs in
  fst (step s (Connected p lk ann)) = add p s
  /\ fst (step s (Connected p lk ann2)) = fst (step s (Connected p lk ann))
  /\ announces (snd (step s (Connected p lk ann2))) = announces (snd (step s (Connected p lk ann)))
  /\ dials (snd (step s (Connected p lk ann))) = [] /\ adds (snd (step s (Connected p lk ann))) = [].
Proof.
  exact (fun evs p lk ann ann2 =>
    conj (ann_state evs p lk ann)
      (conj (proj1 (ann_faults evs p lk ann ann2))
         (conj (proj2 (ann_faults evs p lk ann ann2)) (ann_nothing_else evs p lk ann)))).
Qed.
Print Assumptions C15_announce_faults.

(* What Discovery writes: for every announcer call whose stream opens, one PeerList to that
   recipient with the same records, addresses as 20 big-endian bytes; nothing else is written;
   the receiving side's BytesToAddress recovers the address. *)
Theorem C15_announce_wire : forall evs p lk ann,
  let eff := snd (step (run evs) (Connected p lk ann)) in
  wires eff = flat_map (fun m => if stream_opens ann (fst m) then [(fst m, encode_records (snd m))] else [])
                       (announces eff).
Proof. exact ann_wire. Qed.
Print Assumptions C15_announce_wire.

Theorem C15_address_roundtrip : forall a, a < 2 ^ 160 -> addr_of_bytes (addr_bytes a) = a.
Proof. exact addr_roundtrip. Qed.
Print Assumptions C15_address_roundtrip.

(* ---- gossip ----------------------------------------------------------------------------------- *)
(* Processing a received list in any state: underlay u is dialled exactly when the list could be
   read and some entry (ea, u) has an address that is not connected (so an underlay all of whose
   entries carry connected addresses is not dialled); the views do not change; nothing is
   announced and the worker adds nothing. *)
Theorem C15_gossip : forall s from ok entries,
  let s' := fst (step s (Gossip from ok entries)) in
  let eff := snd (step s (Gossip from ok entries)) in
  (forall u, In (Dial u) eff <->
     ok = true /\ exists ea, In (ea, u) entries /\ is_connected (addr_of_bytes ea) s = false)
  /\ (forall u, (forall ea, In (ea, u) entries -> is_connected (addr_of_bytes ea) s = true) -> ~ In (Dial u) eff)
  /\ providers s' = providers s /\ bidders s' = bidders s
  /\ announces eff = [] /\ wires eff = [] /\ adds eff = [].
Proof.
  exact (fun s from ok entries =>
    conj (gossip_dialled s from ok entries)
      (conj (gossip_not_dialled_connected s from ok entries)
         (conj (proj1 (gossip_step s from ok entries))
            (conj (proj1 (proj2 (gossip_step s from ok entries)))
               (proj2 (proj2 (proj2 (proj2 (gossip_step s from ok entries))))))))).
Qed.
Print Assumptions C15_gossip.

(* Anywhere in any history, a Dial effect comes from a readable received list with an entry for
   that underlay whose address was not connected at that moment, and an AddPeers(q) made by the
   discovery worker is the completion ConnectDone u (Some q) -- q being the (address, role) the
   successful Connect returned, not what the list claimed -- of an underlay u that such a list
   made the node dial.  (That nothing else enters the views is C15_view.) *)
Theorem C15_gossip_origin : forall evs pre e post,
  evs = pre ++ e :: post ->
  (forall u, In (Dial u) (snd (step (run pre) e)) ->
     exists from entries ea, e = Gossip from true entries /\ In (ea, u) entries
                             /\ is_connected (addr_of_bytes ea) (run pre) = false)
  /\ (forall q, In (Add q) (snd (step (run pre) e)) ->
     exists u, e = ConnectDone u (Some q) /\
       exists pre' from entries post' ea,
         pre = pre' ++ Gossip from true entries :: post' /\ In (ea, u) entries
         /\ is_connected (addr_of_bytes ea) (run pre') = false).
Proof.
  exact (fun evs pre e post H =>
    conj (fun u => dial_effect_origin (run pre) e u) (fun q => worker_add_origin evs pre e post q H)).
Qed.
Print Assumptions C15_gossip_origin.

(* A completed dial: when no Connect(u) is in flight the event is not enabled (nothing changes);
   a failed Connect only retires the call; a successful one adds exactly the returned peer. *)
Theorem C15_gossip_done : forall s u res,
  let s' := fst (step s (ConnectDone u res)) in
  let eff := snd (step s (ConnectDone u res)) in
  (in_flight u s = false -> s' = s /\ eff = [])
  /\ (in_flight u s = true -> res = None ->
        providers s' = providers s /\ bidders s' = bidders s /\ inflight s' = remove1 u (inflight s) /\ eff = [])
  /\ (in_flight u s = true -> forall p, res = Some p ->
        s' = add p (mkState (providers s) (bidders s) (remove1 u (inflight s))) /\ eff = [Add p]).
Proof. exact done_step. Qed.
Print Assumptions C15_gossip_done.

(* ---- tie between the theorems and the checker that is run on the implementation ---------------- *)
(* For every history the property checker of check/Check_C15.v (clauses view, announce:self,
   announce:bidder, announce:extra, announce:missing, gossip:dialled-known, gossip:unproven) raises
   nothing on the model's own observation: whatever it flags on the implementation is a
   deviation from the behaviour the theorems above describe. *)
Theorem C15_checker_accepts_model : forall i roles pr evs,
  case_violations (mkCase i 0 roles pr evs (run_obs pr init evs) [] []) = [].
Proof. exact checker_accepts_model. Qed.
Print Assumptions C15_checker_accepts_model.

(* The same for the final-view clause used on concurrent runs (mode 1: only the views after all
   calls returned are observed; an empty observation means a call never returned). *)
Theorem C15_checker_accepts_final : forall i roles pr evs,
  case_violations (mkCase i 1 roles pr evs [final_obs pr evs] [] []) = [].
Proof. exact checker_accepts_final. Qed.
Print Assumptions C15_checker_accepts_final.

(* ---- Connected is not one critical section ------------------------------------------------------
   C15_announce* above describe a Connected call that runs without interruption.  In the code the
   body spans several critical sections and overlaps with other calls.  Step model
   (model/Topology.v): SAdd c p lk ann (call c starts: add), SReadProviders c (snapshot), SAnnounce c
   (lookups + message to the newcomer), SReadBidders c (snapshot + own lookup), SFanout c (one
   message to the next bidder of the snapshot), SOther e (any atomic event), interleaved
   arbitrarily; [call_effects c l] are the effects of call c's steps in the step history l. *)

(* The atomic event is exactly the uninterrupted call. *)
Theorem C15_step_sequential : forall s c p lk ann, find_call c (calls s) = None ->
  let n := length (get_peers ROLE_BIDDER (add p (base s))) in
  base (srun_from s (seq_call c p lk ann n)) = fst (step (base s) (Connected p lk ann))
  /\ call_effects_from s c (seq_call c p lk ann n) = snd (step (base s) (Connected p lk ann)).
Proof. exact seq_connected. Qed.
Print Assumptions C15_step_sequential.

(* SOUNDNESS under any interleaving: whatever call c (for peer p) announces is either a non-empty
   message to p whose every record (a, u) is not p's own, has lookup answer u, and is the record of
   a provider that was in the view when c took its provider snapshot (so never a bidder-only
   record); or -- only if p is a provider whose own lookup succeeded -- exactly [p's record], sent
   to a bidder that was in the view when c took its bidder snapshot.  The snapshot steps are pinned:
   the SReadProviders c (SReadBidders c) step named is the one executed with the call at stage 0
   (stage 2), i.e. the effective read -- a repeated read step is a no-op and does not qualify. *)
Theorem C15_step_sound : forall l c t recs, In (Announce t recs) (call_effects c l) ->
  exists p lk ann l1 l2, l = l1 ++ SAdd c p lk ann :: l2 /\
  ( (t = p /\ recs <> [] /\
     forall a u, In (a, u) recs ->
       a <> p_addr p /\ tbl_get lk (mkPeer a ROLE_PROVIDER) = Some u /\
       exists pre post, l = pre ++ SReadProviders c :: post
                        /\ (exists k0, find_call c (calls (srun pre)) = Some k0 /\ k_pc k0 = 0)
                        /\ In (mkPeer a ROLE_PROVIDER) (get_peers ROLE_PROVIDER (base (srun pre))))
    \/
    (p_role p = ROLE_PROVIDER /\ exists u, tbl_get lk p = Some u /\ recs = [(p_addr p, u)] /\
     exists pre post, l = pre ++ SReadBidders c :: post
                      /\ (exists k0, find_call c (calls (srun pre)) = Some k0 /\ k_pc k0 = 2)
                      /\ In t (get_peers ROLE_BIDDER (base (srun pre)))) ).
Proof. exact step_sound. Qed.
Print Assumptions C15_step_sound.

(* NO LOSS under any interleaving: a provider a that is in the view when call c starts and is not
   disconnected while c runs is announced to the newcomer (when its lookup succeeds), and -- if the
   newcomer is a provider whose own lookup succeeds -- every bidder that is in the view when c
   starts and is not disconnected while c runs is sent the newcomer's record, once c has returned. *)
Theorem C15_step_no_loss : forall l1 c p lk ann l2, find_call c (calls (srun l1)) = None ->
  (exists k, find_call c (calls (srun (l1 ++ SAdd c p lk ann :: l2))) = Some k /\ call_done k = true) ->
  (forall a u, In (mkPeer a ROLE_PROVIDER) (get_peers ROLE_PROVIDER (base (srun l1))) ->
     (forall e, In e l2 -> ~ (exists q, e = SOther (Disconnected q) /\ p_addr q = a /\ p_role q = ROLE_PROVIDER)) ->
     a <> p_addr p -> tbl_get lk (mkPeer a ROLE_PROVIDER) = Some u ->
     exists recs, In (Announce p recs) (call_effects c (l1 ++ SAdd c p lk ann :: l2)) /\ In (a, u) recs)
  /\ (forall b u, In (mkPeer b ROLE_BIDDER) (get_peers ROLE_BIDDER (base (srun l1))) ->
     (forall e, In e l2 -> ~ (exists q, e = SOther (Disconnected q) /\ p_addr q = b /\ p_role q = ROLE_BIDDER)) ->
     p_role p = ROLE_PROVIDER -> tbl_get lk p = Some u ->
     In (Announce (mkPeer b ROLE_BIDDER) [(p_addr p, u)]) (call_effects c (l1 ++ SAdd c p lk ann :: l2))).
Proof.
  exact (fun l1 c p lk ann l2 Hf Hd =>
    conj (fun a u Ha Hn Hne Hlk => no_loss_providers l1 c p lk ann l2 a u Hf Ha Hn Hne Hlk Hd)
         (fun b u Hb Hn Hr Hlk => no_loss_bidders l1 c p lk ann l2 b u Hf Hb Hn Hr Hlk Hd)).
Qed.
Print Assumptions C15_step_no_loss.

(* NO LOSS with the premise only up to the return of the call: the "not disconnected" premise of
   C15_step_no_loss is needed only for the part l2 of the history during which call c runs; what
   follows its return, l3, is arbitrary. *)
Theorem C15_step_no_loss_until_return : forall l1 c p lk ann l2 l3, find_call c (calls (srun l1)) = None ->
  (exists k, find_call c (calls (srun (l1 ++ SAdd c p lk ann :: l2))) = Some k /\ call_done k = true) ->
  (forall a u, In (mkPeer a ROLE_PROVIDER) (get_peers ROLE_PROVIDER (base (srun l1))) ->
     (forall e, In e l2 -> ~ (exists q, e = SOther (Disconnected q) /\ p_addr q = a /\ p_role q = ROLE_PROVIDER)) ->
     a <> p_addr p -> tbl_get lk (mkPeer a ROLE_PROVIDER) = Some u ->
     exists recs, In (Announce p recs) (call_effects c ((l1 ++ SAdd c p lk ann :: l2) ++ l3)) /\ In (a, u) recs)
  /\ (forall b u, In (mkPeer b ROLE_BIDDER) (get_peers ROLE_BIDDER (base (srun l1))) ->
     (forall e, In e l2 -> ~ (exists q, e = SOther (Disconnected q) /\ p_addr q = b /\ p_role q = ROLE_BIDDER)) ->
     p_role p = ROLE_PROVIDER -> tbl_get lk p = Some u ->
     In (Announce (mkPeer b ROLE_BIDDER) [(p_addr p, u)]) (call_effects c ((l1 ++ SAdd c p lk ann :: l2) ++ l3))).
Proof.
  exact (fun l1 c p lk ann l2 l3 Hf Hd =>
    conj (fun a u Ha Hn Hne Hlk => no_loss_providers_until_return l1 c p lk ann l2 l3 a u Hf Ha Hn Hne Hlk Hd)
         (fun b u Hb Hn Hr Hlk => no_loss_bidders_until_return l1 c p lk ann l2 l3 b u Hf Hb Hn Hr Hlk Hd)).
Qed.
Print Assumptions C15_step_no_loss_until_return.

(* ---- the mode-2 checker on the step model --------------------------------------------------------
   PARTIAL.  Proved: (1) for EVERY schedule with pairwise distinct call ids whose atomic events are
   AddPeers / Disconnected, the view clause of the overlap checker is silent on the step model's
   final observation (the abstract sets kept by [windows] are the key sets of the base state reached
   by [compile]); (2) the WHOLE overlap checker (self, bidder, extra, missing, hang, view) is silent
   on the step model's observation for the directed schedules the driver generates first
   (Topology_proofs.directed_schedule k, k = 1, 2, 3: provider Q known; k bidders connect and park
   with their own message; provider P connects and is released through its message and its whole
   fan-out; then everybody is released to the end) over the fixed pool of proofs/Topology_proofs.v
   (addresses 1..5, every lookup succeeding, no faults) -- by evaluation; the observation is not
   empty and a tampered one is flagged (overlap_checker_rejects_directed).
   Missing: silence of the announce clauses and of the hang flags for arbitrary schedules (needs the
   invariant "provider snapshot = initial window, bidder snapshot inside the window at the step
   that reads it, effects so far sound / complete for the window" carried through compile and
   windows) -- closed in round A8 below: C15_checker_accepts_model_overlap states (2) for every schedule. *)
Theorem C15_overlap_view_accepts_model : forall pr acts,
  NoDup (started_calls acts) ->
  Forall (fun a => match a with AOther (AddPeers _) | AOther (Disconnected _) => True | AOther _ => False | _ => True end) acts ->
  view_ok (snd (windows abs_init [] acts)) pr (observe pr (base (srun (compile sinit acts))) []) = true.
Proof. exact overlap_view_accepts_model. Qed.
Print Assumptions C15_overlap_view_accepts_model.

Theorem C15_overlap_checker_accepts_model_partial : forall k, (1 <= k <= 3)%nat ->
  case_violations (model_overlap_case 0 [] [1; 2; 3; 4; 5; 9] (directed_schedule k)) = []
  /\ existsb (fun x => negb (is_nil (snd x))) (c_calls (model_overlap_case 0 [] [] (directed_schedule k))) = true.
Proof. exact overlap_checker_accepts_directed. Qed.
Print Assumptions C15_overlap_checker_accepts_model_partial.

(* Clause announce:self of the overlap checker, for ARBITRARY schedules with pairwise distinct call
   ids: on the step model's observation (the effects of every call of the compiled schedule) the
   flag condition is false -- no call ever sends the newcomer of its window a record with the
   newcomer's own address.  (From C15_step_sound, the link between a window and the SAdd step of its
   call, and the role invariant: a fan-out message never goes to the connecting provider itself.)
   (The clauses bidder, extra and missing for arbitrary schedules: round A8 below,
   C15_checker_accepts_model_overlap.) *)
Theorem C15_overlap_self_accepts_model : forall acts w,
  NoDup (started_calls acts) -> In w (fst (windows abs_init [] acts)) ->
  let eff := call_effects (w_id w) (compile sinit acts) in
  existsb (fun r => fst r =? p_addr (w_peer w))
          (flat_map snd (filter (fun m => peer_eqb (fst m) (w_peer w)) (announces eff))) = false.
Proof. exact overlap_self_accepts_model. Qed.
Print Assumptions C15_overlap_self_accepts_model.

(* Round A5: two more parts of the overlap checker for ARBITRARY schedules (proofs/Topology_overlap.v).
   WIRES -- the PeerLists a call writes are exactly those its announcer calls lead to under the call's
   own fault table (one per announcer call whose stream opens, carrying the encoded records): the wire
   disjuncts of announce:extra and of announce:missing are silent.  NON-EMPTY -- no announcer call
   ever carries an empty record list: the "empty message" disjunct of announce:extra is silent.
   Together with C15_overlap_view_accepts_model and C15_overlap_self_accepts_model this leaves, for
   arbitrary schedules, exactly the disjuncts that compare records with the window sets (w_everP,
   w_everB: announce:bidder and the foreign-record / fan-out disjuncts of announce:extra; w_alwP,
   w_alwB under "returned": announce:missing) and the hang flag (which needs the premise that the
   schedule releases every call to its end).  Their proof needs one more invariant, not closed in this
   round: for the compiled schedule, the base state at the effective SReadProviders c / SReadBidders c
   step is the state at the end of the action that contains it, that action acts on c, so the
   snapshot's keys are inside the window's "ever" sets and contain its "always" sets.  The one-theorem
   form stayed open in that round; it is closed in round A8 below (C15_overlap_window_invariant,
   C15_checker_accepts_model_overlap).  C15_overlap_checker_accepts_model_partial (directed family) is
   unchanged and now an instance of the general theorem. *)
Theorem C15_overlap_wires_accept_model : forall acts w,
  NoDup (started_calls acts) -> In w (fst (windows abs_init [] acts)) ->
  let eff := call_effects (w_id w) (compile sinit acts) in
  ms_diff wmsg_eqb (wires eff) (expected_wires (w_ann w) (announces eff)) = []
  /\ ms_diff wmsg_eqb (expected_wires (w_ann w) (announces eff)) (wires eff) = [].
Proof. exact Topology_overlap.overlap_wires_accept_model. Qed.
Print Assumptions C15_overlap_wires_accept_model.

Theorem C15_overlap_nonempty_accept_model : forall acts c,
  let eff := call_effects c (compile sinit acts) in
  existsb (fun m => is_nil (snd m)) (announces eff) = false.
Proof. exact Topology_overlap.overlap_nonempty_accept_model. Qed.
Print Assumptions C15_overlap_nonempty_accept_model.

(* Round A8: the invariant named above is proved, and with it the whole mode-2 checker is silent on the
   step model for ARBITRARY schedules (proofs/Topology_overlap.v, second half).

   WINDOW INVARIANT.  For every schedule with pairwise distinct call ids whose atomic events are
   AddPeers / Disconnected, every window w the checker computes from the schedule alone, and every
   EFFECTIVE read step of w's call in the compiled schedule (the SReadProviders / SReadBidders step at
   which the call really takes its snapshot: the call is known at that point, at stage n): the base
   state at that step is abstracted by sets A0 (the key sets of its provider and bidder maps) with
   A0 inside the window's "ever" sets and containing its "always" sets. *)
Theorem C15_overlap_window_invariant : forall acts w pre rd post n,
  NoDup (started_calls acts) ->
  Forall (fun a => match a with AOther (AddPeers _) | AOther (Disconnected _) => True | AOther _ => False | _ => True end) acts ->
  In w (fst (windows abs_init [] acts)) ->
  compile sinit acts = pre ++ rd :: post ->
  rd = SReadProviders (w_id w) \/ rd = SReadBidders (w_id w) ->
  (exists k0, find_call (w_id w) (calls (srun pre)) = Some k0 /\ k_pc k0 = n) ->
  exists A0,
    (aP A0 = map p_addr (providers (base (srun pre))) /\ aB A0 = map p_addr (bidders (base (srun pre)))
     /\ aF A0 = inflight (base (srun pre)))
    /\ incl (aP A0) (w_everP w) /\ incl (aB A0) (w_everB w) /\ incl (w_alwP w) (aP A0) /\ incl (w_alwB w) (aB A0).
Proof. exact Topology_overlap.window_invariant. Qed.
Print Assumptions C15_overlap_window_invariant.

(* SOUNDNESS CLAUSES, arbitrary schedules: whatever the "returned" flag, the only clause a call of the
   step model can raise against its window is announce:missing -- announce:self, announce:bidder and
   all four disjuncts of announce:extra (foreign record, empty message, wrong fan-out message,
   unexpected PeerList) are silent. *)
Theorem C15_overlap_sound_clauses_accept_model : forall acts w done,
  NoDup (started_calls acts) ->
  Forall (fun a => match a with AOther (AddPeers _) | AOther (Disconnected _) => True | AOther _ => False | _ => True end) acts ->
  In w (fst (windows abs_init [] acts)) ->
  forall k, In k (call_clauses w done (call_effects (w_id w) (compile sinit acts))) -> k = "announce:missing"%string.
Proof. exact Topology_overlap.overlap_sound_clauses_accept_model. Qed.
Print Assumptions C15_overlap_sound_clauses_accept_model.

(* ALL CLAUSES OF ONE CALL, arbitrary schedules: a call that has run to its end (the model's own
   "returned" flag) raises nothing: no provider of the window's "always" set with a successful
   lookup is missing from what the newcomer was sent, no bidder of the "always" set misses the
   newcomer's record, no PeerList is missing. *)
Theorem C15_overlap_call_clauses_accept_model : forall acts w,
  NoDup (started_calls acts) ->
  Forall (fun a => match a with AOther (AddPeers _) | AOther (Disconnected _) => True | AOther _ => False | _ => True end) acts ->
  In w (fst (windows abs_init [] acts)) ->
  (exists k, find_call (w_id w) (calls (srun (compile sinit acts))) = Some k /\ call_done k = true) ->
  call_clauses w true (call_effects (w_id w) (compile sinit acts)) = [].
Proof. exact Topology_overlap.overlap_call_clauses_accept_model. Qed.
Print Assumptions C15_overlap_call_clauses_accept_model.

(* ONE THEOREM for mode 2 (the form of C15_checker_accepts_model): on EVERY schedule with pairwise
   distinct call ids, AddPeers / Disconnected as atomic events and every started call released to its
   end, the whole overlap checker -- every announce clause of every call, the hang flags, the view
   clause -- reports nothing on the step model's own observation.  Each of the three premises is
   necessary (C15_checker_overlap_premises_necessary); they hold for every schedule the driver
   generates (ids are a counter, atomic events are AddPeers / Disconnected, the tail releases every
   call until it returns). *)
Theorem C15_checker_accepts_model_overlap : forall i roles pr acts,
  NoDup (started_calls acts) ->
  Forall (fun a => match a with AOther (AddPeers _) | AOther (Disconnected _) => True | AOther _ => False | _ => True end) acts ->
  (forall c, In c (started_calls acts) ->
     exists k, find_call c (calls (srun (compile sinit acts))) = Some k /\ call_done k = true) ->
  case_violations (model_overlap_case i roles pr acts) = [].
Proof. exact Topology_overlap.checker_accepts_model_overlap. Qed.
Print Assumptions C15_checker_accepts_model_overlap.

(* necessity of the premises, by three concrete schedules over the pool of proofs/Topology_proofs.v:
   a call left parked (view:hang); one id used by two calls (announce:missing, view); an atomic
   Gossip / ConnectDone pair, whose add the schedule does not show (announce:extra, view) *)
Theorem C15_checker_overlap_premises_necessary :
  In "view:hang"%string (case_violations (model_overlap_case 0 [] [] (firstn 5 (directed_schedule 2))))
  /\ case_violations (model_overlap_case 0 [] [1; 2; 3; 4; 5]
        ([AStart 0 exQ exLkAll []; AStart 0 exB1 exLkAll []; AStart 1 exP1 exLkAll []] ++ Topology_overlap.exReleases 4))
      = ["announce:missing"; "view"]%string
  /\ case_violations (model_overlap_case 0 [] [1; 2; 3; 4; 5]
        ([AStart 0 exQ exLkAll []; AOther (Gossip exQ true [(addr_bytes 9, bos "u9")]);
          AOther (ConnectDone (bos "u9") (Some (mkPeer 9 ROLE_BIDDER))); AStart 1 exP1 exLkAll []] ++ Topology_overlap.exReleases 4))
      = ["announce:extra"; "view"]%string.
Proof.
  exact (conj (proj2 Topology_overlap.checker_overlap_needs_completion)
        (conj (proj2 Topology_overlap.checker_overlap_needs_distinct_ids)
              (proj2 (proj2 Topology_overlap.checker_overlap_needs_plain_events)))).
Qed.
Print Assumptions C15_checker_overlap_premises_necessary.

(* ---- event level versus system level: the late add ----------------------------------------------
   C15_view is a statement about the events the Topology receives.  It is NOT the system-level claim
   "the reported view holds only peers the p2p layer still has": for a peer learned through gossip
   the worker's AddPeers comes after Service.Connect returned, unordered with the disconnect
   notification of the same connection.  Joint machine (proofs/Topology_proofs.v: yevent, yrun):
   registry = set of registered peers, YConnectReturns / YWorkerAdds / YClosed. *)

(* Refuted on the code as it is: a history after which the view reports a provider (GetPeers,
   IsConnected, hence the bid fan-out and the gossip skip) that the registry has forgotten; the
   topology received Disconnected(B) before ConnectDone/AddPeers(B). *)
Theorem C15_late_add_refuted :
  exists ys, let s := yrun ys in
    In (mkPeer 2 ROLE_PROVIDER) (get_peers ROLE_PROVIDER (run (y_tev s))) /\ is_connected 2 (run (y_tev s)) = true
    /\ peer_mem (mkPeer 2 ROLE_PROVIDER) (y_reg s) = false
    /\ y_tev s = [Gossip (mkPeer 3 ROLE_BIDDER) true [(addr_bytes 2, bos "u2")]; Disconnected (mkPeer 2 ROLE_PROVIDER);
                  ConnectDone (bos "u2") (Some (mkPeer 2 ROLE_PROVIDER))].
Proof. exact late_add_refuted. Qed.
Print Assumptions C15_late_add_refuted.

(* What does hold on every history of that machine: the event-level characterisation. *)
Theorem C15_late_add_event_level : forall ys a r, r = ROLE_PROVIDER \/ r = ROLE_BIDDER ->
  (In (mkPeer a r) (get_peers r (run (y_tev (yrun ys)))) <-> live a r (y_tev (yrun ys))).
Proof. exact late_add_event_level. Qed.
Print Assumptions C15_late_add_event_level.

(* ---- C05 o C15: the view is what the bid fan-out uses (proofs/Compose_view.v) --------------------
   SendBid (model/PreconfBidder.v, C05_fanout) run on the topology's state after any history: one
   stream attempt per provider reported by GetPeers(provider), addressed by its 20-byte address, in
   that order, nobody else; and those providers are exactly the live ones of the history, each
   once.  (Subject to the limit above: "live" is about the events the topology received.) *)
From MevVerif Require model.PreconfBidder proofs.PreconfBidder_proofs proofs.Compose_view.
Theorem C15_fanout_uses_view : forall tr o a script evs D r,
  PreconfBidder.send_bid_op tr o a (Compose_view.node_view script (run evs)) D = PreconfBidder.XRun r ->
  Forall2 (fun q ct => fst ct = addr_bytes (p_addr q)
                       /\ snd ct = if PreconfBidder_proofs.opens_stream_op tr D (Compose_view.lift PreconfBidder.TProvider script q)
                                   then [PreconfBidder.xr_sent r] else [])
          (get_peers ROLE_PROVIDER (run evs)) (PreconfBidder.xr_contacted r)
  /\ (forall a0, In (mkPeer a0 ROLE_PROVIDER) (get_peers ROLE_PROVIDER (run evs)) <-> live a0 ROLE_PROVIDER evs)
  /\ (forall q, In q (get_peers ROLE_PROVIDER (run evs)) -> p_role q = ROLE_PROVIDER)
  /\ NoDup (map p_addr (get_peers ROLE_PROVIDER (run evs))).
Proof. exact Compose_view.fanout_uses_view. Qed.
Print Assumptions C15_fanout_uses_view.

(* ---- composition with C14 (proofs/Compose_topology.v) -----------------------------------------------------------
   Above, Notifier.Connected / Disconnected and the results of the discovery worker's Connect calls are free
   events.  In the node they come from the libp2p Service and its peer registry (model/PeerRegistry.v).  The joint
   machine [Compose_topology.jrun] runs the registry and EMITS the topology's events from the registry's answers:
     JInbound           handleConnectReq's tail: addPeer, then Connected iff it answered "new"
                        (C14_connected_iff_registered_now)
     JDiscoveryConnect  Service.Connect for the worker (isConnected short cut / addPeer / getPeer test of ad08637):
                        ConnectDone u (what Connect returned); the worker's AddPeers is C15_gossip_done
     JOtherConnect      Connect for any other caller (result does not reach the topology)
     JClosed            the registry's disconnect notifications, as Disconnected events, in the same step
     JGossip, JDiscoveryConnectFails, JRegistryOnly
   [revents js] / [tevents js] are the registry history and the topology history of a joint history js.  No other
   caller of Connected / Disconnected / AddPeers exists in pkg/ (and none in the machine: AddPeers from outside is
   never emitted).  Non-vacuity: Compose_topology.ex_joint. *)
From MevVerif Require model.PeerRegistry proofs.Compose_topology.

(* C14 o C15 (C15_view, C14_connected_details, C14_connect_success_registered).  The topology view only holds peers
   that the registry registered: every (a, r) reported for role r was put there by a joint step -- an inbound
   handshake whose addPeer answered "new", or a Connect of the discovery worker that returned it -- and at the end
   of that very step the registry held exactly the record (a, r) for that peer id.
   What remains outside: the order in which a Disconnected for a peer and a later Connected for the same peer
   reach the topology is the registry's notification order (C14_last_close, C14_notifications_only_on_close); the
   joint machine delivers each notification in the step that produced it. *)
Theorem C15_view_only_registered : forall js a r,
  PeerRegistry.wf (Compose_topology.revents js) -> r = ROLE_PROVIDER \/ r = ROLE_BIDDER ->
  In (mkPeer a r) (get_peers r (run (Compose_topology.tevents js))) ->
  exists pre j post e p pe,
    js = pre ++ j :: post /\
    In e (snd (Compose_topology.jemit (PeerRegistry.run (Compose_topology.revents pre)) j)) /\
    Compose_topology.added_by e = Some (mkPeer a r) /\
    PeerRegistry.get p (PeerRegistry.overlays (PeerRegistry.run (Compose_topology.revents (pre ++ [j])))) = Some pe /\
    PeerRegistry.p_addr pe = a /\ PeerRegistry.p_role pe = r /\
    PeerRegistry.registered (PeerRegistry.run (Compose_topology.revents (pre ++ [j]))) p = true.
Proof. exact Compose_topology.view_only_registered. Qed.
Print Assumptions C15_view_only_registered.

(* C14 o C15 (C15_gossip_origin).  The worker's AddPeers(q): q is what Service.Connect returned for the dialled
   underlay, and Connect returned it only with the registry holding exactly that record under the remote peer id. *)
Theorem C15_worker_add_registered : forall js pre j post u q,
  PeerRegistry.wf (Compose_topology.revents js) -> js = pre ++ j :: post ->
  In (ConnectDone u (Some q)) (snd (Compose_topology.jemit (PeerRegistry.run (Compose_topology.revents pre)) j)) ->
  exists c pe closed pe',
    j = Compose_topology.JDiscoveryConnect u c pe closed /\
    snd (PeerRegistry.connect (PeerRegistry.run (Compose_topology.revents pre)) c pe closed) = Some pe' /\
    Compose_topology.tpeer pe' = q /\
    PeerRegistry.get (PeerRegistry.remote c)
      (PeerRegistry.overlays (PeerRegistry.run (Compose_topology.revents (pre ++ [j])))) = Some pe'.
Proof. exact Compose_topology.worker_add_registered. Qed.
Print Assumptions C15_worker_add_registered.

(* A Disconnected reaches the topology only as a registry notification for a peer the registry has just removed. *)
Theorem C15_disconnected_is_registry_notification : forall js e p,
  In e (Compose_topology.tevents js) -> e = Disconnected p ->
  exists pre c post pe, js = pre ++ Compose_topology.JClosed c :: post /\ Compose_topology.tpeer pe = p /\
    In pe (Compose_topology.new_notes (PeerRegistry.run (Compose_topology.revents pre))
             (PeerRegistry.step (PeerRegistry.run (Compose_topology.revents pre)) (PeerRegistry.ConnClosed c))).
Proof. exact Compose_topology.disconnected_is_registry_notification. Qed.
Print Assumptions C15_disconnected_is_registry_notification.

(* ---- the discovery machine (model/Discovery.v): list handler, dispatcher, semaphore and workers as ONE machine ----
   [drun cap evs] runs a schedule [evs] of any length from the initial state: lists of any length read by
   any number of handlers (DList), each handler looking at its next entry (DCheck: IsConnected on the
   shared topology at that moment), handing it to the dispatcher (DHandoff: only when the dispatcher is
   at its receive), contexts ending (DCancel) and a handler in its select returning (DGiveUp), the
   dispatcher taking a slot (DAcquire: only while fewer than [cap] are held), Connect calls returning in
   any order with any answer (DDone u (DialOk p | DialErr undecodable/self/blocked/unreachable)),
   topology events in between (DTopo).  Events that are not enabled are no-ops, so every event list is a
   schedule.  The outcome type has an explicit crash value (Weighted.Release with nothing held). *)
From MevVerif Require model.Discovery proofs.Discovery_proofs.
Import Discovery.

(* No schedule crashes or fails; the semaphore's count always equals the number of running Connect calls
   and never exceeds the width of the pool (any width). *)
Theorem C15_discovery_pool_bound : forall cap evs,
  exists s effs, drun cap evs = Ok (s, effs)
                 /\ N.of_nat (length (d_flying s)) = d_held s /\ d_held s <= cap.
Proof. exact Discovery_proofs.disc_pool_bound. Qed.
Print Assumptions C15_discovery_pool_bound.

(* Every entry exactly once.  For every weight function f on entries and g on underlays (equality of the
   weighted sums for all f is equality of multisets): the entries of all lists that were read = the
   entries still waiting (in a handler's list or in the dispatcher's hand) + the entries skipped, each
   with its reason (known to the topology when it was looked at / the handler's context ended) + the
   entries for which Connect was called; and the Connect calls made = those still running + those that
   returned (each with its answer).  So no entry is dialled twice, skipped and dialled, or lost. *)
Theorem C15_discovery_every_entry_once : forall cap evs s effs (f : wire_record -> nat) (g : bytes -> nat),
  drun cap evs = Ok (s, effs) ->
  wsum f (d_received s)
  = (wsum f (waiting s) + wsum f (map fst (d_skipped s)) + wsum f (d_dialled s))%nat
  /\ wsum g (map snd (d_dialled s)) = (wsum g (d_flying s) + wsum g (map fst (d_finished s)))%nat.
Proof. exact Discovery_proofs.disc_accounting. Qed.
Print Assumptions C15_discovery_every_entry_once.

(* The reasons are the real ones, step by step: "known" only for the head entry of that handler whose
   address the topology holds at that moment; "cancelled" only for entries of a handler that sits in
   its select with an ended context; a Connect call only for the peer in the dispatcher's hand with a
   free slot; a worker's AddPeers only for the peer a running Connect returned. *)
Theorem C15_discovery_step_sound : forall cap s e s' eff,
  dstep cap s e = Ok (s', eff) ->
  (forall h x, In (XSkip h x SkConnected) eff ->
     exists k, find_h h (d_handlers s) = Some k /\ hd_error (h_rem k) = Some x
               /\ is_connected (addr_of_bytes (fst x)) (d_topo s) = true)
  /\ (forall h x, In (XSkip h x SkCancelled) eff ->
     exists k, find_h h (d_handlers s) = Some k /\ In x (h_rem k) /\ h_cancel k = true /\ h_offer k = true)
  /\ (forall u, In (XDial u) eff ->
     exists x, d_pending s = Some x /\ snd x = u /\ d_held s < cap)
  /\ (forall p, In (XAdd p) eff -> exists u, e = DDone u (DialOk p) /\ flying u s = true).
Proof. exact Discovery_proofs.disc_step_sound. Qed.
Print Assumptions C15_discovery_step_sound.

(* At rest (every handler returned, dispatcher at its receive, no worker running): the semaphore is at
   zero, every entry received was skipped for a named reason or dialled, every dial has returned. *)
Theorem C15_discovery_at_rest : forall cap evs s effs (f : wire_record -> nat) (g : bytes -> nat),
  drun cap evs = Ok (s, effs) -> quiescent s = true ->
  d_held s = 0
  /\ wsum f (d_received s) = (wsum f (map fst (d_skipped s)) + wsum f (d_dialled s))%nat
  /\ wsum g (map snd (d_dialled s)) = wsum g (map fst (d_finished s)).
Proof. exact Discovery_proofs.disc_quiescent. Qed.
Print Assumptions C15_discovery_at_rest.

(* The semaphore returns to zero: after ANY schedule, internal steps alone (checks, hand-offs, acquires,
   dial completions; no new list, no context needs to end), at most [measure s] of them, lead to the
   state at rest with the semaphore at zero.  The width must be positive (Discovery_proofs.
   disc_zero_width_stuck shows the dispatcher stuck in Acquire for width 0). *)
Theorem C15_discovery_semaphore_returns_to_zero : forall cap evs s effs,
  0 < cap -> drun cap evs = Ok (s, effs) ->
  exists more s' effs', Forall Discovery_proofs.internal more /\ (length more <= measure s)%nat
    /\ drun_from cap s more = Ok (s', effs') /\ quiescent s' = true /\ d_held s' = 0.
Proof. exact Discovery_proofs.disc_semaphore_returns_to_zero. Qed.
Print Assumptions C15_discovery_semaphore_returns_to_zero.

(* No deadlock: while anything is left to do, some internal step is enabled, and every such step brings
   the end strictly nearer (so every schedule of internal steps that keeps taking enabled ones ends at
   rest after at most [measure s] steps). *)
Theorem C15_discovery_no_deadlock : forall cap evs s effs,
  0 < cap -> drun cap evs = Ok (s, effs) -> quiescent s = false ->
  exists e s' eff, Discovery_proofs.internal e /\ dstep cap s e = Ok (s', eff) /\ (measure s' < measure s)%nat.
Proof. exact Discovery_proofs.disc_no_deadlock. Qed.
Print Assumptions C15_discovery_no_deadlock.

(* Tie to the event-level model: one list, nobody else active, at least as many free slots as there are
   unknown entries (the domain of the Gossip event, "within_pool" in the checker).  The machine, driven
   entry by entry as the driver does ([gsched]: the handler's IsConnected answer is released, then the
   hand-off and the Acquire that are enabled run), calls Connect exactly for what the Gossip event of
   model/Topology.v dials, in that order; afterwards the handler has returned, the dispatcher is back
   at its receive and the topology is untouched.  So C15_gossip_* are statements about this machine
   in that domain; outside it (more unknown entries than free slots) only the machine applies. *)
Theorem C15_discovery_refines_gossip : forall cap h from entries s c,
  d_handlers s = [(h, mkH entries false c)] -> d_pending s = None ->
  d_held s + N.of_nat (length (to_dial (d_topo s) entries)) <= cap ->
  exists s' effs,
    drun_from cap s (gsched cap s (repeat (GCheck h) (length entries))) = Ok (s', effs)
    /\ d_handlers s' = [(h, mkH [] false c)] /\ d_pending s' = None /\ d_topo s' = d_topo s
    /\ d_flying s' = d_flying s ++ to_dial (d_topo s) entries
    /\ map Dial (xdials (concat effs)) = snd (step (d_topo s) (Gossip from true entries)).
Proof. exact Discovery_proofs.gossip_refined. Qed.
Print Assumptions C15_discovery_refines_gossip.

(* ---- the mode-3 checker on the discovery machine's own run (proofs/Discovery_checker.v) -----------------
   PARTIAL.  Proved for EVERY driver schedule [acts] (any lists, any order of releases, completions,
   cancellations, topology events; [grun] compiles it as the checker does): the clause gossip:pool is
   silent (the largest number of running dials never exceeds the regenerated width) and the view
   clause is silent (the sets the checker keeps from the schedule's topology events and the AddPeers
   calls seen are the key sets of the machine's topology).  Missing: silence of the per-effect clauses
   (gossip:dialled-known, gossip:unproven, the return-code part of view:hang) for arbitrary schedules --
   needs the invariant "checker's remaining / due / flying lists = the machine's handler lists, offered
   heads + dispatcher's hand, flying list (as multisets of underlays)" under pairwise distinct handler
   ids; tested on every run (0 violations on the model-equal observations), and
   Discovery_checker.disc_checker_rejects shows both kinds of clause firing on tampered observations. *)
From MevVerif Require proofs.Discovery_checker.
Theorem C15_discovery_checker_accepts_model_partial : forall pr acts,
  match grun pool_width dinit acts with
  | (effs, s, pk) =>
      (pool_width <? pk) = false
      /\ view_ok (g_abs (fst (g_run (mkG [] [] [] [] abs_init) acts effs))) pr (observe pr (d_topo s) []) = true
  end.
Proof. exact Discovery_checker.disc_checker_pool_view_accept_model. Qed.
Print Assumptions C15_discovery_checker_accepts_model_partial.

(* Second part of the one-theorem form: for every driver schedule in which no list id is read twice,
   the per-effect bookkeeping of the mode-3 checker never reports view:hang on the machine's own run
   (every IsConnected answer belongs to a handler that still has entries, every handler return carries
   the expected code: 0 only when nothing is left, 1 only for a failed read, 2 after its context ended).
   The premise is needed (Discovery_checker.disc_checker_hang_premise_needed: the machine ignores a
   second list with a used id, the checker's bookkeeping does not).  Still missing for the whole
   checker: gossip:dialled-known and gossip:unproven (the due / flying lists of the bookkeeping against
   the offered heads, the dispatcher's hand and the flying list of the machine, as multisets of
   underlays) and the answer part of the view clause at an IsConnected answer. *)
Theorem C15_discovery_checker_accepts_model_partial2 : forall acts,
  NoDup (Discovery_checker.list_ids acts) ->
  match grun pool_width dinit acts with
  | (effs, _, _) => ~ In "view:hang"%string (snd (g_run (mkG [] [] [] [] abs_init) acts effs))
  end.
Proof. exact Discovery_checker.disc_checker_hang_accept_model. Qed.
Print Assumptions C15_discovery_checker_accepts_model_partial2.

(* Third part: under the same premise the per-effect bookkeeping never reports "view" on the machine's
   own run -- every IsConnected answer seen is the answer the checker recomputes, for the head entry of
   that handler, from the schedule's topology events and the AddPeers calls seen (so the answer half of
   gossip:dialled-known is silent as well: the report list of every IsConnected effect is empty,
   Discovery_checker.first_view).  Still missing here (the first is closed by _partial4 below): a Connect call always finds its entry in the due list
   (multiset of underlays of offered heads + dispatcher's hand), and an AddPeers finds its Connect in
   the flying list; the latter needs "the internal steps have run dry after every action" as an
   invariant of the compiled schedules. *)
Theorem C15_discovery_checker_accepts_model_partial3 : forall acts,
  NoDup (Discovery_checker.list_ids acts) ->
  match grun pool_width dinit acts with
  | (effs, _, _) => ~ In "view"%string (snd (g_run (mkG [] [] [] [] abs_init) acts effs))
  end.
Proof. exact Discovery_checker.disc_checker_answers_accept_model. Qed.
Print Assumptions C15_discovery_checker_accepts_model_partial3.

(* Fourth part: under the same premise the clause gossip:dialled-known is silent on the machine's own
   run, for every driver schedule: no "unknown" answer for an address the checker's sets hold, and every
   Connect call takes an entry of the checker's due list (invariant: per underlay, offered heads +
   dispatcher's hand of the machine are at most the due entries of the bookkeeping), hence a Connect
   call is never reported at all.  What is still missing for the whole mode-3 checker is only
   gossip:unproven at an AddPeers effect (the peer is the one the completion returned and its Connect is
   in the checker's flying list): the flying-list half needs "the internal steps have run dry after
   every action of a compiled schedule" as an invariant, because a completion for an underlay that is not
   flying followed in the same action by a Connect call for that underlay would be taken off the
   checker's list while it flies in the machine. *)
Theorem C15_discovery_checker_accepts_model_partial4 : forall acts,
  NoDup (Discovery_checker.list_ids acts) ->
  match grun pool_width dinit acts with
  | (effs, _, _) => ~ In "gossip:dialled-known"%string (snd (g_run (mkG [] [] [] [] abs_init) acts effs))
  end.
Proof. exact Discovery_checker.disc_checker_dialled_known_accept_model. Qed.
Print Assumptions C15_discovery_checker_accepts_model_partial4.

(* Summary of parts 2-4 (with the _partial theorem above for gossip:pool and the final view clause): for
   every driver schedule in which no list id is read twice, the only report the per-effect bookkeeping
   of the mode-3 checker can make on the machine's own run is gossip:unproven (and, by part 4, never at
   a Connect call: only at an AddPeers effect).  Missing for the one-theorem form: exactly that. *)
Theorem C15_discovery_checker_accepts_model_partial5 : forall acts,
  NoDup (Discovery_checker.list_ids acts) ->
  match grun pool_width dinit acts with
  | (effs, _, _) =>
      forall str, In str (snd (g_run (mkG [] [] [] [] abs_init) acts effs)) -> str = "gossip:unproven"%string
  end.
Proof. exact Discovery_checker.disc_checker_only_unproven. Qed.
Print Assumptions C15_discovery_checker_accepts_model_partial5.
