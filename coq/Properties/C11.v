(* C11 -- Stake and allowance checks fail closed; staking reports the on-chain outcome.
   Statements only; every proof is [exact <lemma>].

   [check], [register], [svc_register] (model/Registry.v) are the Go functions
   CheckProviderRegistered / CheckBidderAllowance, RegisterProvider / PrepayAllowance and the
   RPC methods RegisterStake / PrepayAllowance.  They take the answers of the evm client as
   arguments and return (requests made, in order ; Go result).  Every theorem holds for an
   arbitrary hash function [kec], either registry flavour [cfg], every configured address
   [reg] and every account [addr]. *)
From Coq Require Import String List NArith ZArith Bool.
From MevVerif Require Import lib.Bytes lib.Abi gen.Generated model.Registry check.Check_C11 proofs.Abi_proofs proofs.Registry_proofs model.Config proofs.Config_proofs.
Import ListNotations.
Open Scope N_scope.

(* The answer is yes exactly when both reads returned bytes, both decode as a uint256 return
   value (length a non-zero multiple of 32) and the amount is at least the minimum.  Hence
   a yes is never produced out of a failed call or undecodable bytes ... *)
Theorem C11_fail_closed : forall kec cfg reg addr a_min a_stake,
  snd (check kec cfg reg addr a_min a_stake) = true <->
  exists m s,
    (exists bm bs, a_min = CBytes bm /\ a_stake = CBytes bs /\
                   decode_uint256 bm = Some m /\ decode_uint256 bs = Some s) /\
    m <= s.
Proof. exact check_spec. Qed.
Print Assumptions C11_fail_closed.

(* ... and every placement of a call failure or malformed return value yields no. *)
Theorem C11_fail_closed_placements : forall kec cfg reg addr a_min a_stake,
  (a_min = CErr \/ (exists b, a_min = CBytes b /\ decode_uint256 b = None) \/
   a_stake = CErr \/ (exists b, a_stake = CBytes b /\ decode_uint256 b = None)) ->
  snd (check kec cfg reg addr a_min a_stake) = false.
Proof. exact check_fail_closed. Qed.
Print Assumptions C11_fail_closed_placements.

(* Malformed return data: empty, or of a length that is not a multiple of 32 (31, 33, ...),
   never decodes; 32, 64, ... bytes decode to their first word. *)
Theorem C11_malformed : forall d,
  decode_uint256 d =
  if (blen d mod 32 =? 0) && negb (blen d =? 0) then Some (unbe (firstn 32 d)) else None.
Proof. exact decode_uint256_spec. Qed.
Print Assumptions C11_malformed.

(* The check only reads: first the registry's minimum, then -- only if that was obtained --
   the account's amount; both requests go to the configured contract, carry no value, and the
   second one's calldata decodes to the account asked about. *)
Theorem C11_reads : forall kec cfg reg addr a_min a_stake,
  fst (check kec cfg reg addr a_min a_stake) =
  ECall (read_req kec reg (r_min cfg) []) ::
    match a_min with
    | CErr => []
    | CBytes b => match decode_uint256 b with
                  | Some _ => [ECall (read_req kec reg (r_stake cfg) [VAddress addr])]
                  | None => []
                  end
    end.
Proof. exact check_trace. Qed.
Print Assumptions C11_reads.

Theorem C11_reads_account : forall kec cfg reg addr,
  (4 <= length (kec (method_sig (r_stake cfg) [TAddress])))%nat ->
  length addr = 20%nat -> wf_bytes addr ->
  tx_to (read_req kec reg (r_stake cfg) [VAddress addr]) = reg /\
  decode_call [TAddress] (tx_data (read_req kec reg (r_stake cfg) [VAddress addr])) =
  Some (selector kec (method_sig (r_stake cfg) [TAddress]), [VAddress addr]).
Proof. exact stake_req_to_and_account. Qed.
Print Assumptions C11_reads_account.

(* The comparison for all pairs below 2^256 (each value returned as one word, possibly followed
   by further whole words): yes iff minimum <= amount; in particular yes at amount = minimum
   and no at minimum - 1. *)
Theorem C11_boundary : forall kec cfg reg addr m s r1 r2,
  m < two256 -> s < two256 -> blen r1 mod 32 = 0 -> blen r2 mod 32 = 0 ->
  snd (check kec cfg reg addr (CBytes (be 32 m ++ r1)) (CBytes (be 32 s ++ r2))) = (m <=? s).
Proof. exact check_boundary. Qed.
Print Assumptions C11_boundary.

Theorem C11_boundary_at : forall kec cfg reg addr m,
  m < two256 ->
  snd (check kec cfg reg addr (CBytes (be 32 m)) (CBytes (be 32 m))) = true /\
  (0 < m -> snd (check kec cfg reg addr (CBytes (be 32 m)) (CBytes (be 32 (m - 1)))) = false).
Proof. exact check_at_boundary. Qed.
Print Assumptions C11_boundary_at.

(* Stake / prepay: whatever the client answers, exactly one Send is made, it is the first
   request, its value is the requested amount, its destination the configured contract, its
   calldata the four selector bytes of the method (no arguments), no gas field is set, and
   nothing is read. *)
Theorem C11_value : forall kec cfg reg amount s w,
  let want := {| tx_to := reg; tx_value := amount;
                 tx_data := selector kec (method_sig (r_register cfg) []); tx_gas := false |} in
  sends (fst (register kec cfg reg amount s w)) = [want] /\
  hd_error (fst (register kec cfg reg amount s w)) = Some (ESend want) /\
  calls (fst (register kec cfg reg amount s w)) = [].
Proof. exact register_value. Qed.
Print Assumptions C11_value.

(* "The configured registry contract": [reg] above is the address the registry object was
   constructed with.  In the node (pkg/node/node.go: NewNode, source text extracted into
   gen/Generated.v) the provider registry object is constructed exactly once, with
   common.HexToAddress(opts.ProviderRegistryContract) and the node's evm client, the bidder
   registry object with common.HexToAddress(opts.BidderRegistryContract); the handshake
   (libp2p.Options.Register) and the provider RPC service get the provider registry object, the
   preconfirmation handler (both branches) and the bidder RPC service the bidder registry
   object.  Swapping addresses or objects there breaks this obligation. *)
Theorem C11_configured_registry :
  Generated.c11_node_provreg_addr = [bos "common.HexToAddress(opts.ProviderRegistryContract)"] /\
  Generated.c11_node_bidreg_addr = [bos "common.HexToAddress(opts.BidderRegistryContract)"] /\
  arg_of 0 Generated.c11_node_provreg_new_args = [bos "providerRegistryContractAddr"] /\
  arg_of 1 Generated.c11_node_provreg_new_args = [bos "evmClient"] /\
  arg_of 0 Generated.c11_node_bidreg_new_args = [bos "bidderRegistryContractAddr"] /\
  arg_of 1 Generated.c11_node_bidreg_new_args = [bos "evmClient"] /\
  map (prefixb (bos "provider_registrycontract.New(")) Generated.c11_node_provreg_obj = [true] /\
  map (prefixb (bos "bidder_registrycontract.New(")) Generated.c11_node_bidreg_obj = [true] /\
  map (containsb (bos " Register: providerRegistry, ")) (arg_of 0 Generated.c11_node_libp2p_args) = [true] /\
  arg_of 3 Generated.c11_node_preconf_new_args = [bos "bidderRegistry"; bos "bidderRegistry"] /\
  arg_of 1 Generated.c11_node_providerapi_args = [bos "providerRegistry"] /\
  arg_of 2 Generated.c11_node_bidderapi_args = [bos "bidderRegistry"].
Proof. exact node_wiring. Qed.
Print Assumptions C11_configured_registry.

(* The method names of the model are the ones found in /repo by the extractor
   (gen/Generated.v: the first argument of the one Pack -- and the one Unpack -- call in each of
   the three methods of each package): *)
Theorem C11_methods_extracted :
  Generated.c11_prov_register_pack = [r_register provider_registry] /\
  Generated.c11_prov_min_pack = [r_min provider_registry] /\
  Generated.c11_prov_min_unpack = [r_min_unpack provider_registry] /\
  Generated.c11_prov_stake_pack = [r_stake provider_registry] /\
  Generated.c11_prov_stake_unpack = [r_stake_unpack provider_registry] /\
  Generated.c11_bid_register_pack = [r_register bidder_registry] /\
  Generated.c11_bid_min_pack = [r_min bidder_registry] /\
  Generated.c11_bid_min_unpack = [r_min_unpack bidder_registry] /\
  Generated.c11_bid_stake_pack = [r_stake bidder_registry] /\
  Generated.c11_bid_stake_unpack = [r_stake_unpack bidder_registry].
Proof. exact extracted_call_sites. Qed.
Print Assumptions C11_methods_extracted.

(* and the signatures they give are: *)
Theorem C11_methods :
  (method_sig (r_register provider_registry) [] = bos "registerAndStake()" /\
   method_sig (r_min provider_registry) [] = bos "minStake()" /\
   method_sig (r_stake provider_registry) [TAddress] = bos "checkStake(address)") /\
  (method_sig (r_register bidder_registry) [] = bos "prepay()" /\
   method_sig (r_min bidder_registry) [] = bos "minAllowance()" /\
   method_sig (r_stake bidder_registry) [TAddress] = bos "getAllowance(address)") /\
  r_min_unpack provider_registry = r_min provider_registry /\
  r_stake_unpack provider_registry = r_stake provider_registry /\
  r_min_unpack bidder_registry = r_min bidder_registry /\
  r_stake_unpack bidder_registry = r_stake bidder_registry.
Proof. exact methods_in_repo. Qed.
Print Assumptions C11_methods.

(* Success is reported exactly when the Send returned a transaction hash and the receipt
   obtained for it carries the success status 1; then the requests were the Send followed by
   the wait for the receipt of that very hash. *)
Theorem C11_status : forall kec cfg reg amount s w,
  snd (register kec cfg reg amount s w) = Ok tt <-> exists h, s = SHash h /\ w = WReceipt 1.
Proof. exact register_status. Qed.
Print Assumptions C11_status.

Theorem C11_status_waits_for_sent_tx : forall kec cfg reg amount s w,
  snd (register kec cfg reg amount s w) = Ok tt ->
  exists h, s = SHash h /\ w = WReceipt 1 /\
    fst (register kec cfg reg amount s w) =
    [ESend {| tx_to := reg; tx_value := amount;
              tx_data := selector kec (method_sig (r_register cfg) []); tx_gas := false |};
     EWait h].
Proof. exact register_ok_trace. Qed.
Print Assumptions C11_status_waits_for_sent_tx.

(* A failed Send, an unobtainable receipt (wait error, cancelled transaction, cancelled
   context) and a receipt with any status other than 1 (reverted) are reported as an error. *)
Theorem C11_status_errors : forall kec cfg reg amount s w,
  (s = SErr \/ w = WErr \/ exists st, w = WReceipt st /\ st <> 1) ->
  exists c, snd (register kec cfg reg amount s w) = Err c.
Proof. exact register_errors. Qed.
Print Assumptions C11_status_errors.

(* Every answer of the client is covered.  The result is success, an error, or -- for exactly
   one answer, a nil receipt returned without an error -- a crash (the code dereferences the
   receipt).  That answer is outside the client's contract: evmclient.EvmClient.WaitForReceipt
   returns [receipt.Receipt] of a monitor result whose Err is nil, and the monitor builds such a
   result only around a non-nil receipt (harness/props/C11.json, level_note, gives the lines);
   the checker reports a crash on any other answer as [panic-on-receipt]. *)
Theorem C11_status_total : forall kec cfg reg amount s w,
  match snd (register kec cfg reg amount s w) with
  | Ok _ => exists h, s = SHash h /\ w = WReceipt 1
  | Panic => exists h, s = SHash h /\ w = WNil
  | Err _ => s = SErr \/ w = WErr \/ exists st, w = WReceipt st /\ st <> 1
  end.
Proof. exact register_total. Qed.
Print Assumptions C11_status_total.

(* What the real client's monitor can hand to a receipt waiter (pkg/evmclient/txmonitor.go: the
   three deliveries in [check], source text from gen/Generated.v): a receipt it obtained, the
   cancellation error, or the receipt object it decoded into.  A change of these sites breaks
   this obligation and sends the reader back to the argument that a nil receipt without error
   cannot reach the registry (props/C11.json, level_note); the nil-guards around the sites are
   not visible to the extractor. *)
Theorem C11_monitor_deliveries :
  arg_of 2 Generated.c11_monitor_notify_args =
  [bos "Result{receipt, nil}"; bos "Result{nil, ErrTxnCancelled}";
   bos "Result{result.Result.(" ++ bos "*types.Receipt), nil}"].
Proof. exact monitor_deliveries. Qed.
Print Assumptions C11_monitor_deliveries.

(* Hence, for every answer the client can give: anything but a mined transaction with status 1
   is reported as an error. *)
Theorem C11_status_errors_all : forall kec cfg reg amount s w,
  w <> WNil -> ~ (exists h, s = SHash h /\ w = WReceipt 1) ->
  exists c, snd (register kec cfg reg amount s w) = Err c.
Proof. exact register_errors_strong. Qed.
Print Assumptions C11_status_errors_all.

(* DEFINITIONAL.  [evm_wait late w] is [if late then WErr else w]: the statement below is
   [C11_status] with that case distinction unfolded.  That the real EvmClient.WaitForReceipt
   behaves like [evm_wait] (a late caller is told "tx not found") is NOT proved here; it is what
   the correspondence class via-evmclient-write observes on the real client.
   Through the real evm client ([evm_wait]: a caller that starts waiting after the client's own
   watcher consumed the receipt is told "tx not found"): success is reported exactly when the
   caller itself obtained the receipt and it carries status 1.  A receipt the caller did not
   get -- consumed earlier, dropped, never mined -- is an error, whatever the chain holds. *)
Theorem C11_status_via_client : forall kec cfg reg amount s w late,
  snd (register kec cfg reg amount s (evm_wait late w)) = Ok tt <->
  late = false /\ exists h, s = SHash h /\ w = WReceipt 1.
Proof. exact register_via_client_status. Qed.
Print Assumptions C11_status_via_client.

(* The function as it was before the repair reported a reverted transaction as success ... *)
Theorem C11_status_refuted : forall kec cfg reg,
  exists amount s w, w = WReceipt 0 /\ snd (register_v0 kec cfg reg amount s w) = Ok tt.
Proof. exact register_v0_refuted. Qed.
Print Assumptions C11_status_refuted.

(* ... and that is the only difference between the two. *)
Theorem C11_status_v0_delta : forall kec cfg reg amount s w,
  register_v0 kec cfg reg amount s w <> register kec cfg reg amount s w ->
  exists h st, s = SHash h /\ w = WReceipt st /\ st <> 1.
Proof. exact register_v0_differs_only_on_failed_status. Qed.
Print Assumptions C11_status_v0_delta.

(* The RPC methods RegisterStake / PrepayAllowance answer OK only for a request that passed
   validation and parsing, whose amount was sent as above, whose transaction was mined with
   status 1, and whose final read decoded; the amount returned is that read. *)
Theorem C11_rpc_status : forall kec cfg reg owner valid parsed s w a t v,
  svc_register kec cfg reg owner valid parsed s w a = (t, SvcOk v) ->
  valid = true /\
  exists amt h b, parsed = Some amt /\ s = SHash h /\ w = WReceipt 1 /\
                  a = CBytes b /\ decode_uint256 b = Some v /\
                  t = [ESend {| tx_to := reg; tx_value := Some amt;
                                tx_data := selector kec (method_sig (r_register cfg) []); tx_gas := false |};
                       EWait h;
                       ECall (read_req kec reg (r_stake cfg) [VAddress owner])].
Proof. exact svc_register_ok. Qed.
Print Assumptions C11_rpc_status.

(* A refused request sends nothing; a failed stake / prepay is an Internal error. *)
Theorem C11_rpc_refusals : forall kec cfg reg owner valid parsed s w a,
  (valid = false \/ parsed = None ->
   svc_register kec cfg reg owner valid parsed s w a = ([], SvcInvalidArgument)) /\
  (forall amt c, snd (register kec cfg reg (Some amt) s w) = Err c ->
                 snd (svc_register kec cfg reg owner true (Some amt) s w a) = SvcInternal).
Proof. exact svc_register_refusals. Qed.
Print Assumptions C11_rpc_refusals.

(* ANCHORED part of statelessness: the struct types of the two registry objects (source text,
   gen/Generated.v) have exactly the fields ABI, contract address, client, logger.  A cached
   minimum, a prepared request, a selector template or a call-coalescing group kept in the object
   is a further field and breaks this obligation.  (Package-level state is not seen by it; the
   session / concurrent classes remain the test for that.) *)
Theorem C11_objects_have_no_other_state :
  Generated.c11_prov_struct =
    [bos "registryABI abi.ABI"; bos "registryContractAddr common.Address";
     bos "client evmclient.Interface"; bos "logger " ++ bos "*slog.Logger"] /\
  Generated.c11_bid_struct =
    [bos "bidderRegistryABI abi.ABI"; bos "bidderRegistryContractAddr common.Address";
     bos "client evmclient.Interface"; bos "logger " ++ bos "*slog.Logger"].
Proof. exact registry_objects_have_no_other_state. Qed.
Print Assumptions C11_objects_have_no_other_state.

(* DEFINITIONAL -- read this before the next four theorems.  [session] is defined as
   [map run_request]: the model has no state to carry from one operation to the next, so
   C11_check_stateless, C11_check_history_independent, C11_register_stateless and
   C11_getters_stateless restate the single-operation theorems at position n of a list.  They
   say what statelessness MEANS for the property (each check re-reads the minimum; each stake
   carries its own amount); they do not prove that the Go objects are stateless.  That is
   established by observation only: the driver classes session-scripted, session-random,
   via-evmclient(-random), concurrent-register run several operations on ONE registry object with
   the chain's answers changing in between and compare every step with the single-operation
   model and with the property checker (a cached minimum, a stale read served by the client and
   a shared request object were each found this way).
   One registry object, any number of operations ([session]): the n-th check is answered from
   the n-th pair of call results alone.  Whatever came before, it starts by reading the
   minimum again, and its answer is yes exactly when the values read at THAT call decode and
   minimum <= amount -- in particular a minimum that was raised, became unreadable or
   malformed since an earlier check is what counts. *)
Theorem C11_check_stateless : forall kec cfg reg qs n addr a_min a_stake,
  nth_error qs n = Some (QCheck addr a_min a_stake) ->
  exists t b,
    nth_error (session kec cfg reg qs) n = Some (t, ACheck b) /\
    t = fst (check kec cfg reg addr a_min a_stake) /\
    b = snd (check kec cfg reg addr a_min a_stake) /\
    hd_error t = Some (ECall (read_req kec reg (r_min cfg) [])) /\
    (b = true <->
     exists m s,
       (exists bm bs, a_min = CBytes bm /\ a_stake = CBytes bs /\
                      decode_uint256 bm = Some m /\ decode_uint256 bs = Some s) /\
       m <= s).
Proof. exact session_check_stateless. Qed.
Print Assumptions C11_check_stateless.

Theorem C11_check_history_independent : forall kec cfg reg qs qs' n addr a_min a_stake,
  nth_error qs n = Some (QCheck addr a_min a_stake) ->
  nth_error qs' n = Some (QCheck addr a_min a_stake) ->
  nth_error (session kec cfg reg qs) n = nth_error (session kec cfg reg qs') n.
Proof. exact session_check_independent. Qed.
Print Assumptions C11_check_history_independent.

(* Stake / prepay calls on one object likewise: each sends exactly its own amount (first
   request, the only Send) and reports success from its own send result and receipt. *)
Theorem C11_register_stateless : forall kec cfg reg qs n amount s w,
  nth_error qs n = Some (QRegister amount s w) ->
  let want := {| tx_to := reg; tx_value := amount;
                 tx_data := selector kec (method_sig (r_register cfg) []); tx_gas := false |} in
  exists t o,
    nth_error (session kec cfg reg qs) n = Some (t, AReg o) /\
    sends t = [want] /\ hd_error t = Some (ESend want) /\
    (o = Ok tt <-> exists h, s = SHash h /\ w = WReceipt 1).
Proof. exact session_register_stateless. Qed.
Print Assumptions C11_register_stateless.

(* The getters likewise: each call makes its one request and returns what that answer decodes to. *)
Theorem C11_getters_stateless : forall kec cfg reg qs n,
  (forall a, nth_error qs n = Some (QGetMin a) ->
     nth_error (session kec cfg reg qs) n =
     Some ([ECall (read_req kec reg (r_min cfg) [])],
           ANum (match a with CErr => None | CBytes b => decode_uint256 b end))) /\
  (forall addr a, nth_error qs n = Some (QGetStake addr a) ->
     nth_error (session kec cfg reg qs) n =
     Some ([ECall (read_req kec reg (r_stake cfg) [VAddress addr])],
           ANum (match a with CErr => None | CBytes b => decode_uint256 b end))).
Proof. exact session_getters_stateless. Qed.
Print Assumptions C11_getters_stateless.

(* The boolean checker that bin/check evaluates on the implementation's observations
   (check/Check_C11.v: [violation]) is tied to the model: every observation equal to what the
   model produces ([agrees], the correspondence test) passes it ... *)
Theorem C11_checker_accepts_model : forall c, agrees c = true -> violation c = None.
Proof. exact checker_accepts_model. Qed.
Print Assumptions C11_checker_accepts_model.

(* ... and an observation passes it only if it satisfies the property.  A session (several
   operations on one registry object) passes only if every step passes [violation1] on its own
   requests and answers; *)
Theorem C11_checker_reflects_session : forall c steps st,
  op c = OpSession steps -> violation c = None -> In st steps -> violation1 (sub c st) = None.
Proof. exact checker_reflects_session. Qed.
Print Assumptions C11_checker_reflects_session.

(* for a single check ([violation1] is [violation] on a single operation) a yes passes only if,
   among the read requests recorded, request number i is exactly the wanted minimum request
   ([want_read]: to the registry, no value, no gas field, calldata = selector of the minimum
   method) and the client's answer number i was bytes that decode to m; request number j is
   exactly the wanted amount request for the account asked about and answer number j was bytes
   that decode to s; and m <= s.  ([calls] lists the read requests of a trace in order.) *)
Theorem C11_checker_reflects_check : forall c addr a1 a2,
  op c = OpCheck addr a1 a2 -> violation1 c = None -> res c = ObsBool true ->
  exists i j bm bs m s,
    nth_error (calls (trace c)) i = Some (want_read c (spec_min (kind c)) []) /\
    nth i [a1; a2] CErr = CBytes bm /\ decode_uint256 bm = Some m /\
    nth_error (calls (trace c)) j = Some (want_read c (spec_stake (kind c)) [VAddress addr]) /\
    nth j [a1; a2] CErr = CBytes bs /\ decode_uint256 bs = Some s /\
    m <= s.
Proof. exact checker_reflects_check_property. Qed.
Print Assumptions C11_checker_reflects_check.

(* When the recorded reads are exactly the two wanted ones in order (what the code does,
   C11_reads), passing the checker with a yes is the right-hand side of C11_fail_closed. *)
Theorem C11_checker_reflects_fail_closed : forall c addr a1 a2,
  op c = OpCheck addr a1 a2 -> violation1 c = None -> res c = ObsBool true ->
  calls (trace c) = [want_read c (spec_min (kind c)) [];
                     want_read c (spec_stake (kind c)) [VAddress addr]] ->
  exists m s,
    (exists bm bs, a1 = CBytes bm /\ a2 = CBytes bs /\
                   decode_uint256 bm = Some m /\ decode_uint256 bs = Some s) /\
    m <= s.
Proof. exact checker_reflects_check_two_reads. Qed.
Print Assumptions C11_checker_reflects_fail_closed.

(* a stake / prepay makes at most one Send, the wanted one, and a success (result code 0)
   needs the hash returned by the Send to be waited for afterwards and status 1. *)
Theorem C11_checker_reflects_register : forall c amt s w,
  op c = OpRegister amt s w -> violation1 c = None ->
  (sends (trace c) = [] \/ sends (trace c) = [want_send c amt]) /\
  (res c = ObsReg 0 ->
   exists h, s = SHash h /\ w = WReceipt 1 /\ sends (trace c) = [want_send c amt] /\
             waited_after_send (trace c) h false = true).
Proof. exact checker_reflects_register. Qed.
Print Assumptions C11_checker_reflects_register.

(* ---- compositions (proofs/Compose_registry.v) ---------------------------------------------------------------
   Three values are oracles in the theorems above: the verdict of the request validator together with the
   result of big.Int.SetString (RPC glue), the result of client.Send, and -- seen from the handshake -- the
   answer of CheckProviderRegistered itself.  Each is instantiated below by the model that owns it.
   Non-vacuity: Compose_registry.ex_rpc_amount, ex_register_through_sender, ex_provider_enrolled. *)
From MevVerif Require model.Rules model.EvmSend model.Handshake proofs.Compose_registry.

(* C11 o C19 (model/Rules.v: the published rule of StakeRequest / PrepayRequest) o C03 (model/Eip712.v:
   big.Int.SetString(s, 10)).  [Compose_registry.svc_register_text] is the RPC method on the request's amount
   TEXT.  It is refused, with nothing sent, exactly when the text breaks the published rule (the "cannot
   parse" refusal behind the validator is unreachable); otherwise exactly one transaction is sent and its
   value is the number the text spells, positive and below 2^64. *)
Theorem C11_rpc_amount_is_text : forall kec cfg reg owner amount s w a,
  (Rules.stake_ok amount = false ->
     Compose_registry.svc_register_text kec cfg reg owner amount s w a = ([], SvcInvalidArgument)) /\
  (Rules.stake_ok amount = true ->
     0 < dec_value amount < 18446744073709551616 /\
     Compose_registry.svc_register_text kec cfg reg owner amount s w a =
       svc_register kec cfg reg owner true (Some (Z.of_N (dec_value amount))) s w a /\
     sends (fst (Compose_registry.svc_register_text kec cfg reg owner amount s w a)) =
       [{| tx_to := reg; tx_value := Some (Z.of_N (dec_value amount));
           tx_data := selector kec (method_sig (r_register cfg) []); tx_gas := false |}]).
Proof. exact Compose_registry.rpc_amount_is_text. Qed.
Print Assumptions C11_rpc_amount_is_text.

(* C11 o C08 (model/EvmSend.v).  client.Send instantiated by the sender model ([Compose_registry.sendres_of]:
   a hash is returned exactly when the node took the transaction; [Compose_registry.request_of]: the request
   carries no gas limit and no gas price).  A stake / prepay reports success only if its one transaction
   was accepted by the node under a nonce n of the sender -- every external call of that Send succeeded,
   gas estimate and price suggestion included, and n passed the in-flight window -- and was mined with
   status 1; the sender's counter then stands at n+1.  When Send does not get the transaction accepted the
   registry reports error class 1 and the counter is not advanced past the nonce tried. *)
Theorem C11_register_through_sender : forall kec cfg reg amount hash_of ctr cf a w,
  let rq := Compose_registry.request_of (send_req kec cfg reg amount) in
  let sr := EvmSend.send ctr cf rq a in
  (snd (register kec cfg reg amount (Compose_registry.sendres_of hash_of (snd sr)) w) = Ok tt ->
     exists n, snd sr = EvmSend.Accepted n /\ w = WReceipt 1 /\ fst sr = (n + 1) mod EvmSend.w64 /\
       EvmSend.allow_nonce cf n = true /\
       EvmSend.pending a <> None /\ EvmSend.est_ok a = true /\ EvmSend.tip_ok a = true /\
       EvmSend.price_ok a = true /\ EvmSend.sign_ok a = true /\ EvmSend.submit_ok a = true) /\
  ((forall n, snd sr <> EvmSend.Accepted n) ->
     snd (register kec cfg reg amount (Compose_registry.sendres_of hash_of (snd sr)) w) = Err 1 /\
     forall p, EvmSend.pending a = Some p -> fst sr = fst (EvmSend.get_nonce ctr p)).
Proof. exact Compose_registry.register_through_sender. Qed.
Print Assumptions C11_register_through_sender.

(* C11 o C04 (model/Handshake.v).  The handshake's oracle [registered] instantiated by
   CheckProviderRegistered of the provider registry with the answers the chain node gives to its two reads
   during that handshake ([Compose_registry.registry_check]).  A peer is registered or announced as a provider
   only if both reads succeeded and decoded and the stake read for the peer's proven address A -- the
   address of its transport identity -- was at least the minimum; the reads made are minStake() and
   checkStake(A) on the configured contract, asked once. *)
Theorem C11_provider_enrolled_only_if_staked :
  forall kec reg a_min a_stake c o wfail script has_notifier add A,
  Handshake.registered o = Compose_registry.registry_check kec reg a_min a_stake ->
  In (Handshake.ERegister A Handshake.type_provider) (Handshake.inbound c o wfail script has_notifier add) \/
  In (Handshake.ENotify A Handshake.type_provider) (Handshake.inbound c o wfail script has_notifier add) ->
  Handshake.addr_of_pid o = Handshake.POk A /\ Handshake.lookups (Handshake.handle c o wfail script) = [A] /\
  (exists m s bm bs, a_min = CBytes bm /\ a_stake = CBytes bs /\
       decode_uint256 bm = Some m /\ decode_uint256 bs = Some s /\ m <= s) /\
  fst (check kec provider_registry reg A a_min a_stake) =
    [ECall (read_req kec reg (r_min provider_registry) []);
     ECall (read_req kec reg (r_stake provider_registry) [VAddress A])].
Proof. exact Compose_registry.provider_enrolled_only_if_staked. Qed.
Print Assumptions C11_provider_enrolled_only_if_staked.

(* Fail closed, end to end: with a failed or malformed registry read a provider whose signature and address
   are in order is refused with the stake error (and so gets the timed block of
   C17_inbound_stake_failure_blocks_full_term), never enrolled. *)
Theorem C11_unreadable_registry_refuses_provider :
  forall kec reg a_min a_stake c o wfail f1 rest token sig a,
  Handshake.registered o = Compose_registry.registry_check kec reg a_min a_stake ->
  (a_min = CErr \/ (exists b, a_min = CBytes b /\ decode_uint256 b = None) \/
   a_stake = CErr \/ (exists b, a_stake = CBytes b /\ decode_uint256 b = None)) ->
  Handshake.as_req f1 = Some (Handshake.provider_string, token, sig) ->
  Handshake.verify o sig (Handshake.provider_string ++ token) = Handshake.VOk true a ->
  Handshake.addr_of_pid o = Handshake.POk a ->
  Handshake.res (Handshake.handle c o wfail (f1 :: rest)) = Handshake.Refuse Handshake.RStake.
Proof. exact Compose_registry.unreadable_registry_refuses_provider. Qed.
Print Assumptions C11_unreadable_registry_refuses_provider.

(* "... a call to the CONFIGURED registry contract": the configured addresses are the values of the flags
   provider-registry-contract and bidder-registry-contract, each carried in its own field of node.Options by
   cmd/main.go (tables regenerated from the source on every run) and turned into the registry objects' addresses by
   node.NewNode (regenerated source texts); no other flag reaches those fields. *)
Theorem C11_configured_registries_are_the_flags : forall env, exists o,
  Config.launch_options env = Some o
  /\ Config.o_preconf_contract o = env (bos "preconf-contract")
  /\ Config.o_provider_registry_contract o = env (bos "provider-registry-contract")
  /\ Config.o_bidder_registry_contract o = env (bos "bidder-registry-contract")
  /\ Config.node_contract_wiring_ok = true.
Proof. exact Config_proofs.configured_contracts_from_flags. Qed.
Print Assumptions C11_configured_registries_are_the_flags.

Theorem C11_config_flags_pairwise_distinct :
  Config_proofs.nodupb [bos "secret"; bos "peer-type"; bos "preconf-contract"; bos "provider-registry-contract";
          bos "bidder-registry-contract"; bos "settlement-rpc-endpoint"] = true.
Proof. exact Config_proofs.config_flags_distinct. Qed.
Print Assumptions C11_config_flags_pairwise_distinct.

(* the same through the environment: each contract flag has its own environment variable (source text of the
   EnvVars element of its flag literal, regenerated from cmd/main.go), and the six configuration flags the
   properties speak about have pairwise different ones *)
Theorem C11_contract_env_vars :
  map Config.flag_env_of_var [bos "optionPreconfStoreAddr"; bos "optionProviderRegistryAddr"; bos "optionBidderRegistryAddr"] =
  [Some (bos "[]string{""MEV_COMMIT_PRECONF_ADDR""}");
   Some (bos "[]string{""MEV_COMMIT_PROVIDER_REGISTRY_ADDR""}");
   Some (bos "[]string{""MEV_COMMIT_BIDDER_REGISTRY_ADDR""}")].
Proof. exact Config_proofs.contract_env_vars. Qed.
Print Assumptions C11_contract_env_vars.
