(* C09 -- Every receipt waiter gets exactly one truthful outcome; the pending list.
   Statements only; every proof is [exact <lemma>].

   [run current evs] is the state of the monitor + client bookkeeping (model/TxMonitor.v, the
   code as it is now) after the event history [evs]; histories are arbitrary lists of events:
   any interleaving of sends (the sentTxs entry, [Sent]) and the later registration of the client's
   own waiter goroutine ([InternalWatch] -- two steps, as in Go), new waiters, polls with any
   answers (None = failed call; [PollLost] = the hand-over to the checker was dropped), check
   snapshots, batch replies with any per-transaction answer (receipt, NotFound sentinel, JSON
   null over the wire, error), failed batches, element processing with any answer of the
   individual query, the client's own waiter goroutines, Close and the shutdown drain.
   Events that are not enabled in a state are no-ops, so every list is a history. *)
From Coq Require Import List NArith Bool.
From MevVerif Require Import lib.Bytes model.TxMonitor proofs.TxMonitor_proofs.
Import ListNotations.
Open Scope N_scope.

(* Never a crash: no history makes the monitor send on a closed channel. *)
Theorem C09_no_panic : forall evs, panicked (run current evs) = false.
Proof. exact no_panic. Qed.
Print Assumptions C09_no_panic.

(* Never two outcomes: no waiter identity occurs twice among the channel sends. *)
Theorem C09_at_most_one : forall evs, NoDup (map fst (delivered (run current evs))).
Proof. exact at_most_one. Qed.
Print Assumptions C09_at_most_one.

(* Exactly one, or still waiting: a registered waiter either is still registered with an empty
   channel, or is no longer registered and its channel holds exactly one outcome. *)
Theorem C09_one_outcome_or_waiting : forall evs w h n, let s := run current evs in
  In (w, h, n) (watchers s) ->
  (In (n, h, w) (wait s) /\ forall o, ~ In (w, o) (delivered s)) \/
  ((forall n' h', ~ In (n', h', w) (wait s)) /\
   exists o, In (w, o) (delivered s) /\ forall o', In (w, o') (delivered s) -> o' = o).
Proof. exact one_outcome_or_waiting. Qed.
Print Assumptions C09_one_outcome_or_waiting.

(* A waiter identity belongs to one transaction (hash and nonce) only. *)
Theorem C09_waiter_tx_unique : forall evs w h n h' n', let s := run current evs in
  In (w, h, n) (watchers s) -> In (w, h', n') (watchers s) -> h = h' /\ n = n'.
Proof. exact waiter_tx_unique. Qed.
Print Assumptions C09_waiter_tx_unique.

(* Truthfulness, strong form.  If waiter w holds a receipt or "cancelled" after the history evs, then
   evs = pre ++ Proc fb :: post  where, in the state after [pre],
   - w holds nothing yet and is registered for transaction (n, h): the outcome is delivered by this
     very step (so everything below PRECEDES the delivery);
   - the checker is inside a check with confirmed nonce c and the element being processed is
     (n, h, r) -- the answer is for w's OWN hash h -- and n < c: the confirmed nonce of this same
     check has passed the transaction's nonce;
   - [poll_src pre c]: c was reported by the node to a poll in [pre] that found the checker idle
     and handed the check over (an effective poll, not an ignored event);
   - [batch_src pre c n h r]: r is what a batch reply in [pre] answered for h, that reply having
     arrived while this check was waiting for one and had (n, h) in its snapshot (the batch asked
     for h);
   - [resolves h r fb = Some o]: o is dictated by r and by fb, the answer of the individual query
     for h made in this step (readings below). *)
Theorem C09_truthful_strong : forall evs w o, In (w, o) (delivered (run current evs)) -> o <> OClosed ->
  exists pre fb post c snap n h r q, evs = pre ++ Proc fb :: post /\
    let s := run current pre in
    (forall o', ~ In (w, o') (delivered s)) /\
    chk s = InFlight c snap ((n, h, r) :: q) /\ In (n, h, w) (wait s) /\ In (w, h, n) (watchers s) /\
    n < c /\ resolves h r fb = Some o /\
    poll_src pre c /\ batch_src pre c n h r.
Proof. exact truthful_strong. Qed.
Print Assumptions C09_truthful_strong.
(* a receipt: it is for h itself, and the node answered exactly this receipt for h -- in the batch,
   or individually after a null / failed batch element *)
Theorem C09_resolves_receipt : forall h r fb h' st, resolves h r fb = Some (OReceipt h' st) ->
  h' = h /\ (r = RReceipt st \/ ((r = RNullOverWire \/ r = RRpcErr) /\ fb = Some (RReceipt st))).
Proof. exact resolves_receipt. Qed.
Print Assumptions C09_resolves_receipt.
(* "cancelled": the node said "no receipt" for h -- the sentinel in the batch, or NotFound to the
   individual query after a null / failed element; never after a receipt, never on errors alone:
   no false cancellation of a mined transaction *)
Theorem C09_resolves_cancel : forall h r fb, resolves h r fb = Some OCancelled ->
  r = RNotFound \/ ((r = RNullOverWire \/ r = RRpcErr) /\ fb = Some RNotFound).
Proof. exact resolves_cancel. Qed.
Print Assumptions C09_resolves_cancel.
(* state form of the same facts (the history variables [answers], [confs] only record consumed
   answers and effective polls) *)
Theorem C09_truthful_receipt_state : forall evs w h st, In (w, OReceipt h st) (delivered (run current evs)) ->
  exists n c, In (w, h, n) (watchers (run current evs)) /\ In (c, h, RReceipt st) (answers (run current evs)).
Proof. exact truthful_receipt_state. Qed.
Print Assumptions C09_truthful_receipt_state.
Theorem C09_truthful_cancel_state : forall evs w, In (w, OCancelled) (delivered (run current evs)) ->
  exists h n c r, In (w, h, n) (watchers (run current evs)) /\ In (c, h, r) (answers (run current evs)) /\
                  no_receipt r = true /\ n < c /\ In c (confs (run current evs)).
Proof. exact truthful_cancel_state. Qed.
Print Assumptions C09_truthful_cancel_state.

(* "monitor closed": delivered by a step that comes after Close -- the shutdown drain to a waiter
   registered at that moment, or the waiter's own watchTx once the drain has run. *)
Theorem C09_truthful_closed : forall evs w, In (w, OClosed) (delivered (run current evs)) ->
  exists pre e post, evs = pre ++ e :: post /\ In Close pre /\
    let s := run current pre in
    (forall o', ~ In (w, o') (delivered s)) /\
    ((e = Drain /\ exists n h, In (n, h, w) (wait s)) \/
     (drained s = true /\ w = next s /\ exists h n, e = Watch h \/ e = WatchRaw h n \/ e = InternalWatch h n)).
Proof. exact truthful_closed_strong. Qed.
Print Assumptions C09_truthful_closed.

(* A caller that gives up (WaitForReceipt's context ends: it returns ctx.Err(), which is the caller
   leaving, not an outcome of the monitor -- nothing is owed to it) does not act on the monitor at
   all: erasing the event from any history gives the same state, so every OTHER waiter of the
   transaction, the client's own waiter and the pending list are unaffected. *)
Theorem C09_giveup_transparent : forall evs w evs',
  run current (evs ++ GiveUp w :: evs') = run current (evs ++ evs').
Proof. exact giveup_transparent. Qed.
Print Assumptions C09_giveup_transparent.

(* The fourth answer.  WaitForReceipt(h) returns the error "tx not found" when h has no sentTxs
   entry; such a caller is never registered and gets no channel outcome (it is not a "party
   waiting on a submitted transaction" in the sense of the property).  Reading adopted: the
   property demands receipt / cancelled / closed for every REGISTERED waiter (theorems above) and
   tolerates a refusal only where nothing is pending; what the code guarantees is exactly this:
   a call is refused only for a hash the client never sent, or for a transaction whose receipt
   the client's own waiter has already consumed (mined, entry deleted) -- a late caller for a
   mined transaction is told "tx not found", NOT its receipt -- and never for a transaction that
   is still listed or was cancelled (the flagged entry is kept, C09_late_watch_registers). *)
Theorem C09_refused_only_unsent_or_mined : forall evs w, In w (refused (run current evs)) ->
  exists pre h post, evs = pre ++ Watch h :: post /\ w = next (run current pre) /\
    (forall h' n', ~ In (w, h', n') (watchers (run current evs))) /\
    (~ In h (sent (run current pre)) \/
     exists w0 n st, In (w0, h, n) (watchers (run current pre)) /\ In (w0, OReceipt h st) (delivered (run current pre))).
Proof. exact refused_only_unsent_or_mined. Qed.
Print Assumptions C09_refused_only_unsent_or_mined.
Theorem C09_late_watch_registers : forall s h n, panicked s = false -> drained s = false ->
  lookup h (pending s) = Some n ->
  In (n, h, next s) (wait (step current s (Watch h))).
Proof. exact late_watch_registers. Qed.
Print Assumptions C09_late_watch_registers.

(* Resolution, check side (in every reachable state s):
   (1) the snapshot of a check with confirmed nonce c contains every registered (nonce, hash)
       with nonce < c; *)
Theorem C09_snapshot_covers : forall s c n h w, panicked s = false -> chk s = Handed c ->
  In (n, h, w) (wait s) -> n < c ->
  exists snap, chk (step current s CheckBegin) = InFlight c snap [] /\ In (n, h) snap.
Proof. exact snapshot_covers. Qed.
Print Assumptions C09_snapshot_covers.

(* (2) when the element of (n,h) is processed and the node's answer is definite -- a receipt,
       the sentinel, or null/error followed by a definite individual answer (both transports) --
       every waiter registered for (n,h) at that moment holds that outcome afterwards and none
       remains registered. *)
Theorem C09_proc_resolves : forall s c snap n h r q fb o, Inv s ->
  chk s = InFlight c snap ((n, h, r) :: q) -> resolves h r fb = Some o ->
  let s' := step current s (Proc fb) in
  (forall w, In (n, h, w) (wait s) -> In (w, o) (delivered s')) /\ (forall w, ~ In (n, h, w) (wait s')).
Proof. exact proc_resolves. Qed.
Print Assumptions C09_proc_resolves.
(* [Inv] holds in every reachable state: *)
Theorem C09_inv_reachable : forall evs, Inv (run current evs).
Proof. exact inv_run. Qed.
Print Assumptions C09_inv_reachable.
(* (3) THE COMPOSITION, over arbitrary histories.  Let the history be
         pre ++ CheckBegin :: mid ++ Proc fb :: post
       where after [pre] the checker holds a check with confirmed nonce c (handed over by a poll),
       waiter w is registered for transaction (n, h) and n < c.  [CheckBegin] takes the snapshot
       [older c (wait ..)].  "The events [mid] complete the check for (n,h) with answer r" is the
       predicate [complete_check n h c snapshot mid r] (model/TxMonitor.v, [drive]): scanning
       [mid] from the snapshot -- each [BatchReply rs] (when no batch is being processed) moves
       the asked hashes of [rs] from the snapshot into the queue, each [Proc _] pops the queue
       head, every other event (new waiters, sends, polls, Close, Drain, the client's goroutines:
       any interleaving) is skipped -- no batch fails, the check does not end, the element of
       (n,h) is not processed inside [mid], and after [mid] the element (n, h, r) is at the head
       of the queue.  The next event [Proc fb] processes it, fb being the answer of the individual
       query (None = not asked / not needed).  If the node's answers are definite
       ([resolves h r fb = Some o]: a receipt or NotFound in the batch -- function mocks -- or
       null/error in the batch followed by a receipt or NotFound individually -- real JSON-RPC)
       then, whatever [post] is, w holds exactly one outcome: o (its receipt if the node answered
       one, "cancelled" if the node has none), or "monitor closed" if the drain ran inside [mid]. *)
Theorem C09_complete_check_resolves : forall pre mid fb post c n h w r o,
  let s0 := run current pre in
  chk s0 = Handed c -> In (n, h, w) (wait s0) -> n < c ->
  complete_check n h c (older c (wait s0)) mid r ->
  resolves h r fb = Some o ->
  let s' := run current (pre ++ CheckBegin :: mid ++ Proc fb :: post) in
  exists o', In (w, o') (delivered s') /\ (forall o'', In (w, o'') (delivered s') -> o'' = o') /\
             (o' = o \/ (In Drain mid /\ o' = OClosed)).
Proof. exact complete_check_resolves. Qed.
Print Assumptions C09_complete_check_resolves.

(* An outcome, once delivered, stays delivered (used above for [post]). *)
Theorem C09_delivered_stays : forall evs evs' w o,
  In (w, o) (delivered (run current evs)) -> In (w, o) (delivered (run current (evs ++ evs'))).
Proof. exact delivered_stays. Qed.
Print Assumptions C09_delivered_stays.

(* What starts a check -- liveness is tied to chain progress, not to time:
   a poll that sees no new block and did not receive the new-transaction signal changes nothing,
   so no number of such polls resolves anybody (a waiter whose non-blocking signal was lost while
   the watch loop was busy waits for the next NEW block even if its receipt already exists) ... *)
Theorem C09_stalled_without_new_block : forall evs polls,
  Forall (stale_poll (last_block (run current evs))) polls ->
  run current (evs ++ polls) = run current evs.
Proof. exact stalled_without_new_block. Qed.
Print Assumptions C09_stalled_without_new_block.
(* ... concretely ("eventually, without chain progress" is refuted; the next block resolves): *)
Theorem C09_resolution_without_new_block_refuted : forall k,
  let pre := [Poll (Some 5) (Some 1) false; CheckBegin; Sent 1 0; InternalWatch 1 0; WatchRaw 1 0] in
  let s := run current (pre ++ repeat (Poll (Some 5) (Some 1) false) k) in
  wait s = [(0, 1, 0); (0, 1, 1)] /\ delivered s = [] /\ chk s = Idle /\
  delivered (run current ((pre ++ repeat (Poll (Some 5) (Some 1) false) k) ++
                          [Poll (Some 6) (Some 1) false; CheckBegin; BatchReply [(1, RReceipt 1)]; Proc None]))
  = [(0, OReceipt 1 1); (1, OReceipt 1 1)].
Proof. exact resolution_without_new_block_refuted. Qed.
Print Assumptions C09_resolution_without_new_block_refuted.
(* ... what is guaranteed: the first poll of a new block with the checker idle hands a check
   over (then C09_snapshot_covers and C09_complete_check_resolves apply) ... *)
Theorem C09_new_block_starts_check : forall s b c nt, panicked s = false -> wl_exited s = false ->
  chk s = Idle -> last_block s < b ->
  let s' := step current s (Poll (Some b) (Some c) nt) in
  chk s' = Handed c /\ wait s' = wait s /\ last_block s' = b.
Proof. exact new_block_starts_check. Qed.
Print Assumptions C09_new_block_starts_check.
(* ... while a new block polled during a check in flight is consumed without a check. *)
Theorem C09_new_block_during_check_dropped : forall s b c nt c0 snap q, panicked s = false -> wl_exited s = false ->
  chk s = InFlight c0 snap q -> last_block s < b ->
  let s' := step current s (Poll (Some b) (Some c) nt) in
  chk s' = InFlight c0 snap q /\ last_block s' = b.
Proof. exact new_block_during_check_dropped. Qed.
Print Assumptions C09_new_block_during_check_dropped.
(* ... and so is one polled when no check is in flight but checkLoop is not yet back in its
   select (event [PollLost]: the non-blocking send takes the default branch; C09_new_block_starts_check
   is about [Poll], the iteration whose hand-over succeeded): nothing is checked, lastBlock advances ... *)
Theorem C09_handoff_lost_consumes_block : forall s b c nt, panicked s = false -> wl_exited s = false ->
  last_block s < b ->
  let s' := step current s (PollLost b c nt) in
  chk s' = chk s /\ wait s' = wait s /\ delivered s' = delivered s /\ last_block s' = b.
Proof. exact handoff_lost_consumes_block. Qed.
Print Assumptions C09_handoff_lost_consumes_block.
(* ... so the waiter of a mined transaction then waits for the block after (concrete history): *)
Theorem C09_handoff_lost_demo : forall k,
  let pre := [Sent 1 0; InternalWatch 1 0; WatchRaw 1 0; PollLost 6 1 false] in
  let s := run current (pre ++ repeat (Poll (Some 6) (Some 1) false) k) in
  wait s = [(0, 1, 0); (0, 1, 1)] /\ delivered s = [] /\ chk s = Idle /\ last_block s = 6 /\
  delivered (run current ((pre ++ repeat (Poll (Some 6) (Some 1) false) k) ++
                          [Poll (Some 7) (Some 1) false; CheckBegin; BatchReply [(1, RReceipt 1)]; Proc None]))
  = [(0, OReceipt 1 1); (1, OReceipt 1 1)].
Proof. exact handoff_lost_demo. Qed.
Print Assumptions C09_handoff_lost_demo.

(* Resolution, shutdown side: once Close happened, the drain completes ... *)
Theorem C09_drain_completes : forall evs, closed (run current evs) = true ->
  drained (run current (evs ++ [Drain])) = true /\ wait (run current (evs ++ [Drain])) = [].
Proof. exact drain_completes. Qed.
Print Assumptions C09_drain_completes.
(* ... stays completed ... *)
Theorem C09_drained_forever : forall evs evs', drained (run current evs) = true ->
  drained (run current (evs ++ evs')) = true.
Proof. exact drained_forever. Qed.
Print Assumptions C09_drained_forever.
(* ... and from then on every waiter ever registered -- before or after the drain -- holds
   exactly one outcome ... *)
Theorem C09_drained_all_answered : forall evs w h n, let s := run current evs in
  drained s = true -> In (w, h, n) (watchers s) ->
  exists o, In (w, o) (delivered s) /\ forall o', In (w, o') (delivered s) -> o' = o.
Proof. exact drained_all_answered. Qed.
Print Assumptions C09_drained_all_answered.
(* ... a late one being answered "monitor closed" inside its own watchTx call. *)
Theorem C09_late_waiter_closed : forall evs h n, drained (run current evs) = true ->
  let s' := run current (evs ++ [WatchRaw h n]) in
  In (next (run current evs), h, n) (watchers s') /\ In (next (run current evs), OClosed) (delivered s').
Proof. exact late_waiter_closed. Qed.
Print Assumptions C09_late_waiter_closed.

(* The pending list never shows a transaction the node did not send ... *)
Theorem C09_pending_sent : forall evs h,
  In h (pending_hashes (run current evs)) -> exists n, In (Sent h n) evs.
Proof. exact pending_listed_sent. Qed.
Print Assumptions C09_pending_sent.
(* ... and a transaction whose own waiter consumed a receipt or a cancellation (mined or
   replaced) is not listed. *)
Theorem C09_pending_resolved : forall s w h o, panicked s = false ->
  lookup w (internal s) = Some h -> out_of w (delivered s) = Some o -> o <> OClosed ->
  ~ In h (pending_hashes (step current s (InternalRun w))).
Proof. exact internal_run_clears. Qed.
Print Assumptions C09_pending_resolved.
(* ... and stays unlisted unless the client sends that very hash again. *)
Theorem C09_pending_resolved_stays : forall evs' s h, ~ In h (pending_hashes s) ->
  (forall n, ~ In (Sent h n) evs') -> ~ In h (pending_hashes (run_from current s evs')).
Proof. exact pending_resolved_stays. Qed.
Print Assumptions C09_pending_resolved_stays.

(* The code before the three repairs violates the property (regression lemmas). *)
Theorem C09_no_panic_refuted :
  panicked (run v0_drain [Sent 1 0; InternalWatch 1 0; Poll (Some 1) (Some 1) true; CheckBegin; Close; Drain;
                          BatchReply [(1, RReceipt 1)]; Proc None]) = true.
Proof. exact no_panic_refuted. Qed.
Print Assumptions C09_no_panic_refuted.
Theorem C09_resolved_refuted :
  let s := run v0_fallback [Sent 1 0; InternalWatch 1 0; Poll (Some 1) (Some 1) true; CheckBegin;
                            BatchReply [(1, RNullOverWire)]; Proc (Some RNotFound)] in
  chk s = Idle /\ wait s = [(0, 1, 0)] /\ delivered s = [].
Proof. exact resolved_refuted. Qed.
Print Assumptions C09_resolved_refuted.
Theorem C09_pending_refuted :
  let s := run v0_pending [Sent 1 0; InternalWatch 1 0; Poll (Some 1) (Some 1) true; CheckBegin;
                           BatchReply [(1, RNotFound)]; Proc None; InternalRun 0] in
  delivered s = [(0, OCancelled)] /\ internal s = [] /\ pending_hashes s = [1].
Proof. exact pending_refuted. Qed.
Print Assumptions C09_pending_refuted.
