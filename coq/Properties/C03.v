(* C03 -- Signed digests are the EIP-712 hashes the settlement contract recomputes.
   Statements only; every proof is [exact <lemma>].  K is an ARBITRARY function from byte
   strings to byte strings: nothing below depends on lib/Keccak.v.
   Non-vacuity: Eip712_proofs.c03_domain_inhabited, Signer_proofs.toy_signer_shape,
   Signer_proofs.toy_roundtrip. *)
From Coq Require Import String List NArith ZArith Bool.
From MevVerif Require Import lib.Bytes gen.Generated model.Eip712 model.Signer
  proofs.Eip712_proofs proofs.Signer_proofs.
Import ListNotations.
Open Scope N_scope.

(* The string literals hashed by GetBidHash / GetPreConfirmationHash (extracted from signer.go
   on every run) are the EIP-712 type encodings of the published schema, the two domain names,
   version "1" and the 0x19 0x01 prefix. *)
Theorem C03_schema :
  lit_domain_type c03_bid_strings = encode_type domain_schema /\
  lit_domain_type c03_commit_strings = encode_type domain_schema /\
  encode_type domain_schema = bos "EIP712Domain(string name,string version)" /\
  lit_name c03_bid_strings = bos "PreConfBid" /\ lit_name c03_commit_strings = bos "PreConfCommitment" /\
  lit_version c03_bid_strings = bos "1" /\ lit_version c03_commit_strings = bos "1" /\
  lit_struct_type c03_bid_strings = encode_type bid_schema /\
  encode_type bid_schema =
    bos "PreConfBid(string txnHash,uint64 bid,uint64 blockNumber,uint64 decayStartTimeStamp,uint64 decayEndTimeStamp)" /\
  lit_struct_type c03_commit_strings = encode_type commitment_schema /\
  encode_type commitment_schema =
    bos "PreConfCommitment(string txnHash,uint64 bid,uint64 blockNumber,uint64 decayStartTimeStamp,uint64 decayEndTimeStamp,string bidHash,string signature)" /\
  lit_prefix c03_bid_strings = [25; 1] /\ lit_prefix c03_commit_strings = [25; 1].
Proof. exact schema_facts. Qed.
Print Assumptions C03_schema.

(* For every hash function K, every tx-hash string (any bytes), every spelling of an amount A
   in [0,2^64) accepted by big.Int.SetString, and block number / decay timestamps in [0,2^63):
   GetBidHash succeeds and returns the generic EIP-712 hash of the typed-data message
   (txnHash, bid = A, blockNumber, decayStartTimeStamp, decayEndTimeStamp) under the domain
   (name "PreConfBid", version "1"); the message is well typed for the schema. *)
Theorem C03_bid : forall (K : bytes -> bytes) (b : bid) (A : Z),
  parse_amount (b_amt b) = Some A ->
  (0 <= A < 2 ^ 64)%Z -> (0 <= b_bn b < 2 ^ 63)%Z -> (0 <= b_ds b < 2 ^ 63)%Z -> (0 <= b_de b < 2 ^ 63)%Z ->
  bid_hash K b =
    Ok (eip712_hash K domain_schema bid_domain bid_schema
          (bid_values (b_tx b) (Z.to_N A) (Z.to_N (b_bn b)) (Z.to_N (b_ds b)) (Z.to_N (b_de b))))
  /\ well_typed (s_members bid_schema)
       (bid_values (b_tx b) (Z.to_N A) (Z.to_N (b_bn b)) (Z.to_N (b_ds b)) (Z.to_N (b_de b))) = true.
Proof. exact bid_hash_is_eip712. Qed.
Print Assumptions C03_bid.

(* the canonical decimal spelling of every A is such a spelling *)
Theorem C03_amount_spelling : forall n : N, parse_amount (show_dec n) = Some (Z.of_N n).
Proof. exact parse_amount_show_dec. Qed.
Print Assumptions C03_amount_spelling.

(* Likewise the commitment digest, whose two extra string members are the lowercase
   hexadecimal renderings of the embedded bid's digest and signature bytes (absent = empty). *)
Theorem C03_commitment : forall (K : bytes -> bytes) (c : preconf) (b : bid) (A : Z),
  c_bid c = Some b ->
  parse_amount (b_amt b) = Some A ->
  (0 <= A < 2 ^ 64)%Z -> (0 <= b_bn b < 2 ^ 63)%Z -> (0 <= b_ds b < 2 ^ 63)%Z -> (0 <= b_de b < 2 ^ 63)%Z ->
  commitment_hash K c =
    Ok (eip712_hash K domain_schema commitment_domain commitment_schema
          (bid_values (b_tx b) (Z.to_N A) (Z.to_N (b_bn b)) (Z.to_N (b_ds b)) (Z.to_N (b_de b)) ++
           [VString (hex (obytes (b_dig b))); VString (hex (obytes (b_sig b)))]))
  /\ well_typed (s_members commitment_schema)
       (commitment_values (b_tx b) (Z.to_N A) (Z.to_N (b_bn b)) (Z.to_N (b_ds b)) (Z.to_N (b_de b))
                          (obytes (b_dig b)) (obytes (b_sig b))) = true.
Proof. exact commitment_hash_is_eip712. Qed.
Print Assumptions C03_commitment.

Theorem C03_hex_is_lowercase : forall l, wf_bytes l ->
  Forall (fun c => (48 <= c <= 57) \/ (97 <= c <= 102)) (hex l).
Proof. exact hex_lowercase. Qed.
Print Assumptions C03_hex_is_lowercase.

(* Signatures are emitted as 65 bytes r||s||v with v in {27,28}: whenever the key signer
   answers 65 bytes whose last byte is 0, 1, 27 or 28, every bid built by ConstructSignedBid
   carries the digest of its own fields and such a signature, ... *)
Theorem C03_v_bid : forall (K : bytes -> bytes) (cr : crypto) tx amt bn ds de b,
  (forall h sg, sign cr h = Ok sg ->
     length sg = 65%nat /\ exists v, nth_error sg 64 = Some v /\ (v = 0 \/ v = 1 \/ v = 27 \/ v = 28)) ->
  construct_bid K cr tx amt bn ds de = Ok b ->
  b_tx b = tx /\ b_amt b = amt /\ b_bn b = bn /\ b_ds b = ds /\ b_de b = de /\
  exists d sig, b_dig b = Some d /\ bid_hash K b = Ok d /\ b_sig b = Some sig /\
    length sig = 65%nat /\ (nth_error sig 64 = Some 27 \/ nth_error sig 64 = Some 28).
Proof. exact construct_bid_shape. Qed.
Print Assumptions C03_v_bid.

(* ... and so does every commitment built by ConstructPreConfirmation. *)
Theorem C03_v_commitment : forall (K : bytes -> bytes) (cr : crypto) ob c,
  (forall h sg, sign cr h = Ok sg ->
     length sg = 65%nat /\ exists v, nth_error sg 64 = Some v /\ (v = 0 \/ v = 1 \/ v = 27 \/ v = 28)) ->
  construct_preconf K cr ob = Ok c ->
  exists b d sig, ob = Some b /\ c_bid c = Some b /\ c_dig c = Some d /\
    commitment_hash K c = Ok d /\ c_sig c = Some sig /\
    length sig = 65%nat /\ (nth_error sig 64 = Some 27 \/ nth_error sig 64 = Some 28).
Proof. exact construct_preconf_shape. Qed.
Print Assumptions C03_v_commitment.
