(* C03 -- Signed digests are the EIP-712 hashes the settlement contract recomputes.
   Statements only; every proof is [exact <lemma>].  K is an ARBITRARY function from byte
   strings to byte strings: nothing below depends on lib/Keccak.v.
   Non-vacuity: Eip712_proofs.c03_domain_inhabited, Signer_proofs.toy_signer_shape,
   Signer_proofs.toy_roundtrip. *)
From Coq Require Import String List NArith ZArith Bool.
From MevVerif Require Import lib.Bytes lib.Keccak gen.Generated model.Eip712 model.Signer
  proofs.Eip712_proofs proofs.Signer_proofs.
Import ListNotations.
Open Scope N_scope.

(* The string literals hashed by GetBidHash / GetPreConfirmationHash (extracted from signer.go
   on every run) are the EIP-712 type encodings of the published schema, the two domain names,
   version "1" and the 0x19 0x01 prefix. *)
Theorem C03_schema :
  lit_domain_type c03_bid_strings = encode_type domain_schema /\
  lit_domain_type c03_commit_strings = encode_type domain_schema /\
  encode_type domain_schema = bos "EIP712Domain(string name,string version)" /\
  lit_name c03_bid_strings = bos "PreConfBid" /\ lit_name c03_commit_strings = bos "PreConfCommitment" /\
  lit_version c03_bid_strings = bos "1" /\ lit_version c03_commit_strings = bos "1" /\
  lit_struct_type c03_bid_strings = encode_type bid_schema /\
  encode_type bid_schema =
    bos "PreConfBid(string txnHash,uint64 bid,uint64 blockNumber,uint64 decayStartTimeStamp,uint64 decayEndTimeStamp)" /\
  lit_struct_type c03_commit_strings = encode_type commitment_schema /\
  encode_type commitment_schema =
    bos "PreConfCommitment(string txnHash,uint64 bid,uint64 blockNumber,uint64 decayStartTimeStamp,uint64 decayEndTimeStamp,string bidHash,string signature)" /\
  lit_prefix c03_bid_strings = [25; 1] /\ lit_prefix c03_commit_strings = [25; 1].
Proof. exact schema_facts. Qed.
Print Assumptions C03_schema.

(* The ORDER of the members in the struct encoding is tied to the source as well: the right-hand
   sides of the assignments to [data] in GetBidHash / GetPreConfirmationHash (regenerated from
   signer.go on every run), classified by the member they mention, are: type hash and tx hash
   first, then amount, block number, decay start, decay end (then bid digest, bid signature), each
   later step being append(data, ...); and the model's digest is the hash over exactly that order. *)
Theorem C03_field_order :
  (map classify_item c03_bid_data_chain = map Some bid_item_order /\
   forallb appends_to_data (tl c03_bid_data_chain) = true /\
   map classify_item c03_commit_data_chain = map Some commitment_item_order /\
   forallb appends_to_data (tl c03_commit_data_chain) = true) /\
  (forall K b A, bid_hash_tail K b A =
     K (lit_prefix c03_bid_strings ++ domain_separator_of K c03_bid_strings ++
        K (concat (map (item_bytes K c03_bid_strings b A) bid_item_order)))) /\
  (forall K b A, commitment_hash_tail K b A =
     K (lit_prefix c03_commit_strings ++ domain_separator_of K c03_commit_strings ++
        K (concat (map (item_bytes K c03_commit_strings b A) commitment_item_order)))).
Proof. exact field_order_facts. Qed.
Print Assumptions C03_field_order.

(* For every hash function K, every tx-hash string (any bytes), every spelling of an amount A
   in [0,2^64) accepted by big.Int.SetString, and block number / decay timestamps in [0,2^63):
   GetBidHash succeeds and returns the generic EIP-712 hash of the typed-data message
   (txnHash, bid = A, blockNumber, decayStartTimeStamp, decayEndTimeStamp) under the domain
   (name "PreConfBid", version "1"); the message is well typed for the schema. *)
Theorem C03_bid : forall (K : bytes -> bytes) (b : bid) (A : Z),
  parse_amount (b_amt b) = Some A ->
  (0 <= A < 2 ^ 64)%Z -> (0 <= b_bn b < 2 ^ 63)%Z -> (0 <= b_ds b < 2 ^ 63)%Z -> (0 <= b_de b < 2 ^ 63)%Z ->
  bid_hash K b =
    Ok (eip712_hash K domain_schema bid_domain bid_schema
          (bid_values (b_tx b) (Z.to_N A) (Z.to_N (b_bn b)) (Z.to_N (b_ds b)) (Z.to_N (b_de b))))
  /\ well_typed (s_members bid_schema)
       (bid_values (b_tx b) (Z.to_N A) (Z.to_N (b_bn b)) (Z.to_N (b_ds b)) (Z.to_N (b_de b))) = true.
Proof. exact bid_hash_is_eip712. Qed.
Print Assumptions C03_bid.

(* the canonical decimal spelling of every A is such a spelling *)
Theorem C03_amount_spelling : forall n : N, parse_amount (show_dec n) = Some (Z.of_N n).
Proof. exact parse_amount_show_dec. Qed.
Print Assumptions C03_amount_spelling.

(* Likewise the commitment digest, whose two extra string members are the lowercase
   hexadecimal renderings of the embedded bid's digest and signature bytes (absent = empty). *)
Theorem C03_commitment : forall (K : bytes -> bytes) (c : preconf) (b : bid) (A : Z),
  c_bid c = Some b ->
  parse_amount (b_amt b) = Some A ->
  (0 <= A < 2 ^ 64)%Z -> (0 <= b_bn b < 2 ^ 63)%Z -> (0 <= b_ds b < 2 ^ 63)%Z -> (0 <= b_de b < 2 ^ 63)%Z ->
  commitment_hash K c =
    Ok (eip712_hash K domain_schema commitment_domain commitment_schema
          (bid_values (b_tx b) (Z.to_N A) (Z.to_N (b_bn b)) (Z.to_N (b_ds b)) (Z.to_N (b_de b)) ++
           [VString (hex (obytes (b_dig b))); VString (hex (obytes (b_sig b)))]))
  /\ well_typed (s_members commitment_schema)
       (commitment_values (b_tx b) (Z.to_N A) (Z.to_N (b_bn b)) (Z.to_N (b_ds b)) (Z.to_N (b_de b))
                          (obytes (b_dig b)) (obytes (b_sig b))) = true.
Proof. exact commitment_hash_is_eip712. Qed.
Print Assumptions C03_commitment.

Theorem C03_hex_is_lowercase : forall l, wf_bytes l ->
  Forall (fun c => (48 <= c <= 57) \/ (97 <= c <= 102)) (hex l).
Proof. exact hex_lowercase. Qed.
Print Assumptions C03_hex_is_lowercase.

(* The digest the node SIGNS, and the form of the signature.  Whenever the key signer answers 65
   bytes whose last byte is 0, 1, 27 or 28: every bid built by ConstructSignedBid carries the
   digest d of its own fields, and its signature is the key signer's answer FOR THAT d with
   r||s untouched and v brought to 27/28 (sign_normalised), 65 bytes, v in {27,28}; ... *)
Theorem C03_v_bid : forall (K : bytes -> bytes) (cr : crypto) tx amt bn ds de b,
  (forall h sg, sign cr h = Ok sg ->
     length sg = 65%nat /\ exists v, nth_error sg 64 = Some v /\ (v = 0 \/ v = 1 \/ v = 27 \/ v = 28)) ->
  construct_bid K cr tx amt bn ds de = Ok b ->
  b_tx b = tx /\ b_amt b = amt /\ b_bn b = bn /\ b_ds b = ds /\ b_de b = de /\
  exists d sig sg, b_dig b = Some d /\ bid_hash K b = Ok d /\ b_sig b = Some sig /\
    sign_normalised cr d = Ok sig /\ sign cr d = Ok sg /\ firstn 64 sig = firstn 64 sg /\
    length sig = 65%nat /\ (nth_error sig 64 = Some 27 \/ nth_error sig 64 = Some 28).
Proof. exact construct_bid_shape. Qed.
Print Assumptions C03_v_bid.

(* ... and so does every commitment built by ConstructPreConfirmation. *)
Theorem C03_v_commitment : forall (K : bytes -> bytes) (cr : crypto) ob c,
  (forall h sg, sign cr h = Ok sg ->
     length sg = 65%nat /\ exists v, nth_error sg 64 = Some v /\ (v = 0 \/ v = 1 \/ v = 27 \/ v = 28)) ->
  construct_preconf K cr ob = Ok c ->
  exists b d sig sg, ob = Some b /\ c_bid c = Some b /\ c_dig c = Some d /\
    commitment_hash K c = Ok d /\ c_sig c = Some sig /\
    sign_normalised cr d = Ok sig /\ sign cr d = Ok sg /\ firstn 64 sig = firstn 64 sg /\
    length sig = 65%nat /\ (nth_error sig 64 = Some 27 \/ nth_error sig 64 = Some 28).
Proof. exact construct_preconf_shape. Qed.
Print Assumptions C03_v_commitment.

(* The property sentence in one statement: for a bid in the uint64 domain, what the node stores
   as digest AND hands to its key signer is the EIP-712 hash of the typed-data message. *)
Theorem C03_signed_digest_is_eip712 : forall (K : bytes -> bytes) (cr : crypto) tx amt bn ds de b A,
  (forall h sg, sign cr h = Ok sg ->
     length sg = 65%nat /\ exists v, nth_error sg 64 = Some v /\ (v = 0 \/ v = 1 \/ v = 27 \/ v = 28)) ->
  construct_bid K cr tx amt bn ds de = Ok b ->
  parse_amount amt = Some A ->
  (0 <= A < 2 ^ 64)%Z -> (0 <= bn < 2 ^ 63)%Z -> (0 <= ds < 2 ^ 63)%Z -> (0 <= de < 2 ^ 63)%Z ->
  let d := eip712_hash K domain_schema bid_domain bid_schema
             (bid_values tx (Z.to_N A) (Z.to_N bn) (Z.to_N ds) (Z.to_N de)) in
  b_dig b = Some d /\
  exists sig sg, b_sig b = Some sig /\ sign cr d = Ok sg /\ sign_normalised cr d = Ok sig /\
    firstn 64 sig = firstn 64 sg /\
    length sig = 65%nat /\ (nth_error sig 64 = Some 27 \/ nth_error sig 64 = Some 28).
Proof. exact construct_bid_signs_eip712. Qed.
Print Assumptions C03_signed_digest_is_eip712.

Theorem C03_signed_commitment_digest_is_eip712 : forall (K : bytes -> bytes) (cr : crypto) b c A,
  (forall h sg, sign cr h = Ok sg ->
     length sg = 65%nat /\ exists v, nth_error sg 64 = Some v /\ (v = 0 \/ v = 1 \/ v = 27 \/ v = 28)) ->
  construct_preconf K cr (Some b) = Ok c ->
  parse_amount (b_amt b) = Some A ->
  (0 <= A < 2 ^ 64)%Z -> (0 <= b_bn b < 2 ^ 63)%Z -> (0 <= b_ds b < 2 ^ 63)%Z -> (0 <= b_de b < 2 ^ 63)%Z ->
  let d := eip712_hash K domain_schema commitment_domain commitment_schema
             (commitment_values (b_tx b) (Z.to_N A) (Z.to_N (b_bn b)) (Z.to_N (b_ds b)) (Z.to_N (b_de b))
                                (obytes (b_dig b)) (obytes (b_sig b))) in
  c_bid c = Some b /\ c_dig c = Some d /\
  exists sig sg, c_sig c = Some sig /\ sign cr d = Ok sg /\ sign_normalised cr d = Ok sig /\
    firstn 64 sig = firstn 64 sg /\
    length sig = 65%nat /\ (nth_error sig 64 = Some 27 \/ nth_error sig 64 = Some 28).
Proof. exact construct_preconf_signs_eip712. Qed.
Print Assumptions C03_signed_commitment_digest_is_eip712.

(* Delimitation: amounts in [2^64, 2^256) are hashed (and therefore signed) by the node although
   no uint64 member of the published schema can hold them -- outside the claim above. *)
Theorem C03_outside_schema : forall (K : bytes -> bytes) (b : bid) (A : Z),
  parse_amount (b_amt b) = Some A -> (2 ^ 64 <= A < 2 ^ 256)%Z ->
  (exists d, bid_hash K b = Ok d) /\
  forall bn ds de, well_typed (s_members bid_schema) (bid_values (b_tx b) (Z.to_N A) bn ds de) = false.
Proof. exact bid_hash_outside_schema. Qed.
Print Assumptions C03_outside_schema.

(* The generic specification, run with the executable Keccak-256, reproduces the two values of
   the repository's TestHashing that were obtained from the Solidity contract. *)
Theorem C03_contract_vectors :
  hex (eip712_bid keccak256 (bos "0xkartik") 200 3000 10 30) =
    bos "a837b0c680d4b9b11011ac6225670498d845e65f1dc340b00694d74a6ca0a049" /\
  hex (eip712_commitment keccak256 (bos "0xkartik") 2 2 10 20
         (x "a0327970258c49b922969af74d60299a648c50f69a2d98d6ab43f32f64ac2100")
         (x "876c1216c232828be9fabb14981c8788cebdf6ed66e563c4a2ccc82a577d052543207aeeb158a32d8977736797ae250c63ef69a82cd85b727da21e20d030fb311b")) =
    bos "54c118e537dd7cf63b5388a5fc8322f0286a978265d0338b108a8ca9d155dccc".
Proof. exact (conj contract_vector_bid contract_vector_commitment). Qed.
Print Assumptions C03_contract_vectors.
