(* C13 -- Stream framing round-trips messages, order, headers and handler errors.
   Statements only; every proof is [exact <lemma>] (proofs/Framing_proofs.v, proofs/Varint_proofs.v).
   Model: model/Framing.v (msgio length-prefixed frames, StreamMsg{data|error}, incremental reader).
   Non-vacuity: ex_typed, ex_session, ex_neither, ex_negative_code, ex_limit, ex_chunking_dead,
   ex_oversized, ex_epilogue (Framing_proofs), varint_examples, utf8_examples (Varint_proofs). *)
From Coq Require Import List NArith ZArith Bool.
From MevVerif Require Import lib.Bytes lib.Varint model.Framing proofs.Varint_proofs proofs.Framing_proofs.
Import ListNotations.
Open Scope N_scope.

(* Any sequence of writes -- protocol messages (TMsg, empty ones included), headers (THdr) and
   non-OK status errors (TErr), each framed body within the 8 MiB limit -- delivered to the reader
   under ANY chunking of the byte stream is read back as exactly that sequence, in order, one
   result per write, with nothing left over and the reader not stuck.  Equality of the decoded
   messages/headers rests on the two premises Unmarshal(Marshal x) = x for protobuf-go, which
   the driver tests for every protocol message type. *)
Theorem C13_roundtrip :
  forall (M H : Type) (marshal : M -> bytes) (unmarshal : bytes -> option M)
         (hmarshal : H -> bytes) (hunmarshal : bytes -> option H),
  (forall m, unmarshal (marshal m) = Some m) ->
  (forall h, hunmarshal (hmarshal h) = Some h) ->
  forall (ts : list (titem M H)) (cs : list bytes),
  Forall (titem_ok M H marshal hmarshal) ts ->
  concat cs = stream_of (map (lower M H marshal hmarshal) ts) ->
  let s := feed_chunks cs in
  dead s = false /\ rbuf s = [] /\
  Forall2 (tdelivered M H unmarshal hunmarshal) ts (out s).
Proof. exact typed_roundtrip. Qed.
Print Assumptions C13_roundtrip.

(* The same at byte level, without any premise: inner payloads and header payloads are byte
   strings; an error item with code OK reads as "no data" (outside the claim, see ROkNoData). *)
Theorem C13_roundtrip_bytes : forall (its : list item) (cs : list bytes),
  Forall item_ok its -> concat cs = stream_of its ->
  let s := feed_chunks cs in
  dead s = false /\ rbuf s = [] /\ Forall2 delivered its (out s).
Proof. exact session_roundtrip. Qed.
Print Assumptions C13_roundtrip_bytes.

(* [stream_of] is what the three writers of stream.go put on the network stream *)
Theorem C13_writers : forall it, item_ok it -> item_written it = Ok (frame (item_body it)).
Proof. exact item_written_ok. Qed.
Print Assumptions C13_writers.

(* For ALL chunkings (arbitrary byte strings, empty chunks, cuts inside length prefixes, hostile
   content) the frames delivered and the stuck condition equal those of the unchunked stream. *)
Theorem C13_chunking : forall cs : list bytes,
  out (feed_chunks cs) = out (feed_all (concat cs)) /\
  dead (feed_chunks cs) = dead (feed_all (concat cs)) /\
  (dead (feed_all (concat cs)) = false -> rbuf (feed_chunks cs) = rbuf (feed_all (concat cs))).
Proof. exact chunking. Qed.
Print Assumptions C13_chunking.

(* A non-OK status (any int32 code but 0, any valid UTF-8 message, any details) written with
   WriteError reads back, under any chunking, as exactly one status error with the same code,
   message and details ... *)
Theorem C13_error : forall (s : status) (cs : list bytes),
  int32_range (st_code s) -> st_code s <> 0%Z -> status_marshal_ok s = true ->
  len_of (enc_streammsg (BError s)) <= max_msg ->
  exists f, write_error s = Ok f /\
    (concat cs = f ->
     map read_msg (out (feed_chunks cs)) = [RStatus s] /\ dead (feed_chunks cs) = false /\
     rbuf (feed_chunks cs) = []).
Proof. exact error_roundtrip. Qed.
Print Assumptions C13_error.

(* ... and whatever the status (code OK included), the frame WriteError produces never reads
   as data.  A status that cannot be marshalled puts nothing on the stream. *)
Theorem C13_error_never_data : forall (s : status) (f d : bytes),
  write_error s = Ok f -> int32_range (st_code s) -> len_of (enc_streammsg (BError s)) <= max_msg ->
  forall fr rest, parse1 (f ++ rest) = Frame fr rest -> read_msg fr <> RData d.
Proof. exact error_never_data. Qed.
Print Assumptions C13_error_never_data.

Theorem C13_error_refused : forall s, status_marshal_ok s = false -> write_error s = Err err_marshal.
Proof. exact write_error_refused. Qed.
Print Assumptions C13_error_refused.

(* The handler epilogue of AddStreamHandlers (status.FromError, then WriteError): the error a
   handler returns surfaces to the reader as the status grpc derives from it. *)
Theorem C13_handler_error : forall (e : herr) (cs : list bytes),
  let s := status_of_herr e in
  int32_range (st_code s) -> st_code s <> 0%Z -> status_marshal_ok s = true ->
  len_of (enc_streammsg (BError s)) <= max_msg ->
  exists f, handler_epilogue (Some e) = [AWrite f; AClose] /\
    (concat cs = f -> map read_msg (out (feed_chunks cs)) = [RStatus s]).
Proof. exact epilogue_roundtrip. Qed.
Print Assumptions C13_handler_error.

(* A frame with no oneof member -- empty, or holding only unknown fields or members with the
   wrong wire type -- is rejected; and data surfaces only from a frame that carries a data
   member. *)
Theorem C13_neither : forall (fr : bytes) (fs : list field),
  dec_fields fr = WFields fs -> forallb (fun f => negb (is_member f)) fs = true ->
  read_msg fr = RNeither.
Proof. exact neither_rejected. Qed.
Print Assumptions C13_neither.

Theorem C13_data_sound : forall (fr d : bytes), read_msg fr = RData d ->
  exists fs, dec_fields fr = WFields fs /\ In (1, WLen d) fs.
Proof. exact data_sound. Qed.
Print Assumptions C13_data_sound.

(* The size limit is exact: a data frame is delivered iff its body is at most 8 MiB; beyond it
   the reader is stuck (ErrMsgTooLarge), delivering what came before and nothing after. *)
Theorem C13_limit : forall (d rest : bytes),
  data_body_len (len_of d) < 256 ^ N.of_nat len_size ->
  parse1 (frame (enc_streammsg (BData d)) ++ rest) =
  if data_frame_accepted (len_of d) then Frame (enc_streammsg (BData d)) rest else TooLarge.
Proof. exact limit_exact. Qed.
Print Assumptions C13_limit.

Theorem C13_oversized : forall (bodies : list bytes) (big tail : bytes) (cs : list bytes),
  Forall (fun b => len_of b <= max_msg) bodies ->
  max_msg < len_of big -> len_of big < 256 ^ N.of_nat len_size ->
  concat cs = frames_of bodies ++ frame big ++ tail ->
  out (feed_chunks cs) = bodies /\ dead (feed_chunks cs) = true.
Proof. exact oversized_blocks. Qed.
Print Assumptions C13_oversized.

(* Codec round trips underneath: varint, field lists, length prefix. *)
Theorem C13_varint_roundtrip : forall v rest, v < two64 -> varint_dec (varint_enc v ++ rest) = Some (v, rest).
Proof. exact varint_dec_enc. Qed.
Print Assumptions C13_varint_roundtrip.

Theorem C13_fields_roundtrip : forall fs, Forall wf_field fs -> dec_fields (enc_fields fs) = WFields fs.
Proof. exact dec_fields_enc. Qed.
Print Assumptions C13_fields_roundtrip.

Theorem C13_prefix_roundtrip : forall body rest,
  len_of body <= max_msg -> parse1 (frame body ++ rest) = Frame body rest.
Proof. exact parse1_frame. Qed.
Print Assumptions C13_prefix_roundtrip.

(* Outside these theorems (observed by the correspondence only): protobuf-go's own Marshal /
   Unmarshal of the inner messages and of Header maps (premises of C13_roundtrip), skipping of
   group-typed unknown fields (RUnspec), reads abandoned through context cancellation, and the
   residual state of a msgio reader after a transport error. *)
