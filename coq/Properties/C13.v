(* C13 -- Stream framing round-trips messages, order, headers and handler errors.
   Statements only; every proof is [exact <lemma>] (proofs/Framing_proofs.v, proofs/Varint_proofs.v).
   Model: model/Framing.v (msgio length-prefixed frames, StreamMsg{data|error}, incremental reader).
   Non-vacuity: ex_typed, ex_session, ex_neither, ex_negative_code, ex_limit, ex_chunking_dead,
   ex_oversized, ex_epilogue, ex_header, ex_covered_cases (Framing_proofs),
   ex_wire_bid, ex_wire_nested, ex_roundtrip_concrete, ex_checker_wire (ProtoWire_proofs), varint_examples, utf8_examples (Varint_proofs). *)
From Coq Require Import String List NArith ZArith Bool.
From MevVerif Require Import lib.Bytes lib.Varint gen.Generated model.Framing model.ProtoWire check.Check_C13 proofs.Varint_proofs proofs.Framing_proofs proofs.ProtoWire_proofs.
Import ListNotations.
Open Scope N_scope.

(* Any sequence of writes -- protocol messages (TMsg, empty ones included), headers (THdr) and
   non-OK status errors (TErr), each framed body within the 8 MiB limit -- delivered to the reader
   under ANY chunking of the byte stream is read back as exactly that sequence, in order, one
   result per write, with nothing left over and the reader not stuck.  Equality of the decoded
   messages/headers rests on the two premises Unmarshal(Marshal x) = x for protobuf-go, which
   the driver tests for every protocol message type (for headers the map framing is proved
   without premise in C13_header; a Go nil map and an empty map are the same header here).
   Scope: this is about the frames the reader object delivers ([out s]); what the CALLERS get,
   with the explicit premise that no read is abandoned, is C13_delivery, and the loss caused by
   an abandoned read is C13_abandoned_read_loses_refuted. *)
Theorem C13_roundtrip :
  forall (M H : Type) (marshal : M -> bytes) (unmarshal : bytes -> option M)
         (hmarshal : H -> bytes) (hunmarshal : bytes -> option H),
  (forall m, unmarshal (marshal m) = Some m) ->
  (forall h, hunmarshal (hmarshal h) = Some h) ->
  forall (ts : list (titem M H)) (cs : list bytes),
  Forall (titem_ok M H marshal hmarshal) ts ->
  concat cs = stream_of (map (lower M H marshal hmarshal) ts) ->
  let s := feed_chunks cs in
  dead s = false /\ rbuf s = [] /\
  Forall2 (tdelivered M H unmarshal hunmarshal) ts (out s).
Proof. exact typed_roundtrip. Qed.
Print Assumptions C13_roundtrip.

(* The same at byte level, without any premise: inner payloads and header payloads are byte
   strings; an error item with code OK reads as "no data" (outside the claim, see ROkNoData). *)
Theorem C13_roundtrip_bytes : forall (its : list item) (cs : list bytes),
  Forall item_ok its -> concat cs = stream_of its ->
  let s := feed_chunks cs in
  dead s = false /\ rbuf s = [] /\ Forall2 delivered its (out s).
Proof. exact session_roundtrip. Qed.
Print Assumptions C13_roundtrip_bytes.

(* [stream_of] is what the three writers of stream.go put on the network stream *)
Theorem C13_writers : forall it, item_ok it -> item_written it = Ok (frame (item_body it)).
Proof. exact item_written_ok. Qed.
Print Assumptions C13_writers.

(* For ALL chunkings (arbitrary byte strings, empty chunks, cuts inside length prefixes, hostile
   content) the frames delivered and the stuck condition equal those of the unchunked stream. *)
Theorem C13_chunking : forall cs : list bytes,
  out (feed_chunks cs) = out (feed_all (concat cs)) /\
  dead (feed_chunks cs) = dead (feed_all (concat cs)) /\
  (dead (feed_all (concat cs)) = false -> rbuf (feed_chunks cs) = rbuf (feed_all (concat cs))).
Proof. exact chunking. Qed.
Print Assumptions C13_chunking.

(* A non-OK status (any int32 code but 0, any valid UTF-8 message, any details) written with
   WriteError reads back, under any chunking, as exactly one status error with the same code,
   message and details ... *)
Theorem C13_error : forall (s : status) (cs : list bytes),
  int32_range (st_code s) -> st_code s <> 0%Z -> status_marshal_ok s = true ->
  len_of (enc_streammsg (BError s)) <= max_msg ->
  exists f, write_error s = Ok f /\
    (concat cs = f ->
     map read_msg (out (feed_chunks cs)) = [RStatus s] /\ dead (feed_chunks cs) = false /\
     rbuf (feed_chunks cs) = []).
Proof. exact error_roundtrip. Qed.
Print Assumptions C13_error.

(* ... and the frame WriteError produces never delivers a payload to the caller's message
   (result RData).  For a non-OK code that is the claim of the property.  For code OK it only
   says "no payload": ReadMsg then returns nil with the caller's message untouched, which a
   caller cannot tell from a successful read -- made explicit in C13_ok_status_reads_as_nothing
   (outside the property, which speaks of non-OK statuses).  A status that cannot be marshalled
   puts nothing on the stream. *)
Theorem C13_error_never_data : forall (s : status) (f d : bytes),
  write_error s = Ok f -> int32_range (st_code s) -> len_of (enc_streammsg (BError s)) <= max_msg ->
  forall fr rest, parse1 (f ++ rest) = Frame fr rest -> read_msg fr <> RData d.
Proof. exact error_never_data. Qed.
Print Assumptions C13_error_never_data.

Theorem C13_ok_status_reads_as_nothing : forall s,
  st_code s = 0%Z -> status_marshal_ok s = true -> len_of (enc_streammsg (BError s)) <= max_msg ->
  read_msg (enc_streammsg (BError s)) = ROkNoData.
Proof. exact ok_status_reads_as_nothing. Qed.
Print Assumptions C13_ok_status_reads_as_nothing.

Theorem C13_error_refused : forall s, status_marshal_ok s = false -> write_error s = Err err_marshal.
Proof. exact write_error_refused. Qed.
Print Assumptions C13_error_refused.

(* The handler epilogue of AddStreamHandlers (status.FromError, then WriteError): the error a
   handler returns surfaces to the reader as the status grpc derives from it. *)
Theorem C13_handler_error : forall (e : herr) (cs : list bytes),
  let s := status_of_herr e in
  int32_range (st_code s) -> st_code s <> 0%Z -> status_marshal_ok s = true ->
  len_of (enc_streammsg (BError s)) <= max_msg ->
  exists f, handler_epilogue (Some e) = [AWrite f; AClose] /\
    (concat cs = f -> map read_msg (out (feed_chunks cs)) = [RStatus s]).
Proof. exact epilogue_roundtrip. Qed.
Print Assumptions C13_handler_error.

(* A frame with no oneof member -- empty, or holding only unknown fields or members with the
   wrong wire type -- is rejected; and data surfaces only from a frame that carries a data
   member. *)
Theorem C13_neither : forall (fr : bytes) (fs : list field),
  dec_fields fr = WFields fs -> forallb (fun f => negb (is_member f)) fs = true ->
  read_msg fr = RNeither.
Proof. exact neither_rejected. Qed.
Print Assumptions C13_neither.

(* An error member with code OK (next to C13_neither: it is not "neither", it is not rejected):
   the call returns nil and the destination message is NOT touched.  Outside the property, which
   speaks of non-OK statuses; stated so that the limit is visible. *)
Theorem C13_ok_error_frame_view : forall (inner_ok : bytes -> bool) (s : status),
  st_code s = 0%Z -> status_marshal_ok s = true -> len_of (enc_streammsg (BError s)) <= max_msg ->
  view_of inner_ok (read_msg (enc_streammsg (BError s))) = {| returns_nil := true; dest_touched := false |}.
Proof. exact ok_error_frame_view. Qed.
Print Assumptions C13_ok_error_frame_view.

(* ... and these are the only two ways a ReadMsg on a delivered frame returns nil. *)
Theorem C13_returns_nil_only : forall (fr : bytes) (inner_ok : bytes -> bool),
  returns_nil (view_of inner_ok (read_msg fr)) = true ->
  (exists d, read_msg fr = RData d) \/ read_msg fr = ROkNoData.
Proof. exact returns_nil_only. Qed.
Print Assumptions C13_returns_nil_only.

Theorem C13_data_sound : forall (fr d : bytes), read_msg fr = RData d ->
  exists fs, dec_fields fr = WFields fs /\ In (1, WLen d) fs.
Proof. exact data_sound. Qed.
Print Assumptions C13_data_sound.

(* The size limit is exact: a data frame is delivered iff its body is at most 8 MiB; beyond it
   the reader is stuck (ErrMsgTooLarge), delivering what came before and nothing after. *)
Theorem C13_limit : forall (d rest : bytes),
  data_body_len (len_of d) < 256 ^ N.of_nat len_size ->
  parse1 (frame (enc_streammsg (BData d)) ++ rest) =
  if data_frame_accepted (len_of d) then Frame (enc_streammsg (BData d)) rest else TooLarge.
Proof. exact limit_exact. Qed.
Print Assumptions C13_limit.

Theorem C13_oversized : forall (bodies : list bytes) (big tail : bytes) (cs : list bytes),
  Forall (fun b => len_of b <= max_msg) bodies ->
  max_msg < len_of big -> len_of big < 256 ^ N.of_nat len_size ->
  concat cs = frames_of bodies ++ frame big ++ tail ->
  out (feed_chunks cs) = bodies /\ dead (feed_chunks cs) = true.
Proof. exact oversized_blocks. Qed.
Print Assumptions C13_oversized.

(* Production wraps ONE libp2p stream in TWO msgio readers (newMetadataStream for the header
   exchange, then newStream for the messages).  With the explicit premise that neither reader
   object takes more bytes from the stream than the frame it returns ([exact_reads]; pinned to the
   msgio source by wiring_exact_reads: io.ReadFull on exactly 4 and exactly n bytes, no buffered
   reader), reads that alternate in ANY way between the two readers -- in particular header first,
   then messages -- return the written items in order, leave both readers and the stream empty,
   and agree with the single-reader model used above. *)
Theorem C13_two_readers : forall (aheadA aheadB : nat) (its : list item) (which : list bool),
  exact_reads aheadA aheadB -> Forall item_ok its -> length which = length its ->
  exists rs,
    pull_seq aheadA aheadB which mr_init mr_init (stream_of its) = (rs, (mr_init, mr_init, [])) /\
    Forall2 (fun it r => exists fr, r = PFrame fr /\ delivered it fr) its rs /\
    rs = map PFrame (out (feed_all (stream_of its))).
Proof. exact two_readers_roundtrip. Qed.
Print Assumptions C13_two_readers.

(* The premise is needed: a metadata reader that reads ahead swallows the frame behind the header. *)
Theorem C13_readahead_refuted :
  exists aheadA its,
    Forall item_ok its /\
    fst (pull_seq aheadA 0 [true; false] mr_init mr_init (stream_of its)) <> map (fun it => PFrame (item_body it)) its /\
    fst (pull_seq aheadA 0 [true; false] mr_init mr_init (stream_of its)) = [PFrame (x "0a050a016b1200"); PEnd].
Proof. exact two_readers_readahead_refuted. Qed.
Print Assumptions C13_readahead_refuted.

(* The same for the other case kinds: whenever the observation of a case agrees with the model's
   prediction ([agrees c = true], i.e. the case is not a mismatch) the property checker reports
   no violation.  Without further premise for sessions that are not honest round trips (hostile
   streams, mixed read kinds) and for end-to-end handler errors; for near-limit frames with the
   predicted payload equality (req = true); for writes behind a stalled peer with every frame
   within the size limit. *)
Theorem C13_checker_accepts_agreeing_dishonest :
  forall wops wseen stream pat rops rseen hdrs typed_ok,
  agrees (Session false wops wseen stream pat rops rseen hdrs typed_ok) = true ->
  violation (Session false wops wseen stream pat rops rseen hdrs typed_ok) = [].
Proof. exact checker_accepts_agreeing_dishonest. Qed.
Print Assumptions C13_checker_accepts_agreeing_dishonest.

Theorem C13_checker_accepts_agreeing_e2e : forall e o,
  agrees (E2E e o) = true -> violation (E2E e o) = [].
Proof. exact checker_accepts_agreeing_e2e. Qed.
Print Assumptions C13_checker_accepts_agreeing_e2e.

Theorem C13_checker_accepts_agreeing_big : forall n whead wlen racc rlen,
  agrees (Big n whead wlen racc rlen true) = true -> violation (Big n whead wlen racc rlen true) = [].
Proof. exact checker_accepts_agreeing_big. Qed.
Print Assumptions C13_checker_accepts_agreeing_big.

Theorem C13_checker_accepts_agreeing_stalled : forall inners calls wire,
  Forall (fun i => len_of (data_body i) <= max_msg) inners ->
  agrees (StalledWrites inners calls wire) = true -> violation (StalledWrites inners calls wire) = [].
Proof. exact checker_accepts_agreeing_stalled. Qed.
Print Assumptions C13_checker_accepts_agreeing_stalled.

(* Partial: abandoned-read cases only for inner payloads that are their own unknown-field image
   (what protobuf-go Marshal produces: minimal tags, no groups) and within the size limit.  For
   other inner payloads the checker's expectation (the written bytes) and the model's prediction
   (the normalised bytes) differ, and the implication does not hold. *)
Theorem C13_checker_accepts_agreeing_abandon_partial : forall inners reqs got,
  Forall canonical_inner inners ->
  agrees (Abandon inners reqs got) = true -> violation (Abandon inners reqs got) = [].
Proof. exact checker_accepts_agreeing_abandon. Qed.
Print Assumptions C13_checker_accepts_agreeing_abandon_partial.

(* At the level of the lists bin/check evaluates: if no case of a list is a mismatch, the list has
   no violation.  Partial: honest sessions are excluded here ([covered]); for them the statement is
   C13_checker_accepts_model, in the form the model itself produces them (an arbitrary honest
   observation would in addition need canonical inner payloads and a header oracle consistent
   with the canonical forms the driver supplies). *)
Theorem C13_violations_silent_on_agreeing_partial : forall cs : list case,
  Forall (fun c => covered (cb c)) cs -> mismatches cs = [] -> violations cs = [].
Proof. exact violations_silent_on_agreeing. Qed.
Print Assumptions C13_violations_silent_on_agreeing_partial.

(* What the CALLERS get: ReadMsg calls are served with the delivered frames in call order.  With
   the explicit premise that no call is abandoned ([no_abandon]: every read runs to completion),
   one call per written item returns the items in order and nothing is lost ... *)
Theorem C13_delivery : forall (its : list item) (cs : list bytes) (reqs : list req),
  Forall item_ok its -> concat cs = stream_of its ->
  no_abandon reqs = true -> length reqs = length its ->
  exists got, serve reqs (out (feed_chunks cs)) = (got, []) /\ Forall2 delivered its got.
Proof. exact callers_roundtrip. Qed.
Print Assumptions C13_delivery.

(* ... and without it the statement is false on the code as it is: a ReadMsg given up through
   its context before its frame arrived leaves a goroutine that takes the first message written
   ("one") into a channel nobody reads; the next ReadMsg returns the second ("two"). *)
Theorem C13_abandoned_read_loses_refuted :
  exists its cs reqs,
    Forall item_ok its /\ concat cs = stream_of its /\ length reqs = S (length (fst (serve reqs (out (feed_chunks cs))))) /\
    serve reqs (out (feed_chunks cs)) = ([item_body (IMsg (x "0a0374776f"))], [item_body (IMsg (x "0a036f6e65"))]) /\
    fst (serve reqs (out (feed_chunks cs))) <> map item_body (firstn 1 its).
Proof. exact abandoned_read_loses_refuted. Qed.
Print Assumptions C13_abandoned_read_loses_refuted.

(* Writes given up through their context have returned an error but are still written: every
   call, given up or not, reaches the reader, in the order the frames reached the stream. *)
Theorem C13_given_up_writes_still_arrive : forall (ws : list (wcall * bytes)) (cs : list bytes),
  Forall (fun w => len_of (enc_streammsg (BData (snd w))) <= max_msg) ws ->
  concat cs = concat (wire_of_calls ws) ->
  map read_msg (out (feed_chunks cs)) = map (fun w => RData (snd w)) ws.
Proof. exact given_up_writes_still_arrive. Qed.
Print Assumptions C13_given_up_writes_still_arrive.

(* The no-read-ahead premise of C13_two_readers is a fact of the msgio source the repository
   builds against (regenerated on every run). *)
Theorem C13_exact_reads_anchor :
  Generated.c13_msgio_nextlen_readlen = [[bos "s.R"; bos "s.lbuf[:]"]] /\
  Generated.c13_msgio_readlen_readfull = [[bos "r"; bos "buf"]] /\
  Generated.c13_msgio_readmsg_readfull = [[bos "s.R"; bos "msg"]] /\
  Generated.c13_msgio_reader_bufio = false /\ Generated.c13_msgio_reader_bufio_size = false.
Proof. exact wiring_exact_reads. Qed.
Print Assumptions C13_exact_reads_anchor.

(* Headers without the protobuf premise, at the level of the map framing (Values are opaque
   byte strings): a header map with distinct UTF-8 keys, marshalled in ANY entry order, written
   with WriteHeader and read under any chunking, decodes to the same key -> value map. *)
Theorem C13_header : forall (h : list hentry) (cs : list bytes),
  NoDup (map fst h) -> Forall (fun e => utf8_valid (fst e) = true) h ->
  len_of (enc_header h) <= max_msg ->
  exists f, write_header (Some (enc_header h)) = Ok f /\
    (concat cs = f ->
     map (fun fr => decode_header (read_header fr)) (out (feed_chunks cs)) = [TOk h] /\
     dead (feed_chunks cs) = false /\ rbuf (feed_chunks cs) = []).
Proof. exact header_roundtrip. Qed.
Print Assumptions C13_header.

(* The property checker of check/Check_C13.v accepts the model: an honest session in which the
   implementation does what the model says has no violation, whatever the chunk pattern. *)
Theorem C13_checker_accepts_model : forall (canon : bytes -> bytes) (its : list item) (pat : list N)
    (hdrs : list (bytes * option bytes)),
  Forall item_ok its ->
  violation (Session true (map (wop_of canon) its) (map wseen_of its) None pat
                     (map rop_of its ++ [0]) (map (robs_of canon) its ++ [OEOF]) hdrs true) = [].
Proof. exact checker_accepts_model. Qed.
Print Assumptions C13_checker_accepts_model.

(* Codec round trips underneath: varint, field lists, length prefix. *)
Theorem C13_varint_roundtrip : forall v rest, v < two64 -> varint_dec (varint_enc v ++ rest) = Some (v, rest).
Proof. exact varint_dec_enc. Qed.
Print Assumptions C13_varint_roundtrip.

Theorem C13_fields_roundtrip : forall fs, Forall wf_field fs -> dec_fields (enc_fields fs) = WFields fs.
Proof. exact dec_fields_enc. Qed.
Print Assumptions C13_fields_roundtrip.

Theorem C13_prefix_roundtrip : forall body rest,
  len_of body <= max_msg -> parse1 (frame body ++ rest) = Frame body rest.
Proof. exact parse1_frame. Qed.
Print Assumptions C13_prefix_roundtrip.

(* ---- the protobuf wire format of the protocol messages themselves (model/ProtoWire.v) ----------
   Message kinds: 0 handshake.v1.HandshakeReq, 1 HandshakeResp, 2 discovery.v1.PeerInfo,
   3 preconfirmation.v1.Bid, 4 discovery.v1.PeerList, 5 preconfirmation.v1.PreConfirmation.
   [wire_valid]: the values fit their Go types (strings valid UTF-8 as Marshal demands, int64
   fields within int64, one value of the right sort per declared field). *)

(* Unmarshal(Marshal m) = m for every valid message of every kind; the only size premise is that
   the encoding is shorter than 2^64 bytes (any Go slice is). Marshal of a valid message does not
   refuse and produces exactly [wire_enc m]. *)
Theorem C13_wire_roundtrip : forall m : wmsg,
  wire_valid m -> len_of (wire_enc m) < two64 ->
  wire_marshal m = Some (wire_enc m) /\
  wire_unmarshal (wire_kind m) (wire_enc m) = TOk m.
Proof. intros m Hv Hl. split; [exact (wire_marshal_valid m Hv)|exact (wire_roundtrip m Hv Hl)]. Qed.
Print Assumptions C13_wire_roundtrip.

(* The same with named fields for a bid. *)
Theorem C13_wire_roundtrip_bid : forall b : bid,
  bid_in_range b -> len_of (encode_bid b) < two64 -> decode_bid (encode_bid b) = TOk b.
Proof. exact decode_bid_enc. Qed.
Print Assumptions C13_wire_roundtrip_bid.

(* Decoding arbitrary bytes is bounded work: the field-list decoder consumes at least one byte per
   field, so a budget of one step per input byte is always enough - any two budgets of at least
   that size give the same result (a refusal is therefore never "ran out of budget"), and the
   number of fields decoded never exceeds the number of input bytes.  The result type of every
   decoder is [tri]: accepted, refused, or "start-group tag seen" (TUnspec, the one part of
   protobuf-go's Unmarshal the model does not follow); there is no crash outcome. *)
Theorem C13_wire_decode_bounded : forall (l : bytes) (fuel fuel' : nat),
  (length l <= fuel)%nat -> (length l <= fuel')%nat ->
  dec_fields_n fuel l = dec_fields_n fuel' l /\
  (forall fs, dec_fields l = WFields fs -> (length fs <= length l)%nat).
Proof.
  intros l fuel fuel' H1 H2. split; [exact (dec_fields_budget fuel l fuel' H1 H2)|].
  intros fs. exact (dec_fields_n_count (length l) l fs).
Qed.
Print Assumptions C13_wire_decode_bounded.

(* Whatever bytes Unmarshal accepts, the message it yields is one Marshal accepts: right shape,
   every string valid UTF-8, every int64 field within int64. *)
Theorem C13_wire_decode_sound : forall (sc : schema) (b : bytes) (m : list fval),
  decode_flat sc b = TOk m -> flat_ok sc m = true /\ Forall val_range m.
Proof. exact decode_flat_sound. Qed.
Print Assumptions C13_wire_decode_sound.

(* The Go structs of the generated code (field lists regenerated from gen/go on every run) carry,
   in declaration order, exactly the Go types of the modelled schemas; a field added, removed,
   retyped or reordered in a .pb.go file breaks this equation.  Field numbers are not visible to
   the extractor: they are tied by the wire-marshal / wire-unmarshal correspondence classes. *)
Theorem C13_wire_structs_anchor :
  field_types c13_pb_hsreq = schema_types hsreq_sc /\
  field_types c13_pb_hsresp = schema_types hsresp_sc /\
  field_types c13_pb_peerinfo = schema_types peerinfo_sc /\
  field_types c13_pb_bid = schema_types bid_sc /\
  field_types c13_pb_peerlist = [bos "[]*PeerInfo"] /\
  field_types c13_pb_preconf = bos "*Bid" :: schema_types preconf_rest_sc.
Proof. exact pb_structs_match_schemas. Qed.
Print Assumptions C13_wire_structs_anchor.

(* C13_roundtrip with the premise Unmarshal(Marshal x) = x discharged: a stream carrying valid
   protocol messages of kind k, headers with distinct UTF-8 keys and non-OK status errors, under
   any chunking, is read back as exactly that sequence - with the modelled protobuf codecs in the
   place of the opaque marshal/unmarshal functions. *)
Theorem C13_roundtrip_concrete : forall (k : N) (ts : list (titem wmsg (list hentry))) (cs : list bytes),
  Forall (titem_ok wmsg (list hentry) wire_enc enc_header) ts ->
  Forall (titem_valid wmsg (list hentry) (wire_of_kind k) header_valid) ts ->
  concat cs = stream_of (map (lower wmsg (list hentry) wire_enc enc_header) ts) ->
  let s := feed_chunks cs in
  dead s = false /\ rbuf s = [] /\
  Forall2 (tdelivered wmsg (list hentry) (wire_unmarshal_opt k) hdr_unmarshal) ts (out s).
Proof. exact roundtrip_concrete. Qed.
Print Assumptions C13_roundtrip_concrete.

Theorem C13_roundtrip_concrete_bid : forall (ts : list (titem bid (list hentry))) (cs : list bytes),
  Forall (titem_ok bid (list hentry) encode_bid enc_header) ts ->
  Forall (titem_valid bid (list hentry) bid_in_range header_valid) ts ->
  concat cs = stream_of (map (lower bid (list hentry) encode_bid enc_header) ts) ->
  let s := feed_chunks cs in
  dead s = false /\ rbuf s = [] /\
  Forall2 (tdelivered bid (list hentry) bid_unmarshal hdr_unmarshal) ts (out s).
Proof. exact roundtrip_concrete_bid. Qed.
Print Assumptions C13_roundtrip_concrete_bid.

Theorem C13_roundtrip_concrete_handshake_req : forall (ts : list (titem hsreq (list hentry))) (cs : list bytes),
  Forall (titem_ok hsreq (list hentry) encode_hsreq enc_header) ts ->
  Forall (titem_valid hsreq (list hentry) hsreq_in_range header_valid) ts ->
  concat cs = stream_of (map (lower hsreq (list hentry) encode_hsreq enc_header) ts) ->
  let s := feed_chunks cs in
  dead s = false /\ rbuf s = [] /\
  Forall2 (tdelivered hsreq (list hentry) hsreq_unmarshal hdr_unmarshal) ts (out s).
Proof. exact roundtrip_concrete_hsreq. Qed.
Print Assumptions C13_roundtrip_concrete_handshake_req.

Theorem C13_roundtrip_concrete_handshake_resp : forall (ts : list (titem hsresp (list hentry))) (cs : list bytes),
  Forall (titem_ok hsresp (list hentry) encode_hsresp enc_header) ts ->
  Forall (titem_valid hsresp (list hentry) hsresp_in_range header_valid) ts ->
  concat cs = stream_of (map (lower hsresp (list hentry) encode_hsresp enc_header) ts) ->
  let s := feed_chunks cs in
  dead s = false /\ rbuf s = [] /\
  Forall2 (tdelivered hsresp (list hentry) hsresp_unmarshal hdr_unmarshal) ts (out s).
Proof. exact roundtrip_concrete_hsresp. Qed.
Print Assumptions C13_roundtrip_concrete_handshake_resp.

(* The wire clauses of the checker accept the model: for every valid message the case the model
   itself produces (marshal class) agrees with the model and trips no clause, and so does the
   unmarshal class on ARBITRARY bytes.  And any marshal-class observation that agrees with the
   model, with the real Unmarshal giving the message back, is reported clean - the half of the
   clause that reads the implementation's bytes with the wire format as specified follows from
   C13_wire_roundtrip. *)
Theorem C13_checker_accepts_model_wire : forall m : wmsg,
  wire_valid m -> len_of (wire_enc m) < two64 ->
  let c := WireEnc m (wire_marshal m) (Some m) in
  agrees c = true /\ violation c = [] /\
  forall k l, agrees (WireDec k l (opt_of (wire_unmarshal k l))) = true /\
              violation (WireDec k l (opt_of (wire_unmarshal k l))) = [].
Proof. exact checker_accepts_model_wire. Qed.
Print Assumptions C13_checker_accepts_model_wire.

Theorem C13_checker_accepts_agreeing_wire_enc : forall (m : wmsg) (got : option bytes),
  wire_valid m -> len_of (wire_enc m) < two64 ->
  agrees (WireEnc m got (Some m)) = true -> violation (WireEnc m got (Some m)) = [].
Proof. exact checker_accepts_agreeing_wire_enc. Qed.
Print Assumptions C13_checker_accepts_agreeing_wire_enc.

(* Outside these theorems (observed by the correspondence only): that protobuf-go's Marshal /
   Unmarshal of the six protocol message kinds IS model/ProtoWire.v (driver classes wire-marshal and
   wire-unmarshal), its Marshal / Unmarshal of any other inner message type and the entry order
   of Header maps (premises of C13_roundtrip), skipping of
   group-typed unknown fields (RUnspec), reads abandoned through context cancellation (the
   pending goroutine swallows the next frame), writes abandoned through context cancellation
   (WriteMsg may return ctx.Err() although the frame is still written), Unmarshal of the Values
   inside a header, and the residual state of a msgio reader after a transport error. *)
