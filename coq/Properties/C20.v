(* C20 -- A peer is usable as soon as connecting to it has succeeded.
   Statements only; every proof is [exact <lemma>].

   Vocabulary (model/ConnectRace.v): a world is the joint state of one initiator (Connect /
   Handshake / NewStream), the responder's handshake handler (handleConnectReq / Handle) and one
   stream wrapper per stream the initiator opened.  [run deployed c sched] is the world reached
   from the start under the schedule [sched] -- an arbitrary list of actor steps, where steps
   that are not enabled (reading from an empty channel) do nothing, so the quantifier "for all
   sched" ranges over every interleaving and every relative speed of the nodes, in particular
   every delay of the responder between reading the last handshake message and registering the
   peer, and every moment at which streams are opened.  [deployed] is the version of the
   responder read off /repo on every run (gen/Generated.v).  [returned w = Some id]: Connect
   reported success (with peer [id]) to the initiating node.  A wrapper ends as [WHandled j]
   (handler called with peer identity j), [WUnknown] (reset as coming from an unknown peer) or
   [WTorn] (could not be opened because the responder closed the connection). *)
From Coq Require Import List NArith Bool Arith.
From MevVerif Require Import lib.Bytes gen.Generated model.ConnectRace proofs.ConnectRace_proofs
  proofs.ConnectRace_progress.
Import ListNotations.
Open Scope N_scope.

(* For every schedule: once Connect has reported success, what it returned is the responder's
   proven identity, and NO stream the initiator has opened is reset as unknown or torn down;
   every stream that has reached a handler reached it with the initiator's proven identity
   (the address bound to its peer id, which its signature recovers to, and the type it sent).
   Premise: the responder's KeySigner.GetAddress is the address of its own network identity
   (both key signers of the repository derive the two from one key); see
   C20_refusing_responder for what happens otherwise. *)
Theorem C20_usable : forall (c : cfg) (sched : list who) (id : ident),
  ks_addr (rsp c) = pid_addr (rsp c) ->
  returned (run deployed c sched) = Some id ->
  id = (pid_addr (rsp c), ptype (rsp c)) /\
  Forall (fun s => s <> WUnknown /\ s <> WTorn /\
                   forall j, s = WHandled j ->
                             j = (pid_addr (ini c), ptype (ini c)) /\
                             sig_addr (ini c) = Some (pid_addr (ini c)))
         (wr (run deployed c sched)).
Proof. exact C20_usable_stmt. Qed.
Print Assumptions C20_usable.

(* The invariant behind it: after Connect returned, the responder either still records the
   inbound handshake as in progress (so wrappers wait) or has registered the initiator with
   its proven identity. *)
Theorem C20_inflight_or_registered : forall (c : cfg) (sched : list who) (id : ident),
  self_consistent (rsp c) ->
  returned (run deployed c sched) = Some id ->
  (inflight (run deployed c sched) = 1%nat /\ registered (run deployed c sched) = None) \/
  (registered (run deployed c sched) = Some (proven_ident (ini c)) /\
   sig_addr (ini c) = Some (pid_addr (ini c))).
Proof. exact inflight_or_registered_deployed. Qed.
Print Assumptions C20_inflight_or_registered.

(* Accepted, not merely "not refused": whatever happened so far, once the responder has taken
   its (at most five) remaining steps and the wrapper of the k-th stream its (at most three),
   that stream is with the handler, under the initiator's proven identity ... *)
Theorem C20_handled_eventually : forall (c : cfg) (sched : list who) (k : nat),
  self_consistent (rsp c) ->
  (k < length (wr (run deployed c sched)))%nat ->
  nth_error (wr (run deployed c (sched ++ repeat R 5 ++ [W k; W k; W k]))) k =
  Some (WHandled (proven_ident (ini c))).
Proof. exact handled_eventually_deployed. Qed.
Print Assumptions C20_handled_eventually.

(* ... and nothing that happens afterwards takes it away again. *)
Theorem C20_handled_stable : forall (c : cfg) (sched ext : list who) (k : nat) (j : ident),
  nth_error (wr (run deployed c sched)) k = Some (WHandled j) ->
  nth_error (wr (run deployed c (sched ++ ext))) k = Some (WHandled j).
Proof. exact handled_stable_deployed. Qed.
Print Assumptions C20_handled_stable.

(* Any number of initiators handshaking with one responder under any system schedule (the
   responder's records are per remote peer): the same guarantee for each of them. *)
Theorem C20_usable_many : forall (cs : list cfg) (sched : list (nat * who)),
  Forall (fun cw : cfg * world =>
            let (c, w) := cw in
            ks_addr (rsp c) = pid_addr (rsp c) ->
            forall id, returned w = Some id ->
              Forall (fun s => s <> WUnknown /\ s <> WTorn /\
                               forall j, s = WHandled j ->
                                         j = (pid_addr (ini c), ptype (ini c)) /\
                                         sig_addr (ini c) = Some (pid_addr (ini c)))
                     (wr w))
         (sys_run deployed cs sched).
Proof. exact C20_usable_many_stmt. Qed.
Print Assumptions C20_usable_many.

(* Schedules also contain the environment event [ConnCloseOther]: another connection between
   the same two peer ids is closed at the responder (a stale connection of the initiator's
   previous incarnation, the spare of a mutual dial).  All theorems above quantify over
   schedules with this event interleaved anywhere; it changes nothing -- in particular not the
   record of the handshake in progress -- so it can be erased from any schedule. *)
Theorem C20_other_connection_closing_inert : forall (c : cfg) (s1 s2 : list who),
  run deployed c (s1 ++ ConnCloseOther :: s2) = run deployed c (s1 ++ s2).
Proof. exact (conn_close_other_inert deployed). Qed.
Print Assumptions C20_other_connection_closing_inert.

(* The record of inbound handshakes in progress is a bracket around BOTH outcomes of the
   responder's handshake handler: once the handler has finished -- accepted or refused, under any
   schedule -- no record is left, and a refusing handler leaves no registry entry. *)
Theorem C20_refused_handshake_leaves_no_marker : forall (c : cfg) (sched : list who),
  rpc (run deployed c sched) = RDone ->
  inflight (run deployed c sched) = 0%nat /\
  (r_closed (run deployed c sched) = true -> registered (run deployed c sched) = None).
Proof. exact C20_no_marker_stmt. Qed.
Print Assumptions C20_refused_handshake_leaves_no_marker.

(* Hence the guarantee survives earlier attempts.  Let any earlier handshake between the same two
   peer ids -- any node descriptions c1 (e.g. an initiating node whose registry refused the
   responder), any schedule s1, any outcome -- have run to the end of the responder's handler; a new
   attempt starts on a new connection ([next_attempt]: per-attempt state fresh, the responder's
   per-peer-id state kept), and the registry entry the old connection may have carried is gone
   ([forget_registration]: after a refused attempt there is none; after an accepted one this is
   the moment the old connection's close has been processed, before any stream of the new attempt
   is looked up).  Then for every schedule s2 of the new attempt: no stream is refused, handled
   streams carry the proven identity, and every opened stream is handled once the responder and
   its wrapper have run. *)
Theorem C20_usable_after_earlier_attempt : forall (c1 c2 : cfg) (s1 s2 : list who) (id : ident),
  rpc (run deployed c1 s1) = RDone ->
  ks_addr (rsp c2) = pid_addr (rsp c2) ->
  let w0 := forget_registration (next_attempt (run deployed c1 s1)) in
  returned (run_from deployed c2 w0 s2) = Some id ->
  id = (pid_addr (rsp c2), ptype (rsp c2)) /\
  Forall (fun s => s <> WUnknown /\ s <> WTorn /\
                   forall j, s = WHandled j ->
                             j = (pid_addr (ini c2), ptype (ini c2)) /\
                             sig_addr (ini c2) = Some (pid_addr (ini c2)))
         (wr (run_from deployed c2 w0 s2)) /\
  forall k, (k < length (wr (run_from deployed c2 w0 s2)))%nat ->
    nth_error (wr (run_from deployed c2 w0 (s2 ++ repeat R 5 ++ [W k; W k; W k]))) k =
    Some (WHandled (pid_addr (ini c2), ptype (ini c2))).
Proof. exact C20_after_earlier_attempt_stmt. Qed.
Print Assumptions C20_usable_after_earlier_attempt.
(* Not covered: attempts that overlap in time (the earlier handler still running when the next
   handshake starts) and stream lookups that still see the old connection's registry entry; the
   registry's connection bookkeeping is the subject of C14 (model/PeerRegistry.v). *)

(* MUTUAL DIAL.  A connect operation can also succeed WITHOUT a handshake of its own: when
   B = [ini c] has dialled A = [rsp c] and A's handler has registered B, A's Connect(B) reports
   success through the isConnected shortcut; the streams A then opens are answered by B -- the
   handshake INITIATOR -- whose registry entry for A is written only after its Handshake call
   returned.  [mrun ob c sched]: the world of model/ConnectRace.v (section "mutual dial") under an
   arbitrary schedule of B's Connect (begin / handshake steps / addPeer / return), A's handler,
   A's Connect (shortcut), A's stream opens and B's wrappers; [ob_deployed]: whether Connect
   brackets its outbound handshake with beginHandshake (read off the source).  For every
   schedule: what A's Connect returned is B's proven identity, no stream A opened is reset as
   unknown, and what reached B's handlers carries A's proven identity.  No premise is needed: A
   has registered B only after B's final message passed A's check. *)
Theorem C20_usable_mutual_dial : forall (c : cfg) (sched : list mwho) (id : ident),
  a_ret (mrun ob_deployed c sched) = Some id ->
  (id = (pid_addr (ini c), ptype (ini c)) /\ sig_addr (ini c) = Some (pid_addr (ini c))) /\
  Forall (fun s => s <> WUnknown /\ s <> WTorn /\
                   forall j, s = WHandled j ->
                             j = (pid_addr (rsp c), ptype (rsp c)) /\
                             sig_addr (rsp c) = Some (pid_addr (rsp c)))
         (bw (mrun ob_deployed c sched)).
Proof. exact C20_mutual_stmt. Qed.
Print Assumptions C20_usable_mutual_dial.

(* ... and every such stream is with B's handler once B has taken its two remaining steps
   (addPeer, return) and the stream's wrapper its three. *)
Theorem C20_mutual_dial_handled_eventually : forall (c : cfg) (sched : list mwho) (k : nat),
  (k < length (bw (mrun ob_deployed c sched)))%nat ->
  nth_error (bw (mrun ob_deployed c (sched ++ [MB; MB] ++ [MBW k; MBW k; MBW k]))) k =
  Some (WHandled (pid_addr (rsp c), ptype (rsp c))).
Proof. exact C20_mutual_eventually_stmt. Qed.
Print Assumptions C20_mutual_dial_handled_eventually.

(* Without the bracket around the outbound handshake (only inbound handshakes on record, the
   code before commit "accept streams from a peer while our own outbound handshake with it
   completes"): two well-formed nodes and a schedule under which A's Connect succeeded, B does
   register A two steps later, and A's stream was nevertheless reset as coming from an unknown
   peer. *)
Theorem C20_usable_mutual_dial_v1_refuted :
  exists (c : cfg) (sched : list mwho) (id : ident),
    (sig_addr (ini c) = Some (pid_addr (ini c)) /\ ks_addr (ini c) = pid_addr (ini c)) /\
    (sig_addr (rsp c) = Some (pid_addr (rsp c)) /\ ks_addr (rsp c) = pid_addr (rsp c)) /\
    a_ret (mrun false c sched) = Some id /\
    b_reg (mrun false c (sched ++ [MB; MB])) = Some (pid_addr (rsp c), ptype (rsp c)) /\
    nth_error (bw (mrun false c sched)) 0 = Some WUnknown.
Proof. exact C20_mutual_v1_refuted_stmt. Qed.
Print Assumptions C20_usable_mutual_dial_v1_refuted.
(* A dialling B with a handshake of its own at the same time: see C20_usable_cross_dial.  Streams opened from notifier.Connected callbacks take the same path as
   MC/MO here (they need A's registry entry for B, which is what [a_ret] stands for). *)

(* CROSS DIAL.  Both nodes call Connect at the same time: two handshakes in opposite directions,
   each node with one registry entry and one record of handshakes in progress for the other, fed
   by its inbound handler and by its own Connect; a Connect that finds the other node already
   registered returns through the shortcut.  [xrun a b sched]: model/ConnectRace.v, section
   "cross dial", under an arbitrary interleaving of the two Connects (XD1, XD2), the two handlers
   (XR1, XR2), A's stream opens (XO) and B's wrappers (XW k).  Once A's Connect(B) has reported
   success -- either way -- it named B's proven identity, no stream A opened is reset by B as
   coming from an unknown peer, and what reached B's handlers carries A's proven identity.  The
   statement for the streams B opens is this one with a and b exchanged (wrappers only observe).
   Premise as in C20_usable.  Simplifications: the isConnected test and beginHandshake of a dialling
   Connect are one step; the model is the current code (both brackets); progress and the absence of deadlock in this
   world: C20_cross_dial_progress, C20_cross_dial_no_deadlock below. *)
Theorem C20_usable_cross_dial : forall (a b : node) (sched : list xwho) (id : ident),
  ks_addr b = pid_addr b ->
  ret1 (xrun a b sched) = Some id ->
  (id = (pid_addr b, ptype b) /\ sig_addr b = Some (pid_addr b)) /\
  Forall (fun s => s <> WUnknown /\ s <> WTorn /\
                   forall j, s = WHandled j ->
                             j = (pid_addr a, ptype a) /\ sig_addr a = Some (pid_addr a))
         (sA (xrun a b sched)).
Proof. exact C20_cross_stmt. Qed.
Print Assumptions C20_usable_cross_dial.

(* PROGRESS of the cross dial.  [xcan x e]: actor e is enabled in x -- a Connect or a handler
   that is not waiting for a message that has not been sent and has not returned, a wrapper that
   has not ended and is not waiting for a handshake on record.  C20_cross_dial_enabled: this is
   the enabledness of the step function (an enabled step changes the state, any other step
   changes nothing but the two wrapper lists of the base worlds, which the cross world does not use).
   [xfair n sched]: sched begins with n rounds, a round being any stretch in which XD1, XD2, XR1
   and XR2 each occur at least once (with anything in between); what follows the rounds is
   arbitrary.  [x_rounds] = 40.  [wsteps k t]: number of occurrences of XW k in t.
   For every schedule that begins with 40 rounds, both Connects have returned (shortcut, success
   or error) and both handlers have finished, and this remains so under every continuation t;
   every stream A has opened by the end of sched -- streams opened arbitrarily late included, since
   sched may go on arbitrarily after its rounds -- is handled by B with A's proven identity as soon
   as its wrapper has been scheduled three times.  No premise on the nodes but the one of
   C20_usable; the bound holds whether the handshakes succeed or fail. *)
Theorem C20_cross_dial_progress :
  forall (a b : node) (sched t : list xwho) (k : nat) (s : wstate),
  ks_addr b = pid_addr b ->
  xfair x_rounds sched ->
  nth_error (sA (xrun a b sched)) k = Some s ->
  (3 <= wsteps k t)%nat ->
  xfinal (xrun a b sched) /\ xfinal (xrun a b (sched ++ t)) /\
  nth_error (sA (xrun a b (sched ++ t))) k = Some (WHandled (pid_addr a, ptype a)).
Proof. exact cross_progress. Qed.
Print Assumptions C20_cross_dial_progress.

(* the handshake half without any premise on the nodes *)
Theorem C20_cross_dial_connects_return : forall (a b : node) (sched : list xwho),
  xfair x_rounds sched -> xfinal (xrun a b sched).
Proof. exact cross_handshakes_finish. Qed.
Print Assumptions C20_cross_dial_connects_return.

(* ... and with success when both nodes are well formed (the signature in a node's request binds
   its peer id, its key signer reports the address of its network identity, and a provider is
   staked at the other node's registry): after 40 rounds each Connect -- through its own handshake
   or through the shortcut -- has returned the other node's proven identity.  [ret2] is [ret1] for
   B's Connect(A).  Without the staking premise Connect fails (non-vacuity example beside the lemma). *)
Theorem C20_cross_dial_connects_succeed : forall (a b : node) (sched : list xwho),
  (sig_addr a = Some (pid_addr a) /\ ks_addr a = pid_addr a /\ (ptype a = t_provider -> staked a = true)) ->
  (sig_addr b = Some (pid_addr b) /\ ks_addr b = pid_addr b /\ (ptype b = t_provider -> staked b = true)) ->
  xfair x_rounds sched ->
  ret1 (xrun a b sched) = Some (pid_addr b, ptype b) /\
  ret2 (xrun a b sched) = Some (pid_addr a, ptype a).
Proof. exact cross_connects_succeed. Qed.
Print Assumptions C20_cross_dial_connects_succeed.

(* fairness in its usual form is enough for the bound: an enabled Connect or handler stays enabled
   under the steps of all other actors until it is scheduled itself, and while a handshake is
   unfinished one of the four is enabled *)
Theorem C20_cross_dial_enabled_persists : forall (a b : node) (x : xworld) (e e' : xwho),
  (e = XD1 \/ e = XD2 \/ e = XR1 \/ e = XR2) -> e' <> e ->
  xcan x e = true -> xcan (xstep a b x e') e = true.
Proof. exact xcan_persist. Qed.
Print Assumptions C20_cross_dial_enabled_persists.

(* NO DEADLOCK.  A reachable state in which no Connect, no handler and no wrapper is enabled (the
   application may still open streams: XO) is a final state: both Connects have returned, both
   handlers have finished, every stream A opened has reached its end, and under the premise of
   C20_usable that end is a handler call with A's proven identity. *)
Theorem C20_cross_dial_no_deadlock : forall (a b : node) (sched : list xwho),
  (forall e, e <> XO -> xcan (xrun a b sched) e = false) ->
  xfinal (xrun a b sched) /\
  Forall (fun s => wfinal s = true) (sA (xrun a b sched)) /\
  (ks_addr b = pid_addr b ->
   Forall (fun s => s = WHandled (pid_addr a, ptype a)) (sA (xrun a b sched))).
Proof. exact cross_no_deadlock. Qed.
Print Assumptions C20_cross_dial_no_deadlock.

Theorem C20_cross_dial_enabled : forall (a b : node) (x : xworld) (e : xwho),
  e <> XO ->
  (xcan x e = true -> xstep a b x e <> x) /\
  (xcan x e = false -> xerase (xstep a b x e) = xerase x).
Proof. exact xcan_is_step. Qed.
Print Assumptions C20_cross_dial_enabled.

(* The wrapper as it was before the repair (no record of handshakes in progress, no waiting):
   two well-formed nodes and a schedule -- final write, return, open, lookup, then register --
   under which Connect succeeded, the responder does register the initiator, and the stream
   was nevertheless reset as coming from an unknown peer. *)
Theorem C20_usable_v0_refuted :
  exists (c : cfg) (sched : list who) (id : ident),
    (sig_addr (ini c) = Some (pid_addr (ini c)) /\ ks_addr (ini c) = pid_addr (ini c)) /\
    (sig_addr (rsp c) = Some (pid_addr (rsp c)) /\ ks_addr (rsp c) = pid_addr (rsp c)) /\
    returned (run V0 c sched) = Some id /\
    registered (run V0 c sched) = Some (pid_addr (ini c), ptype (ini c)) /\
    nth_error (wr (run V0 c sched)) 0 = Some WUnknown.
Proof. exact C20_v0_refuted_stmt. Qed.
Print Assumptions C20_usable_v0_refuted.

(* The boundary of C20_usable.  Connect reports success after the initiator has written its
   final message, i.e. before the responder has checked it.  The only check left (the echoed
   address against the responder's own KeySigner.GetAddress) fails exactly when the responder is
   misconfigured against its own identity; then, for every schedule, the responder never
   registers the initiator and no stream is ever handled, although Connect succeeded. *)
Theorem C20_refusing_responder : forall (c : cfg) (sched : list who) (id : ident),
  ks_addr (rsp c) <> pid_addr (rsp c) ->
  returned (run deployed c sched) = Some id ->
  registered (run deployed c sched) = None /\
  Forall (fun s => forall j, s <> WHandled j) (wr (run deployed c sched)).
Proof. exact C20_refusing_responder_stmt. Qed.
Print Assumptions C20_refusing_responder.

(* [RRegister] always registers: peerRegistry.addPeer refuses (answers "exists") when the connection
   has already closed, and then nobody is registered -- that is the transport-failure case named
   below; on a closed connection the streams are gone anyway. *)
(* Outside these theorems (see harness/props/C20.json): libp2p's stream negotiation, TCP and the
   Go scheduler; transport failures and context cancellation in the middle of a handshake; more
   than one handshake between the same two nodes. *)

(* ---- composition with C04 and C14 (proofs/Compose_race.v) -----------------------------------------------------
   model/ConnectRace.v carries its own model of handshake.go's verifyReq / verifyResp over abstract nodes
   (addresses and peer types are numbers), next to model/Handshake.v (byte strings, oracle answers).
   [Compose_race.represents enc tcode o role token sig n]: the Handshake-level answers for one request (o: signer,
   address of the peer id, provider registry; role, token, sig) describe the race model's node n -- enc numbers
   addresses injectively, tcode numbers role strings.
   Non-vacuity: Compose_race.ex_registered, ex_system_history. *)
From MevVerif Require Import lib.Bytes.
From MevVerif Require model.Handshake proofs.Compose_race.

(* The two models of verifyReq agree on every request: the race model accepts with identity id exactly when the
   C04 model's verifyReq returns an address A with id = (enc A, tcode role). *)
Theorem C20_verify_req_models_agree :
  forall (enc : bytes -> N), (forall x y, enc x = enc y -> x = y) ->
  forall (tcode : bytes -> N) o role token sig n,
  Compose_race.represents enc tcode o role token sig n ->
  forall id,
    verify_req n (req_of n) = Some id <->
    exists A, fst (Handshake.verify_req o role token sig) = inl A /\ id = (enc A, tcode role).
Proof. exact Compose_race.verify_req_models_agree. Qed.
Print Assumptions C20_verify_req_models_agree.

(* C20 o C04.  Under every schedule, an identity the responder has registered for the initiator is the initiator's
   proven identity, and C04's admissibility predicate [proves] holds of it: the signature over role ++ token
   verified and recovered A, A is the address of the authenticated transport identity, and a provider was
   confirmed by the registry. *)
Theorem C20_registered_is_admissible :
  forall (enc : bytes -> N), (forall x y, enc x = enc y -> x = y) ->
  forall (tcode : bytes -> N) c sched id o role token sig,
  Compose_race.represents enc tcode o role token sig (ini c) ->
  registered (run deployed c sched) = Some id ->
  id = proven_ident (ini c) /\
  exists A, Handshake.proves o role token sig A /\ id = (enc A, tcode role).
Proof. exact Compose_race.registered_is_admissible. Qed.
Print Assumptions C20_registered_is_admissible.
