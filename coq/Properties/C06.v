(* C06 -- Hostile peer input never crashes the node.  Statements only; every proof is [exact <lemma>].

   Two layers.
   (1) Over the subsystem models that carry an explicit Panic outcome -- model/Signer.v (eipVerify,
       VerifyBid, VerifyPreConfirmation, ConstructPreConfirmation), model/PreconfBidder.v (SendBid and
       its per-provider goroutines), model/BidderApi.v (the loop that maps surfaced commitments to API
       messages) -- the theorems quantify over every message value (every field absent / of any
       length / any text), every hash function K and every crypto oracle that does not itself panic.
   (2) Over the entry classification model/NoPanic.v, which covers every peer-facing entry point
       (also those whose models have no Panic outcome at all: handshake Handle / Handshake and their
       callers in libp2p.go, discovery's handlePeersList, ReadMsg / ReadHeader, Connect on gossiped
       underlays): [entry_input] describes what a remote peer can deliver, [panics i] the condition
       under which the Go code as it is now panics on i, [panics_gen f] the same with some of the
       three repairs (c3de1fc, c47eaee, 1f15f90) removed.  The classification is what the drivers
       compare the real entry points against on every run (check/Check_C06.v).

   Premises, all explicit: [recover_total cr] = crypto.SigToPub returns an error instead of
   panicking; [sign_wellformed cr] = the node's own key signer answers with an error or 65 bytes;
   [real_verify K cr o] = the signer oracle of the SendBid model is the Signer model's verifier. *)
From Coq Require Import String List NArith ZArith Bool.
From MevVerif Require Import lib.Bytes model.NoPanic model.Eip712 model.Signer proofs.NoPanic_proofs.
From MevVerif Require model.PreconfBidder model.BidderApi.
Import ListNotations.
Open Scope N_scope.

(* ---- (1) the models with Panic outcomes ------------------------------------------------------------ *)

(* VerifyBid: no Bid value -- digest / signature absent, empty, short, long, any amount text, any
   numbers -- makes it panic. *)
Theorem C06_no_panic_verify_bid : forall K cr (b : bid),
  recover_total cr -> verify_bid K cr b <> Panic.
Proof. exact signer_verify_bid_no_panic. Qed.
Print Assumptions C06_no_panic_verify_bid.

(* VerifyPreConfirmation: the same for commitments, including those without an embedded bid. *)
Theorem C06_no_panic_verify_preconf : forall K cr (c : preconf),
  recover_total cr -> verify_preconf K cr c <> Panic.
Proof. exact signer_verify_preconf_no_panic. Qed.
Print Assumptions C06_no_panic_verify_preconf.

(* ConstructPreConfirmation on the bid handleBid decoded (a value, never a nil pointer). *)
Theorem C06_no_panic_construct_preconf : forall K cr (b : bid),
  recover_total cr -> sign_wellformed cr -> construct_preconf K cr (Some b) <> Panic.
Proof. exact signer_construct_preconf_no_panic. Qed.
Print Assumptions C06_no_panic_construct_preconf.

(* handleBid parses the amount again after VerifyBid accepted the bid and hands the result to
   StoreCommitment, which dereferences it: the parse cannot fail there.
   _partial: stated over the Signer / Eip712 models only; the handler machine model/PreconfProvider.v
   (its RPanic outcome is exactly "amount does not parse after the verify gate said yes", with the
   gate an oracle) was still being edited by its owner when this file was written, so the theorem does
   not mention it.  The handler as a whole is covered by layer (2) and by the handle-bid driver. *)
Theorem C06_handle_bid_amount_parses_partial : forall K cr (b : bid) a,
  verify_bid K cr b = Ok a ->
  exists z, parse_amount (b_amt b) = Some z /\ amount_out_of_range z = false.
Proof. exact verified_amount_parses. Qed.
Print Assumptions C06_handle_bid_amount_parses_partial.

(* Before c3de1fc / c47eaee the verifier did panic: a 3-byte signature behind a matching digest,
   and a commitment without a bid.  The same messages are refused with an error now. *)
Theorem C06_verify_bid_v0_refuted :
  exists K cr b, recover_total cr /\ verify_bid_v0 K cr b = Panic /\ verify_bid K cr b = Err E_SIG.
Proof. exact signer_verify_bid_v0_refuted. Qed.
Print Assumptions C06_verify_bid_v0_refuted.

Theorem C06_verify_preconf_v0_refuted :
  exists K cr c, recover_total cr /\ verify_preconf_v0 K cr c = Panic /\ verify_preconf K cr c = Err E_MISSING.
Proof. exact signer_verify_preconf_v0_refuted. Qed.
Print Assumptions C06_verify_preconf_v0_refuted.

(* SendBid: whatever the providers answer (any number of them, any reply script: refusals, errors,
   silence, any decodable commitment), none of the call's goroutines panics. *)
Theorem C06_no_panic_send_bid_replies : forall K cr o a view D,
  recover_total cr -> real_verify K cr o -> PreconfBidder.construct o a <> Panic ->
  PreconfBidder.send_bid o a view D <> PreconfBidder.SPanic.
Proof. exact send_bid_replies_no_panic. Qed.
Print Assumptions C06_no_panic_send_bid_replies.

(* The bidder API loop (b := resp.Bid; ... b.TxHash ...) on the channel SendBid returns: every
   element carries its bid, so the loop never dereferences nil -- for every signer oracle, every
   reply script, every position at which the client stream fails. *)
Theorem C06_no_panic_bidder_api : forall o a view D r fail_at,
  PreconfBidder.send_bid o a view D = PreconfBidder.SRun r ->
  fst (BidderApi.stream_loop (api_channel r) fail_at) <> BidderApi.RPanic.
Proof. exact bidder_api_no_panic. Qed.
Print Assumptions C06_no_panic_bidder_api.

(* ---- (2) every entry point, over the classification -------------------------------------------------- *)

(* No input to any peer-facing entry makes the code as it is now panic: hostile Bid /
   PreConfirmation values at VerifyBid, VerifyPreConfirmation, ConstructPreConfirmation, handleBid,
   SendBid's reply path and the API loop behind it; any signature length at signer.Verify; any
   script of requests / responses / read and write failures at Handle and Handshake; any PeerList;
   every frame class at ReadMsg / ReadHeader; raw bytes at proto.Unmarshal; garbage underlays at
   Connect; and a hostile handshake partner of a Service with or without a metrics registry. *)
Theorem C06_no_panic_any_entry : forall i : entry_input, panics i = false.
Proof. exact panics_never. Qed.
Print Assumptions C06_no_panic_any_entry.

(* Exactly where the snapshot's VerifyBid panicked: digest and signature present, the amount
   parses, the digest matches, and the signature has at most 64 bytes -- nowhere else. *)
Theorem C06_verify_bid_v0_panics_iff : forall f b, f_siglen f = false ->
  (verify_bid_in f b = VPanic <->
   exists d n, bi_dig b = Some d /\ bi_sig b = Some n /\ bi_amt_ok b = true /\
               bi_hash_ok b = true /\ n <= 64).
Proof. exact verify_bid_in_v0_iff. Qed.
Print Assumptions C06_verify_bid_v0_panics_iff.

(* Without 1f15f90 every failed handshake, inbound or outbound, crashed a Service that was created
   without a metrics registry. *)
Theorem C06_handshake_failure_v0_refuted :
  panics_gen without_metrics (EE2EInbound false E2ForeignSig) = true /\
  panics_gen without_metrics (EE2EOutbound false E2Garbage) = true.
Proof. exact e2e_v0_refuted. Qed.
Print Assumptions C06_handshake_failure_v0_refuted.
