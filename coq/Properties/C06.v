(* C06 -- Hostile peer input never crashes the node.  Statements only; every proof is [exact <lemma>].

   Vocabulary (model/NoPanic.v): [entry_input] describes, for every peer-facing entry point, what a
   remote peer can deliver (decoded messages with every field optional and of any length, frame
   classes, read/write failures at any position); [panics i] is the condition under which the Go
   code as it is now panics on i; [panics_gen f] the same with some of the three repairs
   (c3de1fc, c47eaee, 1f15f90) removed. *)
From Coq Require Import String List NArith ZArith Bool.
From MevVerif Require Import lib.Bytes model.NoPanic proofs.NoPanic_proofs.
Import ListNotations.
Open Scope N_scope.

(* Over the entry classification: no input to any entry makes the current code panic. *)
Theorem C06_no_panic_any_entry : forall i : entry_input, panics i = false.
Proof. exact panics_never. Qed.
Print Assumptions C06_no_panic_any_entry.
