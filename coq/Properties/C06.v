(* C06 -- Hostile peer input never crashes the node.  Statements only; every proof is [exact <lemma>].

   Two layers.
   (1) Over the subsystem models that carry an explicit Panic outcome -- model/Signer.v (eipVerify,
       VerifyBid, VerifyPreConfirmation, ConstructPreConfirmation), model/PreconfBidder.v (SendBid and
       its per-provider goroutines), model/BidderApi.v (the loop that maps surfaced commitments to API
       messages) -- the theorems quantify over every message value (every field absent / of any
       length / any text), every hash function K and every crypto oracle that does not itself panic.
   (2) Over the entry classification model/NoPanic.v, which covers every peer-facing entry point
       (also those whose models have no Panic outcome at all: handshake Handle / Handshake and their
       callers in libp2p.go, discovery's handlePeersList, ReadMsg / ReadHeader, Connect on gossiped
       underlays): [entry_input] describes what a remote peer can deliver, [panics i] the condition
       under which the Go code as it is now panics on i, [panics_gen f] the same with some of the
       three repairs (c3de1fc, c47eaee, 0c53096) removed.  The classification is what the drivers
       compare the real entry points against on every run (check/Check_C06.v).

   Premises, all explicit: [recover_total cr] = crypto.SigToPub returns an error instead of
   panicking; [sign_wellformed cr] = the node's own key signer answers with an error or 65 bytes;
   [real_verify K cr o] = the signer oracle of the SendBid model is the Signer model's verifier. *)
From Coq Require Import String List NArith ZArith Bool.
From MevVerif Require Import lib.Bytes model.NoPanic model.Eip712 model.Signer proofs.NoPanic_proofs.
From MevVerif Require lib.Varint model.PreconfBidder model.BidderApi model.PreconfProvider model.ProviderSvc model.Rules
  model.Handshake model.Framing model.Topology model.PeerRegistry model.Blocklist proofs.PreconfProvider_traces proofs.Handshake_proofs proofs.Framing_proofs proofs.Topology_proofs.
Import ListNotations.
Open Scope N_scope.

(* ---- (1) the models with Panic outcomes ------------------------------------------------------------ *)

(* VerifyBid: no Bid value -- digest / signature absent, empty, short, long, any amount text, any
   numbers -- makes it panic. *)
Theorem C06_no_panic_verify_bid : forall K cr (b : bid),
  recover_total cr -> verify_bid K cr b <> Panic.
Proof. exact signer_verify_bid_no_panic. Qed.
Print Assumptions C06_no_panic_verify_bid.

(* VerifyPreConfirmation: the same for commitments, including those without an embedded bid. *)
Theorem C06_no_panic_verify_preconf : forall K cr (c : preconf),
  recover_total cr -> verify_preconf K cr c <> Panic.
Proof. exact signer_verify_preconf_no_panic. Qed.
Print Assumptions C06_no_panic_verify_preconf.

(* ConstructPreConfirmation on the bid handleBid decoded (a value, never a nil pointer). *)
Theorem C06_no_panic_construct_preconf : forall K cr (b : bid),
  recover_total cr -> sign_wellformed cr -> construct_preconf K cr (Some b) <> Panic.
Proof. exact signer_construct_preconf_no_panic. Qed.
Print Assumptions C06_no_panic_construct_preconf.

(* handleBid as a whole, over the handler machine of model/PreconfProvider.v under the node's wiring: any
   number of concurrent handlers, any event history (arrivals with any role / read / verify / allowance
   answers -- even a verify gate that lies --, engine takes, decisions, deadlines, store and write results):
   no handler ever ends in RPanic (the nil amount handed to StoreCommitment).  No premise: the format rule
   the provider API applies before the engine sees a bid already forces the amount to parse. *)
Theorem C06_no_panic_handle_bid : forall K addr evs h,
  ProviderSvc.nget h (PreconfProvider.hs
    (PreconfProvider.run K ProviderSvc.rules_validators (PreconfProvider.node_wiring addr) evs))
  <> Some (PreconfProvider.HDone PreconfProvider.RPanic).
Proof. exact PreconfProvider_traces.no_rpanic_node. Qed.
Print Assumptions C06_no_panic_handle_bid.

(* ... nor does the provider-API service inside that machine reach its own crash state (a send on a closed
   channel in the bidsInProcess callback); without this the theorem above would hold trivially after such a
   crash, because the machine freezes. *)
Theorem C06_no_panic_provider_service : forall K addr evs,
  ProviderSvc.panicked (PreconfProvider.svc
    (PreconfProvider.run K ProviderSvc.rules_validators (PreconfProvider.node_wiring addr) evs)) = false.
Proof. exact provider_service_never_panics. Qed.
Print Assumptions C06_no_panic_provider_service.

(* The two hand-written copies of big.Int.SetString(s, 10) (provider model, EIP-712 model) are one function,
   and a bid that VerifyBid accepts has an amount that parses and is in range. *)
Theorem C06_verified_amount_parses : forall K cr (b : bid) a,
  verify_bid K cr b = Ok a ->
  exists z, PreconfProvider.parse_bigint (b_amt b) = Some z /\ amount_out_of_range z = false.
Proof. exact verified_amount_parses_provider. Qed.
Print Assumptions C06_verified_amount_parses.

(* "the exchange ends with an error": hostile values are refused, not accepted. *)
Theorem C06_signature_length_refused : forall K cr (b : bid) s,
  b_sig b = Some s -> length s <> 65%nat -> exists e, verify_bid K cr b = Err e.
Proof. exact signature_length_refused. Qed.
Print Assumptions C06_signature_length_refused.

Theorem C06_missing_bid_refused : forall K cr (c : preconf),
  c_bid c = None -> verify_preconf K cr c = Err E_MISSING.
Proof. exact missing_bid_refused. Qed.
Print Assumptions C06_missing_bid_refused.

Theorem C06_missing_member_refused : forall K cr (b : bid),
  b_dig b = None \/ b_sig b = None -> verify_bid K cr b = Err E_MISSING.
Proof. exact missing_member_refused. Qed.
Print Assumptions C06_missing_member_refused.

Theorem C06_bad_amount_refused : forall K cr (b : bid) d s,
  b_dig b = Some d -> b_sig b = Some s -> parse_amount (b_amt b) = None -> verify_bid K cr b = Err E_AMOUNT.
Proof. exact bad_amount_refused. Qed.
Print Assumptions C06_bad_amount_refused.

Theorem C06_wrong_digest_refused : forall K cr (b : bid) d s h,
  b_dig b = Some d -> b_sig b = Some s -> bid_hash K b = Ok h -> bytes_eqb h d = false ->
  verify_bid K cr b = Err E_HASH.
Proof. exact wrong_digest_refused. Qed.
Print Assumptions C06_wrong_digest_refused.

(* The summary the drivers compute for a Bid and compare with the real VerifyBid on every run is a function
   of the Signer model's own ingredients, and the table's verdict on it IS the model's outcome class --
   for the code as it is now and for the variant without the signature-length test. *)
Theorem C06_summary_sound : forall K cr (b : bid) f, recover_total cr -> recover_len cr ->
  verify_bid_in f (summary K cr b) =
  class_of (verify_bid_with (bid_hash K) (if f_siglen f then eip_verify cr else eip_verify_v0 cr) b).
Proof. exact summary_sound. Qed.
Print Assumptions C06_summary_sound.

(* Before c3de1fc / c47eaee the verifier did panic: a 3-byte signature behind a matching digest,
   and a commitment without a bid.  The same messages are refused with an error now. *)
Theorem C06_verify_bid_v0_refuted :
  exists K cr b, recover_total cr /\ verify_bid_v0 K cr b = Panic /\ verify_bid K cr b = Err E_SIG.
Proof. exact signer_verify_bid_v0_refuted. Qed.
Print Assumptions C06_verify_bid_v0_refuted.

Theorem C06_verify_preconf_v0_refuted :
  exists K cr c, recover_total cr /\ verify_preconf_v0 K cr c = Panic /\ verify_preconf K cr c = Err E_MISSING.
Proof. exact signer_verify_preconf_v0_refuted. Qed.
Print Assumptions C06_verify_preconf_v0_refuted.

(* SendBid: whatever the providers answer (any number of them, any reply script: refusals, errors,
   silence, any decodable commitment), none of the call's goroutines panics. *)
Theorem C06_no_panic_send_bid_replies : forall K cr o a view D,
  recover_total cr -> real_verify K cr o -> PreconfBidder.construct o a <> Panic ->
  PreconfBidder.send_bid o a view D <> PreconfBidder.SPanic.
Proof. exact send_bid_replies_no_panic. Qed.
Print Assumptions C06_no_panic_send_bid_replies.

(* The bidder API loop (b := resp.Bid; ... b.TxHash ...) on the channel SendBid returns: every
   element carries its bid, so the loop never dereferences nil -- for every signer oracle, every
   reply script, every position at which the client stream fails. *)
Theorem C06_no_panic_bidder_api : forall o a view D r fail_at,
  PreconfBidder.send_bid o a view D = PreconfBidder.SRun r ->
  fst (BidderApi.stream_loop (api_channel r) fail_at) <> BidderApi.RPanic.
Proof. exact bidder_api_no_panic. Qed.
Print Assumptions C06_no_panic_bidder_api.

(* ---- the handshake protocol -------------------------------------------------------------------------------
   Panic-prone operations in the Go source and their guards (pkg/p2p/libp2p/internal/handshake/handshake.go,
   pkg/signer/signer.go, pkg/p2p/libp2p/address.go, libp2p.go):
     verifyReq      req.PeerType + req.Token                  string concatenation, any length
                    h.signer.Verify(req.Sig, data)            signature[:len-1]: see C06_no_panic_signer_verify
                    h.getEthAddress(peerID)                   ExtractPublicKey / Raw / DecompressPubkey errors are
                                                              returned BEFORE the key is dereferenced
                                                              (FromECDSAPub(key)[1:]); driver entry peer-id-address
                    bytes.Equal(observed, recovered)          any lengths
                    h.register.CheckProviderRegistered        interface set by libp2p.New from Options.Register
     verifyResp     bytes.Equal(resp.ObservedAddress, ...)    any length; string comparison
     Handle         new(HandshakeReq) / stream.ReadMsg error returned; ethAddress.Bytes(); p2p.FromString: default -1
     Handshake      the same in the other order
     handleConnectReq  s.metrics.Failed...Count.Inc()         counters always exist (0c53096, Generated.v);
                    peer dereferenced only when err == nil (Handle returns a non-nil peer then); s.notifier != nil tested
     Connect        addrInfo.UnmarshalJSON error returned; len(Addrs) == 0 tested; p dereferenced only when err == nil
   None of these indexes, slices or dereferences peer-controlled data without a guard, which is why the result
   types of model/Handshake.v have no crash constructor. *)

(* signer.Verify never panics: the slice expression is only reached for 65-byte signatures. *)
Theorem C06_no_panic_signer_verify : forall K cr sig msg,
  recover_total cr -> recover_len cr -> signer_verify K cr sig msg <> Panic.
Proof. exact signer_verify_no_panic. Qed.
Print Assumptions C06_no_panic_signer_verify.

(* Handle and Handshake with the real signature check plugged in (NoPanic.handle_outcome / handshake_outcome:
   model/Handshake.v run with signer_verify as its Verify oracle; a crash iff one of the Verify calls the run
   made crashes -- the only panic-prone operation on these paths, see the table above): for every script of
   incoming frames (any number, any decodable request / response values, read failures anywhere), every
   write-failure pattern, every transport identity and registry answer, no panic. *)
Theorem C06_no_panic_handshake_handle : forall K cr c pid reg wfail script,
  recover_total cr -> recover_len cr -> handle_outcome K cr c pid reg wfail script <> Panic.
Proof. exact handle_outcome_no_panic. Qed.
Print Assumptions C06_no_panic_handshake_handle.

Theorem C06_no_panic_handshake_initiate : forall K cr c pid reg wfail script,
  recover_total cr -> recover_len cr -> handshake_outcome K cr c pid reg wfail script <> Panic.
Proof. exact handshake_outcome_no_panic. Qed.
Print Assumptions C06_no_panic_handshake_initiate.

(* "...ends with an error or a stream reset": every transcript that is not the one admissible exchange is
   refused, the connection is closed and nothing is registered, announced or returned (inbound wrapper
   handleConnectReq, outbound wrapper Connect). *)
Theorem C06_hostile_handshake_refused_inbound : forall c o wfail script,
  (forall A T, ~ Handshake.resp_ok c o wfail script A T) ->
  exists cl, Handshake.res (Handshake.handle c o wfail script) = Handshake.Refuse cl /\
    forall has_notifier add,
      let eff := Handshake.inbound c o wfail script has_notifier add in
      In Handshake.EClosePeer eff /\ forall e, In e eff -> Handshake.announces e = false.
Proof. exact Handshake_proofs.refuse_responder. Qed.
Print Assumptions C06_hostile_handshake_refused_inbound.

Theorem C06_hostile_handshake_refused_outbound : forall c o wfail script,
  (forall A T, ~ Handshake.init_ok c o wfail script A T) ->
  exists cl, Handshake.res (Handshake.handshake c o wfail script) = Handshake.Refuse cl /\
    forall add,
      let eff := Handshake.outbound c o wfail script add in
      In Handshake.EClosePeer eff /\ In (Handshake.EReturnErr cl) eff /\
      forall e, In e eff -> Handshake.announces e = false.
Proof. exact Handshake_proofs.refuse_initiator. Qed.
Print Assumptions C06_hostile_handshake_refused_outbound.

(* ---- frames (model/Framing.v, byte level) --------------------------------------------------------------------
   Panic-prone operations in stream.go: none in the repository's own code -- s.rw.ReadMsg() (msgio: length
   prefix, size limit, allocation) and proto.Unmarshal are library calls whose errors are returned; GetError() /
   GetData() are nil-safe getters.  The reader model is total on arbitrary bytes by construction (parse1: fewer
   than four bytes / length 0 / above the limit / fewer bytes than announced / a frame); read_msg maps every
   frame to exactly one of payload | status error | no-data | neither | malformed. *)
Theorem C06_oversized_frame_sticks_reader : forall body rest,
  Framing.max_msg < Varint.len_of body -> Varint.len_of body < 256 ^ N.of_nat Framing.len_size ->
  Framing.parse1 (Framing.frame body ++ rest) = Framing.TooLarge.
Proof. exact Framing_proofs.parse1_frame_too_large. Qed.
Print Assumptions C06_oversized_frame_sticks_reader.

Theorem C06_oversized_stays_refused : forall buf more,
  Framing.parse1 buf = Framing.TooLarge -> Framing.parse1 (buf ++ more) = Framing.TooLarge.
Proof. exact Framing_proofs.parse1_large_app. Qed.
Print Assumptions C06_oversized_stays_refused.

(* ---- discovery (model/Topology.v) -------------------------------------------------------------------------------
   handlePeersList: ReadMsg error returned; the loop reads p.EthAddress / p.Underlay of decoded entries (never
   nil elements after proto.Unmarshal), common.BytesToAddress crops or pads any length, channel send guarded by
   ctx.Done().  For every received list (any entries, any lengths) the step only dials the underlays of entries
   whose address is not connected; the views and the announcements are untouched. *)
Theorem C06_peers_list_only_dials : forall s from ok entries,
  let s' := fst (Topology.step s (Topology.Gossip from ok entries)) in
  let eff := snd (Topology.step s (Topology.Gossip from ok entries)) in
  Topology.providers s' = Topology.providers s /\ Topology.bidders s' = Topology.bidders s /\
  Topology.dials eff = (if ok then Topology.to_dial s entries else []) /\
  Topology.inflight s' = Topology.inflight s ++ Topology.dials eff /\
  Topology.announces eff = [] /\ Topology.wires eff = [] /\ Topology.adds eff = [].
Proof. exact Topology_proofs.gossip_step. Qed.
Print Assumptions C06_peers_list_only_dials.

(* ---- unknown roles ------------------------------------------------------------------------------------------------
   p2p.FromString has a default (-1); PeerType.String has a default ("unknown"); Topology.add / Disconnected switch on
   the two known types and ignore every other value.  (That String / add do not index with the type is what the
   peer-type / topology-peers driver entries and the E2UnknownRole class check.) *)
Theorem C06_unknown_role_is_minus_one : forall s,
  Handshake.role_of_string s = (-1)%Z \/ Handshake.role_of_string s = 0%Z \/
  Handshake.role_of_string s = 1%Z \/ Handshake.role_of_string s = 2%Z.
Proof. exact unknown_role_default. Qed.
Print Assumptions C06_unknown_role_is_minus_one.

Theorem C06_topology_ignores_unknown_type : forall p st,
  Topology.p_role p <> Topology.ROLE_PROVIDER -> Topology.p_role p <> Topology.ROLE_BIDDER ->
  Topology.add p st = st /\ Topology.remove p st = st.
Proof. exact topology_ignores_unknown_type. Qed.
Print Assumptions C06_topology_ignores_unknown_type.

(* ---- (2) the entry table ------------------------------------------------------------------------------------------
   model/NoPanic.v predicts, per entry kind and input summary, whether the Go code panics.  For the signer
   entries the table is tied to the Signer model by C06_summary_sound; for handleBid, SendBid and the API loop the
   theorems above speak about the real models.  For the remaining kinds -- signer.Verify lengths, handshake
   scripts, peer lists, frame classes, proto.Unmarshal, Connect on underlay bytes, peer types / topology, peer-id
   kinds, and the end-to-end classes with a registry -- the table entry is the constant "no panic": THIS THEOREM
   SAYS NOTHING ABOUT THE GO CODE FOR THEM; it records what the drivers compare the real entry points against on
   every run, and the no-panic claim for those entries rests on that sampled correspondence (for handshake,
   frames and discovery also on the arguments and theorems above).  The only computed content is: the signer
   rows (present repairs c3de1fc / c47eaee) and the end-to-end rows without a registry (libp2p.New creates the
   failure counters: metrics_always_created, regenerated from the source). *)
Theorem C06_entry_table_predicts_no_panic : forall i : entry_input, panics i = false.
Proof. exact panics_never. Qed.
Print Assumptions C06_entry_table_predicts_no_panic.

(* Exactly where the snapshot's VerifyBid panicked: digest and signature present, the amount
   parses, the digest matches, and the signature has at most 64 bytes -- nowhere else. *)
Theorem C06_verify_bid_v0_panics_iff : forall f b, f_siglen f = false ->
  (verify_bid_in f b = VPanic <->
   exists d n, bi_dig b = Some d /\ bi_sig b = Some n /\ bi_amt_ok b = true /\
               bi_hash_ok b = true /\ n <= 64).
Proof. exact verify_bid_in_v0_iff. Qed.
Print Assumptions C06_verify_bid_v0_panics_iff.

(* Without 0c53096 every failed handshake, inbound or outbound, crashed a Service that was created
   without a metrics registry. *)
Theorem C06_handshake_failure_v0_refuted :
  panics_gen without_metrics (EE2EInbound false E2ForeignSig) = true /\
  panics_gen without_metrics (EE2EOutbound false E2Garbage) = true.
Proof. exact e2e_v0_refuted. Qed.
Print Assumptions C06_handshake_failure_v0_refuted.

(* ---- round A3 ------------------------------------------------------------------------------------------------------ *)

(* The frame reader as a whole, over bytes (model/Framing.v: the msgio reader fed chunk by chunk, then stream.ReadMsg
   on every delivered frame).  For EVERY list of chunks -- any bytes, cut anywhere: prefixes announcing zero, more than
   the limit or more than ever arrives, undecodable bodies, envelopes with neither member, OK-coded errors -- the
   reader's state stays well-formed (nothing complete is left undelivered), every delivered frame is within the limit,
   every delivered frame maps to a ReadMsg result that is not a crash, and frames and stuck-condition do not depend on
   the chunking.  (Framing.v has no crash constructor, so "not Panic" is carried by read_msg_outcome, which has no branch
   that could produce one; the content of the theorem is the invariant and the bound.) *)
Theorem C06_no_panic_frame_reader : forall cs : list bytes,
  let s := Framing.feed_chunks cs in
  Framing_proofs.Stable s /\
  Forall (fun p => Varint.len_of p <= Framing.max_msg) (Framing.out s) /\
  Forall (fun p => read_msg_outcome p <> Panic) (Framing.out s) /\
  Framing.out s = Framing.out (Framing.feed_all (concat cs)) /\
  Framing.dead s = Framing.dead (Framing.feed_all (concat cs)).
Proof. exact FrameReader.frame_reader_total. Qed.
Print Assumptions C06_no_panic_frame_reader.

(* handleConnectReq / Connect composed with the registry and the block list (NoPanic.connect_wrapper: the
   outcome-valued handshake of round A2, then PeerRegistry.add_peer on an enrolment resp. Blocklist.block_peer with the
   regenerated durations on a refusal): no list of connection attempts -- any scripts, registry answers, write
   failures, closed connections, clocks, directions -- ends in Panic ... *)
Theorem C06_no_panic_connect_wrappers : forall K cr mkpeer l,
  recover_total cr -> recover_len cr ->
  forall nd, exists nd', connect_run K cr mkpeer nd l = Ok nd'.
Proof. exact connect_wrappers_no_panic. Qed.
Print Assumptions C06_no_panic_connect_wrappers.

(* ... and after a refusal the node is in a state from which the next connection is served: the registry is what it
   was and only the refused remote's own block entry may have changed. *)
Theorem C06_refusal_keeps_node_serving : forall K cr mkpeer nd a nd' r cl,
  connect_wrapper K cr mkpeer nd a = Ok nd' ->
  (if at_inbound a
   then handle_outcome K cr (at_cfg a) (at_pres a) (at_registered a) (at_wfail a) (at_script a)
   else handshake_outcome K cr (at_cfg a) (at_pres a) (at_registered a) (at_wfail a) (at_script a)) = Ok r ->
  Handshake.res r = Handshake.Refuse cl ->
  n_reg nd' = n_reg nd /\
  forall q, q <> at_pid a -> Blocklist.lookup q (n_blocks nd') = Blocklist.lookup q (n_blocks nd).
Proof. exact refusal_keeps_node_serving. Qed.
Print Assumptions C06_refusal_keeps_node_serving.

(* discovery's worker semaphore as a counter (NoPanic.pool_run; cap = the number of check workers): for every
   interleaving of handler sends, handler cancellations, dispatcher acquisitions and worker returns, Release is never
   called with nothing held (no "released more than held" panic), the slots held are exactly the live workers and never
   more than cap.  _partial: the pool is a model of its own written from discovery.go (PeerList decoding is the Gossip
   step of model/Topology.v, C06_peers_list_only_dials); the two are not composed into one machine. *)
Theorem C06_semaphore_balanced_partial : forall cap evs,
  exists s, pool_run cap false pool_init evs = Ok s /\ held s = workers s /\ held s <= cap.
Proof. exact semaphore_balanced. Qed.
Print Assumptions C06_semaphore_balanced_partial.

(* the seeded variants (a slot given back on the handler's ctx.Done branch) do crash, once the real holders finish *)
Theorem C06_semaphore_release_on_cancel_refuted :
  pool_run 10 true pool_init [PSend; PAcquire; PCancel; PDone] = Panic.
Proof. exact semaphore_release_on_cancel_refuted. Qed.
Print Assumptions C06_semaphore_release_on_cancel_refuted.

(* The composed form of the statement above (round A5): list handler, dispatcher, semaphore and workers are one machine
   (model/Discovery.v, run against the real discovery by the C15 driver's class "discovery-machine").  For every width
   and every schedule -- lists of any length, entries known / unknown / undecodable, dials answered in any order with
   any answer, contexts ending, topology changes in between -- the run ends in a state (no crash value, no error
   value); Release is never called with nothing held.  The counter-only statement above stays for the seeded variant. *)
From MevVerif Require model.Discovery proofs.Discovery_proofs.
Theorem C06_no_panic_discovery_machine : forall cap evs, Discovery.drun cap evs <> Panic.
Proof. exact Discovery_proofs.disc_no_panic. Qed.
Print Assumptions C06_no_panic_discovery_machine.
