(* C19 -- Bidder API rejects malformed bids and forwards valid ones verbatim.
   Statements only; every proof is [exact <lemma>].

   Vocabulary (model/BidderApi.v): [send_bid req ans fail_at] is bidderapi.Service.SendBid run
   on request [req] (None = nil pointer) against a preconfirmation sender that answers [ans]
   (an error, or a channel delivering the listed elements and then closed) and a client stream
   whose [fail_at]-th Send fails (None = never).  The run records [res] (how SendBid ended),
   [calls] (every call of the sender, which is what signs the bid and sends it to the network)
   and [streamed] (every Commitment message handed to the client stream).  44 is the comma. *)
From Coq Require Import String List NArith ZArith Bool.
From MevVerif Require Import lib.Bytes model.Rules model.BidderApi proofs.Rules_proofs proofs.BidderApi_proofs check.Check_C19.
Import ListNotations.
Open Scope N_scope.

(* The published rules of bidderapi.v1.Bid accept exactly: a non-empty hash list whose every
   entry is 64 characters out of 0-9 a-f A-F, an amount that is a non-empty run of ASCII
   digits with 0 < value < 2^64, and positive block number and decay timestamps. *)
Theorem C19_rules : forall txs amount bn ds de,
  bidder_bid_ok txs amount bn ds de = true <->
  (txs <> [] /\
   Forall (fun h => length h = 64%nat /\
                    Forall (fun c => 48 <= c <= 57 \/ 97 <= c <= 102 \/ 65 <= c <= 70) h) txs) /\
  (amount <> [] /\ Forall (fun c => 48 <= c <= 57) amount /\
   0 < dec_value amount < 18446744073709551616) /\
  (0 < bn)%Z /\ (0 < ds)%Z /\ (0 < de)%Z.
Proof. exact bidder_bid_ok_spec. Qed.
Print Assumptions C19_rules.

(* The CEL runtime-error class (an all-digit amount of 2^64 or more, a negative number) is
   part of the refusals: the three-valued evaluation of the rule table yields "accepted"
   exactly when the boolean rule holds. *)
Theorem C19_rules_three_valued : forall txs amount bn ds de,
  bidder_bid_verdict txs amount bn ds de = ROk <-> bidder_bid_ok txs amount bn ds de = true.
Proof. exact bidder_bid_verdict_ok. Qed.
Print Assumptions C19_rules_three_valued.

(* The numeric fields are int64 in the messages (the rule functions take any integer): for
   values in the int64 range -- which is where every value decoded from the wire lies,
   C19_wire_values_in_range -- "positive" reads 0 < v <= 2^63 - 1. *)
Theorem C19_rules_int64 : forall txs amount bn ds de,
  (-9223372036854775808 <= bn <= 9223372036854775807)%Z ->
  (-9223372036854775808 <= ds <= 9223372036854775807)%Z ->
  (-9223372036854775808 <= de <= 9223372036854775807)%Z ->
  (bidder_bid_ok txs amount bn ds de = true <->
   hashes_spec txs /\ amount_spec amount /\
   (0 < bn <= 9223372036854775807)%Z /\ (0 < ds <= 9223372036854775807)%Z /\
   (0 < de <= 9223372036854775807)%Z).
Proof. exact bidder_bid_ok_int64. Qed.
Print Assumptions C19_rules_int64.

Theorem C19_wire_values_in_range : forall u,
  (-9223372036854775808 <= int64_of_wire (u mod 18446744073709551616) <= 9223372036854775807)%Z.
Proof. exact int64_of_wire_truncated. Qed.
Print Assumptions C19_wire_values_in_range.

(* The published regular expressions run on runes, C19_rules speaks of bytes.  For every
   decoding of the byte string into runes of the UTF-8 shape (ASCII byte = one equal rune; a
   byte >= 0x80 starts one or more bytes giving one rune >= 0x80, be it a multi-byte
   character or U+FFFD for an invalid byte), '^[a-fA-F0-9]{64}$' and '^[0-9]+$' on the runes
   say exactly what the byte-level specification says: multi-byte digits, fullwidth forms
   and invalid UTF-8 are refused at every position. (The driver exercises this with invalid
   and multi-byte sequences at the first and last positions, classes utf8-boundary and
   hash-char-exhaustive.) *)
Theorem C19_rules_rune_level : forall s runes,
  utf8_decodes s runes ->
  ((length runes = 64%nat /\ Forall hex_char runes) <-> (length s = 64%nat /\ Forall hex_char s)) /\
  ((runes <> [] /\ Forall digit_char runes) <-> (s <> [] /\ Forall digit_char s)).
Proof. exact rules_rune_level. Qed.
Print Assumptions C19_rules_rune_level.

(* A nil request, or one that breaks any of the rules, ends with InvalidArgument; the sender
   is never called (nothing is signed or sent) and nothing is streamed -- whatever the sender
   and the stream would have done. *)
Theorem C19_nothing_before : forall req ans fail_at,
  (req = None \/
   exists r, req = Some r /\
     ~ bidder_bid_spec (r_txs r) (r_amount r) (r_bn r) (r_ds r) (r_de r)) ->
  send_bid req ans fail_at = {| res := RInvalidArgument; calls := []; streamed := [] |}.
Proof. exact nothing_before. Qed.
Print Assumptions C19_nothing_before.

(* Each cause named in the statement is a refusal on its own. *)
Theorem C19_refusal_causes : forall txs amount bn ds de,
  (txs = [] \/
   (exists h, In h txs /\ ~ (length h = 64%nat /\ Forall hex_char h)) \/
   ~ (amount <> [] /\ Forall digit_char amount /\ 0 < dec_value amount < 18446744073709551616) \/
   (bn <= 0)%Z \/ (ds <= 0)%Z \/ (de <= 0)%Z) ->
  bidder_bid_ok txs amount bn ds de = false.
Proof. exact bidder_bid_refusal_causes. Qed.
Print Assumptions C19_refusal_causes.

(* Every accepted request reaches the sender exactly once, carrying the hashes joined by
   commas in order and the request's own amount, block number and decay timestamps; the
   joined string splits back into exactly the request's hashes; the call does not end with
   InvalidArgument -- for every sender answer and stream behaviour. *)
Theorem C19_verbatim : forall r ans fail_at,
  bidder_bid_spec (r_txs r) (r_amount r) (r_bn r) (r_ds r) (r_de r) ->
  calls (send_bid (Some r) ans fail_at) =
    [{| f_txs := join 44 (r_txs r); f_amount := r_amount r;
        f_bn := r_bn r; f_ds := r_ds r; f_de := r_de r |}] /\
  split 44 (join 44 (r_txs r)) = r_txs r /\
  res (send_bid (Some r) ans fail_at) <> RInvalidArgument.
Proof. exact verbatim. Qed.
Print Assumptions C19_verbatim.

(* The messages streamed back are, in order, the images of a prefix of the commitments
   received from the sender: transaction list = comma-split of the received string, the same
   amount, block number and timestamps, lowercase hex of both digests, both signatures and
   the provider address.  If SendBid returns nil the prefix is the whole list; if no Send
   fails (the stream never fails, or its failing index lies beyond the list) and every
   received element carries its bid, SendBid returns nil; it never panics on such elements;
   and the stream's own error is returned only for the Send that failed, which is then the
   last message. *)
Theorem C19_commitment : forall r cs fail_at,
  bidder_bid_spec (r_txs r) (r_amount r) (r_bn r) (r_ds r) (r_de r) ->
  let m := send_bid (Some r) (SenderReturns cs) fail_at in
  Forall2
    (fun received msg => exists p b, received = Some p /\ pc_bid p = Some b /\
       msg = {| cm_txs := split 44 (pb_tx b); cm_amount := pb_amount b; cm_bn := pb_bn b;
                cm_bid_digest := hex (pb_digest b); cm_bid_sig := hex (pb_sig b);
                cm_digest := hex (pc_digest p); cm_sig := hex (pc_sig p); cm_prov := hex (pc_prov p);
                cm_ds := pb_ds b; cm_de := pb_de b |})
    (firstn (length (streamed m)) cs) (streamed m) /\
  (res m = RNil -> length (streamed m) = length cs) /\
  ((fail_at = None \/ exists k, fail_at = Some k /\ (length cs <= k)%nat) ->
   Forall (fun c => exists p b, c = Some p /\ pc_bid p = Some b) cs -> res m = RNil) /\
  (Forall (fun c => exists p b, c = Some p /\ pc_bid p = Some b) cs -> res m <> RPanic) /\
  (res m = RStreamErr -> exists k, fail_at = Some k /\ length (streamed m) = S k).
Proof. exact commitment_stream. Qed.
Print Assumptions C19_commitment.

(* Nothing is lost in the rendering: the received transaction string, numbers and the five
   byte fields are recovered from the streamed message (join of the list; hex decoding). *)
Theorem C19_lossless : forall p b m,
  reproduces (Some p) m -> pc_bid p = Some b ->
  wf_bytes (pb_digest b) -> wf_bytes (pb_sig b) ->
  wf_bytes (pc_digest p) -> wf_bytes (pc_sig p) -> wf_bytes (pc_prov p) ->
  join 44 (cm_txs m) = pb_tx b /\ cm_amount m = pb_amount b /\
  cm_bn m = pb_bn b /\ cm_ds m = pb_ds b /\ cm_de m = pb_de b /\
  unhex (cm_bid_digest m) = Some (pb_digest b) /\ unhex (cm_bid_sig m) = Some (pb_sig b) /\
  unhex (cm_digest m) = Some (pc_digest p) /\ unhex (cm_sig m) = Some (pc_sig p) /\
  unhex (cm_prov m) = Some (pc_prov p).
Proof. exact lossless. Qed.
Print Assumptions C19_lossless.

(* When the sender itself fails, the bid was handed over once and nothing is streamed. *)
Theorem C19_sender_failure : forall r fail_at,
  bidder_bid_spec (r_txs r) (r_amount r) (r_bn r) (r_ds r) (r_de r) ->
  send_bid (Some r) SenderFails fail_at =
  {| res := RInternal; calls := [forward r]; streamed := [] |}.
Proof. exact sender_failure. Qed.
Print Assumptions C19_sender_failure.

(* The boolean property checker that bin/check evaluates on the implementation's observations
   (check/Check_C19.v: accepted-malformed, rejected-valid, forward-differs,
   commitment-differs) holds of every run of the model. *)
Theorem C19_checker_valid : forall req ans fail_at,
  let m := send_bid req ans fail_at in
  Check_C19.check_send req ans fail_at
    (Check_C19.verdict_code (Check_C19.request_verdict req))
    (Check_C19.result_code (res m)) (calls m) (streamed m) = None.
Proof. exact model_passes_checker. Qed.
Print Assumptions C19_checker_valid.

(* Outside the claim, exposed by the model (Example panic_on_missing_bid): a channel element
   that is nil or lacks its embedded bid makes SendBid panic.  The preconfirmation sender of
   this repository never delivers one (it verifies every commitment first). *)

(* ---- composition with C05, C03 and C02 (proofs/Compose_bidder.v) -------------------------------------
   C19 o C05 o C03 o C02.  The sender of the API is the preconfirmation protocol (BidderApi_proofs.node_wiring),
   whose SendBid model (model/PreconfBidder.v) takes ConstructSignedBid as an oracle; here that oracle is
   the signer model's construct_bid for an arbitrary hash function K and crypto library cr
   (Compose_bidder.signer_oracles), and the call values are the ones this API hands over
   (Compose_bidder.args_of).  SendBid is taken in its operational model ([PreconfBidder.send_bid_op tr], C05: every
   transport, every resolution of the final select, every deadline D including an already expired context).
   For every request accepted by the published rules whose three numbers are Go int64 values (they are: the
   message carries protobuf int64 fields, Rules_proofs.int64_of_wire_range / bidder_bid_ok_int64;
   C19_accepted_wire_request_bid_is_eip712 below has no range premise): the request reaches SendBid exactly
   once, and whatever SendBid then does (any connected peers, reply scripts, deadline) the bid it signed and
   offers carries the request's hashes joined in order (they split back), its amount text, block number and
   decay window and nothing else; its digest is the generic EIP-712 hash (model/Eip712.v part II, written from
   the EIP text) of those values, which are well typed for the published schema (C03_bid applies: accepted
   amounts lie below 2^64, accepted numbers in (0, 2^63)); its signature is the key signer's answer for that
   digest with v moved to 27/28; there is one NewStream per connected provider and exactly this message is
   handed to WriteMsg once on every stream that opened ([opens_stream_op tr D p]: the script does not make
   NewStream fail and NewStream did not see an already expired context -- at D = 0 nothing is written on the
   repository's transport, C19_accepted_bid_expired_context_writes_nothing).
   Non-vacuity: Compose_bidder.ex_request_accepted, Compose_bidder.ex_bidder_path. *)
From MevVerif Require model.Eip712 model.Signer model.PreconfBidder proofs.PreconfBidder_proofs proofs.Compose_bidder.
Theorem C19_accepted_bid_is_eip712 :
  forall (K : bytes -> bytes) (cr : Signer.crypto) (r : request),
  bidder_bid_ok (r_txs r) (r_amount r) (r_bn r) (r_ds r) (r_de r) = true ->
  (r_bn r <= int64_max)%Z -> (r_ds r <= int64_max)%Z -> (r_de r <= int64_max)%Z ->
  forall ans fail_at,
  exists f, calls (send_bid (Some r) ans fail_at) = [f] /\
  forall tr view D run,
    PreconfBidder.send_bid_op tr (Compose_bidder.signer_oracles K cr) (Compose_bidder.args_of f) view D
      = PreconfBidder.XRun run ->
    let s := PreconfBidder.xr_sent run in
    PreconfBidder.b_tx s = join 44 (r_txs r) /\ split 44 (PreconfBidder.b_tx s) = r_txs r /\
    PreconfBidder.b_amt s = r_amount r /\ PreconfBidder.b_bn s = r_bn r /\
    PreconfBidder.b_ds s = r_ds r /\ PreconfBidder.b_de s = r_de r /\ PreconfBidder.b_unk s = [] /\
    PreconfBidder.b_dig s =
      Eip712.eip712_hash K Eip712.domain_schema Eip712.bid_domain Eip712.bid_schema
        (Eip712.bid_values (join 44 (r_txs r)) (dec_value (r_amount r))
                           (Z.to_N (r_bn r)) (Z.to_N (r_ds r)) (Z.to_N (r_de r))) /\
    Eip712.well_typed (Eip712.s_members Eip712.bid_schema)
        (Eip712.bid_values (join 44 (r_txs r)) (dec_value (r_amount r))
                           (Z.to_N (r_bn r)) (Z.to_N (r_ds r)) (Z.to_N (r_de r))) = true /\
    Signer.sign_normalised cr (PreconfBidder.b_dig s) = Ok (PreconfBidder.b_sig s) /\
    Forall2 (fun p ct => fst ct = PreconfBidder.p_addr p /\
                         snd ct = if PreconfBidder_proofs.opens_stream_op tr D p then [s] else [])
            (PreconfBidder.get_peers PreconfBidder.TProvider view) (PreconfBidder.xr_contacted run).
Proof. exact Compose_bidder.accepted_bid_is_eip712. Qed.
Print Assumptions C19_accepted_bid_is_eip712.

(* C19 o C05 o C03.  For an accepted request ConstructSignedBid is decided by the key signer alone (the
   "missing required fields" and "invalid bid amount" refusals are unreachable behind the API rules), so
   SendBid refuses the call only when the key signer fails or no provider is connected. *)
Theorem C19_accepted_bid_refused_only_by_signer :
  forall (K : bytes -> bytes) (cr : Signer.crypto) (r : request),
  bidder_bid_ok (r_txs r) (r_amount r) (r_bn r) (r_ds r) (r_de r) = true ->
  (r_bn r <= int64_max)%Z -> (r_ds r <= int64_max)%Z -> (r_de r <= int64_max)%Z ->
  forall view D,
  PreconfBidder.send_bid (Compose_bidder.signer_oracles K cr) (Compose_bidder.args_of (forward r)) view D
    = PreconfBidder.SErr ->
  (exists e, Signer.sign_normalised cr (Compose_bidder.req_digest K r) = Err e) \/
  PreconfBidder.get_peers PreconfBidder.TProvider view = [].
Proof. exact Compose_bidder.accepted_refused_only_by_signer. Qed.
Print Assumptions C19_accepted_bid_refused_only_by_signer.

(* C19 o C05 o C03 o C01 (proofs/Compose_provider.v).  What the bidder API rules accept, the provider's published
   format rules accept: the bid an honest bidder node signs for an accepted request (numbers Go int64 values),
   decoded by a provider, satisfies providerapi.v1.Bid's rules -- hashes, amount, positive numbers, and a digest of
   1 to 64 bytes, provided the hash function has images of that size (Keccak-256: 32). *)
From MevVerif Require model.ProviderSvc proofs.PreconfProvider_signed proofs.NoPanic_proofs proofs.Compose_provider.
Theorem C19_accepted_passes_provider_rules :
  forall (K : bytes -> bytes) (rc : bytes -> bytes -> outcome bytes) (vr : bytes -> bytes -> bytes -> bool)
         (ao : bytes -> bytes) (signB : bytes -> outcome bytes),
  (forall m, (1 <= length (K m) <= 64)%nat) ->
  forall r : request,
  bidder_bid_ok (r_txs r) (r_amount r) (r_bn r) (r_ds r) (r_de r) = true ->
  (r_bn r <= int64_max)%Z -> (r_ds r <= int64_max)%Z -> (r_de r <= int64_max)%Z ->
  forall view D rn,
  PreconfBidder.send_bid
    (Compose_bidder.signer_oracles K
       {| Signer.recover := rc; Signer.verify_rs := vr; Signer.addr_of := ao; Signer.sign := signB |})
    (Compose_bidder.args_of (forward r)) view D = PreconfBidder.SRun rn ->
  ProviderSvc.vbid ProviderSvc.rules_validators
    (ProviderSvc.to_engine (PreconfProvider_signed.of_wire (NoPanic_proofs.conv_bid (PreconfBidder.r_sent rn)))) = true.
Proof. exact Compose_provider.provider_format_ok. Qed.
Print Assumptions C19_accepted_passes_provider_rules.

(* C19 o C05 (C05_expired).  The same call with a context that had already expired: no message is handed to any
   stream and nothing is delivered. *)
Theorem C19_accepted_bid_expired_context_writes_nothing :
  forall (K : bytes -> bytes) (cr : Signer.crypto) (r : request) view run,
  PreconfBidder.send_bid_op PreconfBidder.ctx_transport (Compose_bidder.signer_oracles K cr)
    (Compose_bidder.args_of (forward r)) view 0 = PreconfBidder.XRun run ->
  (forall ad ws, In (ad, ws) (PreconfBidder.xr_contacted run) -> ws = []) /\ PreconfBidder.xr_delivered run = [].
Proof. exact Compose_bidder.accepted_bid_expired_context_writes_nothing. Qed.
Print Assumptions C19_accepted_bid_expired_context_writes_nothing.

(* C19 o C05 o C03 for a request as decoded from the wire: the three numbers are [int64_of_wire u] of the 64-bit
   values on the wire, so no range premise is left; acceptance means 0 < u < 2^63 for each. *)
Theorem C19_accepted_wire_request_bid_is_eip712 :
  forall (K : bytes -> bytes) (cr : Signer.crypto) txs amount ubn uds ude,
  ubn < uint64_bound -> uds < uint64_bound -> ude < uint64_bound ->
  let r := {| r_txs := txs; r_amount := amount; r_bn := int64_of_wire ubn;
              r_ds := int64_of_wire uds; r_de := int64_of_wire ude |} in
  bidder_bid_ok txs amount (int64_of_wire ubn) (int64_of_wire uds) (int64_of_wire ude) = true ->
  forall tr view D run,
    PreconfBidder.send_bid_op tr (Compose_bidder.signer_oracles K cr) (Compose_bidder.args_of (forward r)) view D
      = PreconfBidder.XRun run ->
    Compose_bidder.sent_is_request_bid K cr r (PreconfBidder.xr_sent run) /\
    (0 < ubn < 9223372036854775808 /\ 0 < uds < 9223372036854775808 /\ 0 < ude < 9223372036854775808).
Proof. exact Compose_bidder.accepted_wire_request_bid_is_eip712. Qed.
Print Assumptions C19_accepted_wire_request_bid_is_eip712.
