(* C16 -- Protocol versions match iff same name, same major, minor not newer.
   Statements only; every proof is [exact <lemma>]. *)
From Coq Require Import String List NArith Bool.
From MevVerif Require Import lib.Bytes model.Semver proofs.Semver_proofs.
Import ListNotations.
Open Scope N_scope.

(* Identifiers /name/MAJOR.MINOR.PATCH against a handler (hn, HM.Hm.Hp): routed exactly when
   the name is equal, the major is equal and the minor is not greater. *)
Theorem C16_match : forall n hn M m p HM Hm Hp,
  ~ In slash n ->
  M < two64 -> m < two64 -> p < two64 -> HM < two64 -> Hm < two64 -> Hp < two64 ->
  match_id (proto_id n M m p) hn (version_string HM Hm Hp) =
  if bytes_eqb n hn && (HM =? M) && (m <=? Hm) then Match else NoMatch.
Proof. exact match_rule. Qed.
Print Assumptions C16_match.

(* The same rule on the whole numeric domain: ANY identifier of three segments, the first one empty ("/n/v"), whose
   version and whose handler's version are read as numbers - leading zeros included, "01.002.3" is 1.2.3 - is
   matched exactly when the name is equal, the major is equal and the minor is not greater. *)
Theorem C16_match_general : forall incoming n v name supported SM Sm Sp PM Pm Pp,
  split slash incoming = [[]; n; v] ->
  parse_version supported = VNum SM Sm Sp -> parse_version v = VNum PM Pm Pp ->
  match_id incoming name supported =
    if bytes_eqb n name && (SM =? PM) && (Pm <=? Sm) then Match else NoMatch.
Proof. exact match_general. Qed.
Print Assumptions C16_match_general.

(* Anything in front of the first '/' - one byte is enough, valid UTF-8 or not - and nothing is matched. *)
Theorem C16_prefix_never_matched : forall incoming c pre n v name supported,
  split slash incoming = [c :: pre; n; v] -> match_id incoming name supported = NoMatch.
Proof. exact match_prefix. Qed.
Print Assumptions C16_prefix_never_matched.

(* The function as it was before the repair 6f7f755 ([match_id_v1]) did not look at that segment:
   "\xff/test/1.0.0" and "x/test/1.0.0" were matched by the handler test 1.0.0 (the first one then crashed the node:
   the resource manager labels its metrics with the accepted identifier).  Now both are refused. *)
Theorem C16_prefix_v1_refuted :
  match_id_v1 (255 :: bos "/test/1.0.0") (bos "test") (bos "1.0.0") = Match /\
  match_id_v1 (bos "x/test/1.0.0") (bos "test") (bos "1.0.0") = Match /\
  match_id (255 :: bos "/test/1.0.0") (bos "test") (bos "1.0.0") = NoMatch /\
  match_id (bos "x/test/1.0.0") (bos "test") (bos "1.0.0") = NoMatch.
Proof. exact prefix_v1_refuted. Qed.
Print Assumptions C16_prefix_v1_refuted.

(* What an accepted identifier looks like.  Not refused outright (matched, or judged by the library's lenient
   dialect): it is exactly "/" ++ name ++ "/" ++ v, with no further '/'. *)
Theorem C16_accepted_shape : forall incoming name supported,
  match_id incoming name supported <> NoMatch ->
  exists v, incoming = slash :: name ++ slash :: v /\ ~ In slash v /\ ~ In slash name.
Proof. exact accepted_shape. Qed.
Print Assumptions C16_accepted_shape.

(* Matched: it is "/" ++ name ++ "/" ++ a.b.c with three runs of decimal digits - after the handler's name nothing but
   ASCII digits and two dots. *)
Theorem C16_accepted_id_is_wellformed : forall incoming name supported,
  match_id incoming name supported = Match ->
  exists a b c M m p,
    incoming = slash :: name ++ slash :: a ++ dot :: b ++ dot :: c /\
    numeric a M /\ numeric b m /\ numeric c p /\ M < two64 /\ m < two64 /\ p < two64 /\
    ascii (a ++ dot :: b ++ dot :: c).
Proof. exact accepted_id_is_wellformed. Qed.
Print Assumptions C16_accepted_id_is_wellformed.

(* Hence a matched identifier is valid UTF-8 whenever the handler's name is: for EVERY notion [valid] of validity of
   byte strings that is closed under concatenation and holds of all-ASCII strings (UTF-8 validity is one), valid
   name -> valid identifier.  This is what rules out the crash of 6f7f755's message: an identifier that go-libp2p
   records (stream.SetProtocol, metrics labels) after the matcher accepted it is never invalid UTF-8.  On the
   lenient dialect (Unspec) the statement is C16_accepted_shape only; the driver's hostile-id-e2e class observes
   that no such identifier is accepted with non-ASCII bytes. *)
Theorem C16_accepted_id_valid : forall (valid : bytes -> Prop) incoming name supported,
  (forall x y, valid x -> valid y -> valid (x ++ y)) -> (forall x, ascii x -> valid x) ->
  valid name -> match_id incoming name supported = Match -> valid incoming.
Proof. exact accepted_id_valid. Qed.
Print Assumptions C16_accepted_id_valid.

(* ... where "read as numbers M.m.p" means exactly: three non-empty runs of decimal digits separated by two dots,
   each with a value below 2^64 ([numeric a M]: a is non-empty, all digits, of decimal value M). *)
Theorem C16_numeric_domain : forall v M m p,
  parse_version v = VNum M m p <->
  exists a b c, v = a ++ dot :: b ++ dot :: c /\ numeric a M /\ numeric b m /\ numeric c p /\
                M < two64 /\ m < two64 /\ p < two64.
Proof. exact parse_version_num. Qed.
Print Assumptions C16_numeric_domain.

(* Components that do not fit 64 bits are a parse error: no match. *)
Theorem C16_overflow : forall n hn M m p HM Hm Hp,
  ~ In slash n ->
  (two64 <= M \/ two64 <= m \/ two64 <= p \/ two64 <= HM \/ two64 <= Hm \/ two64 <= Hp) ->
  match_id (proto_id n M m p) hn (version_string HM Hm Hp) = NoMatch.
Proof. exact match_overflow. Qed.
Print Assumptions C16_overflow.

(* Any identifier (arbitrary bytes) with a number of path segments other than three is never
   matched ... *)
Theorem C16_segments : forall incoming name supported,
  length (split slash incoming) <> 3%nat -> match_id incoming name supported = NoMatch.
Proof. exact match_segments. Qed.
Print Assumptions C16_segments.

(* ... nor is one whose name segment differs from the handler's. *)
Theorem C16_name : forall incoming pre n v name supported,
  split slash incoming = [pre; n; v] -> n <> name -> match_id incoming name supported = NoMatch.
Proof. exact match_name. Qed.
Print Assumptions C16_name.

(* For arbitrary strings on both sides a match is produced only through the numeric rule. *)
Theorem C16_sound : forall incoming name supported,
  match_id incoming name supported = Match ->
  exists v SM Sm Sp PM Pm Pp,
    split slash incoming = [[]; name; v] /\
    parse_version supported = VNum SM Sm Sp /\ parse_version v = VNum PM Pm Pp /\
    SM = PM /\ Pm <= Sm.
Proof. exact match_sound. Qed.
Print Assumptions C16_sound.
(* Routing among the descriptors a node registered (pairwise distinct names, as the three protocols of the
   node are): an identifier is matched by at most one of them, so "routed to a protocol handler exactly when
   ..." names a unique handler.  The correspondence check drives this through two real services (class
   "routing": several descriptors registered in one AddStreamHandlers call and in separate calls). *)
Theorem C16_route_unique : forall (descs : list (bytes * bytes)) incoming d1 d2,
  NoDup (map fst descs) -> In d1 descs -> In d2 descs ->
  match_id incoming (fst d1) (snd d1) = Match -> match_id incoming (fst d2) (snd d2) = Match -> d1 = d2.
Proof. exact route_unique. Qed.
Print Assumptions C16_route_unique.


(* Routing.  [route ds incoming] is the model of AddStreamHandlers over go-multistream: every descriptor of [ds] is
   registered in order (number k from 1) with SetStreamHandlerMatch - which first removes the entry registered
   under the same name and appends the new one - and an incoming identifier goes to the first entry of the
   resulting table whose match function (matchProtocolIDWithSemver with the entry's own name and version) accepts.
   With pairwise distinct names, as the node's own protocols have: the identifier reaches the k-th registered
   handler exactly when that handler's descriptor matches, ...
   Scope: [specified ds incoming] - no registered descriptor is judged by the version library's lenient dialect
   (verdict Unspec) on this identifier.  The premise is needed for the implementation, not for the model: [route] reads
   Unspec as "not matched", while the library accepts e.g. "v1.0.0", so Go does route "/a/v1.0.0" to a handler a 1.0.0
   (Semver_proofs.lenient_route_none).  The checker applies the same restriction ([route_expect]). *)
Theorem C16_route : forall ds incoming k d,
  NoDup (map fst ds) -> specified ds incoming ->
  (route ds incoming = Some (k, d) <->
   1 <= k /\ nth_error ds (N.to_nat (k - 1)) = Some d /\ match_id incoming (fst d) (snd d) = Match).
Proof. exact route_specified_nodup. Qed.
Print Assumptions C16_route.

(* ... and reaches no handler exactly when every registered descriptor refuses it. *)
Theorem C16_route_none : forall ds incoming,
  NoDup (map fst ds) -> specified ds incoming ->
  (route ds incoming = None <-> forall d, In d ds -> match_id incoming (fst d) (snd d) = NoMatch).
Proof. exact route_none_specified_nodup. Qed.
Print Assumptions C16_route_none.

(* Without the distinct-names premise: the handler reached is the LAST registration of its name whose descriptor
   matches (registering a name again replaces the earlier handler, whatever its version was). *)
Theorem C16_route_general : forall ds incoming h,
  specified ds incoming ->
  (route ds incoming = Some h <->
   last_of_name (number 1 ds) h /\ match_id incoming (fst (snd h)) (snd (snd h)) = Match).
Proof. exact route_specified. Qed.
Print Assumptions C16_route_general.

(* "No identifier crashes the node", for the repository's own code: [match_id_gen nv] is matchProtocolIDWithSemver
   with its two indexing statements parts[1], parts[2] as explicit crash points ([index_o]) and the version library
   as the named oracle [nv].  If the library call does not crash, no identifier and no handler descriptor makes
   the function crash.  (That semver.NewVersion itself does not panic on arbitrary bytes is outside the proof; the
   correspondence check observes it on every malformed identifier, clause "panic".)  The crash outcome is not
   vacuous: the same body without the length test crashes on the empty identifier, [unguarded_crashes]. *)
Theorem C16_no_crash : forall nv incoming name supported,
  (forall s, nv s <> Panic) -> match_id_gen nv incoming name supported <> Panic.
Proof. exact no_crash. Qed.
Print Assumptions C16_no_crash.

(* With the library as modelled, the crash-aware function is the total function the theorems above speak about. *)
Theorem C16_no_crash_model : forall incoming name supported,
  match_id_o incoming name supported = Ok (match_id incoming name supported).
Proof. exact match_id_o_total. Qed.
Print Assumptions C16_no_crash_model.
