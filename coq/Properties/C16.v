(* C16 -- Protocol versions match iff same name, same major, minor not newer.
   Statements only; every proof is [exact <lemma>]. *)
From Coq Require Import List NArith Bool.
From MevVerif Require Import lib.Bytes model.Semver proofs.Semver_proofs.
Import ListNotations.
Open Scope N_scope.

(* Identifiers /name/MAJOR.MINOR.PATCH against a handler (hn, HM.Hm.Hp): routed exactly when
   the name is equal, the major is equal and the minor is not greater. *)
Theorem C16_match : forall n hn M m p HM Hm Hp,
  ~ In slash n ->
  M < two64 -> m < two64 -> p < two64 -> HM < two64 -> Hm < two64 -> Hp < two64 ->
  match_id (proto_id n M m p) hn (version_string HM Hm Hp) =
  if bytes_eqb n hn && (HM =? M) && (m <=? Hm) then Match else NoMatch.
Proof. exact match_rule. Qed.
Print Assumptions C16_match.

(* Components that do not fit 64 bits are a parse error: no match. *)
Theorem C16_overflow : forall n hn M m p HM Hm Hp,
  ~ In slash n ->
  (two64 <= M \/ two64 <= m \/ two64 <= p \/ two64 <= HM \/ two64 <= Hm \/ two64 <= Hp) ->
  match_id (proto_id n M m p) hn (version_string HM Hm Hp) = NoMatch.
Proof. exact match_overflow. Qed.
Print Assumptions C16_overflow.

(* Any identifier (arbitrary bytes) with a number of path segments other than three is never
   matched ... *)
Theorem C16_segments : forall incoming name supported,
  length (split slash incoming) <> 3%nat -> match_id incoming name supported = NoMatch.
Proof. exact match_segments. Qed.
Print Assumptions C16_segments.

(* ... nor is one whose name segment differs from the handler's. *)
Theorem C16_name : forall incoming pre n v name supported,
  split slash incoming = [pre; n; v] -> n <> name -> match_id incoming name supported = NoMatch.
Proof. exact match_name. Qed.
Print Assumptions C16_name.

(* For arbitrary strings on both sides a match is produced only through the numeric rule. *)
Theorem C16_sound : forall incoming name supported,
  match_id incoming name supported = Match ->
  exists pre v SM Sm Sp PM Pm Pp,
    split slash incoming = [pre; name; v] /\
    parse_version supported = VNum SM Sm Sp /\ parse_version v = VNum PM Pm Pp /\
    SM = PM /\ Pm <= Sm.
Proof. exact match_sound. Qed.
Print Assumptions C16_sound.
(* Routing among the descriptors a node registered (pairwise distinct names, as the three protocols of the
   node are): an identifier is matched by at most one of them, so "routed to a protocol handler exactly when
   ..." names a unique handler.  The correspondence check drives this through two real services (class
   "routing": several descriptors registered in one AddStreamHandlers call and in separate calls). *)
Theorem C16_route_unique : forall (descs : list (bytes * bytes)) incoming d1 d2,
  NoDup (map fst descs) -> In d1 descs -> In d2 descs ->
  match_id incoming (fst d1) (snd d1) = Match -> match_id incoming (fst d2) (snd d2) = Match -> d1 = d2.
Proof. exact route_unique. Qed.
Print Assumptions C16_route_unique.

(* "No identifier crashes the node": [match_id] is a total function into a type without a
   crash outcome because the Go function indexes only parts[1], parts[2] after checking
   len(parts) = 3; the absence of panics in the implementation (incl. the version library)
   is observed by the correspondence check, clause "panic". *)
