(* EIP-712 hashing.
   Part I : the hand-rolled encoders of pkg/signer/preconfsigner/signer.go (GetBidHash,
            GetPreConfirmationHash) statement by statement, for an arbitrary hash function K
            (crypto.Keccak256Hash in the code), with the library calls they make modelled at
            byte level: big.Int.SetString(s,10), Sign/BitLen range check, math.U256Bytes,
            hex.EncodeToString.  The pre-fix encoders (no range check) are kept as *_v0.
   Part II: an independent, generic EIP-712 specification written from the EIP text
            (encodeType, typeHash, encodeData for atomic uintN / string / bytes members,
            hashStruct, domain separator, the 0x19 0x01 prefix) and the published schema of
            the two messages as structured data.
   Definitions only.  proofs/Eip712_proofs.v relates the two parts. *)
From Coq Require Import String List NArith ZArith Bool.
From MevVerif Require Import lib.Bytes gen.Generated.
Import ListNotations.
Open Scope N_scope.

(* ------------------------------------------------------------------------------------- *)
(* Messages (gen/go/preconfirmation/v1: Bid, PreConfirmation).  Go strings are byte lists;
   a []byte field is [None] when nil and [Some l] when non-nil (possibly empty); the
   embedded bid pointer is [None] when nil. *)
Record bid := { b_tx : bytes; b_amt : bytes; b_bn : Z; b_ds : Z; b_de : Z;
                b_dig : option bytes; b_sig : option bytes }.
Record preconf := { c_bid : option bid; c_dig : option bytes; c_sig : option bytes; c_prov : bytes }.

Definition obytes (o : option bytes) : bytes := match o with Some l => l | None => [] end.

(* error classes (projected observable of a returned Go error) *)
Definition E_AMOUNT : N := 1.     (* "invalid bid amount" *)

(* ------------------------------------------------------------------------------------- *)
(* Part I.  Library calls at byte level *)

(* big.NewInt(0).SetString(s, 10): optional single sign, then one or more ASCII digits,
   nothing else (no underscores in an explicit base, no spaces); "-0" is 0 *)
Definition parse_amount (s : bytes) : option Z :=
  match s with
  | 43 :: r => match parse_dec r with Some n => Some (Z.of_N n) | None => None end
  | 45 :: r => match parse_dec r with Some n => Some (- Z.of_N n)%Z | None => None end
  | _ => match parse_dec s with Some n => Some (Z.of_N n) | None => None end
  end.

Definition two256 : Z := (2 ^ 256)%Z.

(* bidAmt.Sign() < 0 || bidAmt.BitLen() > 256 *)
Definition amount_out_of_range (v : Z) : bool := (v <? 0)%Z || (two256 <=? v)%Z.

(* math.U256Bytes(v): v & (2^256-1) in two's complement, as 32 big-endian bytes *)
Definition u256bytes (v : Z) : bytes := be 32 (Z.to_N (v mod two256)).

(* the string literals of the two functions, in source order; the error text in between is
   not used.  Selected by position for the first three, by shape for the struct type string
   (first later literal containing an opening bracket) and by position from the end for the
   prefix, so that rewording the error text does not matter. *)
Definition has_paren (l : bytes) : bool := existsb (fun c => c =? 40) l.
Definition lit_domain_type (ls : list bytes) : bytes := nth 0 ls [].
Definition lit_name (ls : list bytes) : bytes := nth 1 ls [].
Definition lit_version (ls : list bytes) : bytes := nth 2 ls [].
Definition lit_struct_type (ls : list bytes) : bytes :=
  match filter has_paren (skipn 3 ls) with t :: _ => t | [] => [] end.
Definition lit_prefix (ls : list bytes) : bytes := last ls [].

Section Code.
  Variable K : bytes -> bytes.

  (* the var (...) block shared by both functions *)
  Definition domain_separator_of (ls : list bytes) : bytes :=
    let domainTypeHash := K (lit_domain_type ls) in
    let nameHash := K (lit_name ls) in
    let versionHash := K (lit_version ls) in
    K (domainTypeHash ++ nameHash ++ versionHash).

  (* GetBidHash from "eip712MessageTypeHash :=" on, the amount already parsed *)
  Definition bid_hash_tail (b : bid) (bidAmt : Z) : bytes :=
    let ls := c03_bid_strings in
    let domainSeparatorBid := domain_separator_of ls in
    let eip712MessageTypeHash := K (lit_struct_type ls) in
    let txnHashHash := K (b_tx b) in
    let data := eip712MessageTypeHash ++ txnHashHash in
    let data := data ++ u256bytes bidAmt in
    let data := data ++ u256bytes (b_bn b) in
    let data := data ++ u256bytes (b_ds b) in
    let data := data ++ u256bytes (b_de b) in
    let dataHash := K data in
    let rawData := lit_prefix ls ++ (domainSeparatorBid ++ dataHash) in
    K rawData.

  Definition bid_hash (b : bid) : outcome bytes :=
    match parse_amount (b_amt b) with
    | None => Err E_AMOUNT
    | Some bidAmt =>
        if amount_out_of_range bidAmt then Err E_AMOUNT else Ok (bid_hash_tail b bidAmt)
    end.

  (* before commit 7ab670a: only [!ok] was tested *)
  Definition bid_hash_v0 (b : bid) : outcome bytes :=
    match parse_amount (b_amt b) with
    | None => Err E_AMOUNT
    | Some bidAmt => Ok (bid_hash_tail b bidAmt)
    end.

  (* GetPreConfirmationHash; [b] is c.Bid *)
  Definition commitment_hash_tail (b : bid) (bidAmt : Z) : bytes :=
    let ls := c03_commit_strings in
    let domainSeparatorBid := domain_separator_of ls in
    let eip712MessageTypeHash := K (lit_struct_type ls) in
    let txnHashHash := K (b_tx b) in
    let bidDigestHash := K (hex (obytes (b_dig b))) in
    let bidSigHash := K (hex (obytes (b_sig b))) in
    let data := eip712MessageTypeHash ++ txnHashHash in
    let data := data ++ u256bytes bidAmt in
    let data := data ++ u256bytes (b_bn b) in
    let data := data ++ u256bytes (b_ds b) in
    let data := data ++ u256bytes (b_de b) in
    let data := data ++ bidDigestHash in
    let data := data ++ bidSigHash in
    let dataHash := K data in
    let rawData := lit_prefix ls ++ (domainSeparatorBid ++ dataHash) in
    K rawData.

  (* c.Bid is dereferenced without a check inside GetPreConfirmationHash: nil panics *)
  Definition commitment_hash (c : preconf) : outcome bytes :=
    match c_bid c with
    | None => Panic
    | Some b =>
        match parse_amount (b_amt b) with
        | None => Err E_AMOUNT
        | Some bidAmt =>
            if amount_out_of_range bidAmt then Err E_AMOUNT else Ok (commitment_hash_tail b bidAmt)
        end
    end.

  Definition commitment_hash_v0 (c : preconf) : outcome bytes :=
    match c_bid c with
    | None => Panic
    | Some b =>
        match parse_amount (b_amt b) with
        | None => Err E_AMOUNT
        | Some bidAmt => Ok (commitment_hash_tail b bidAmt)
        end
    end.
End Code.

(* ------------------------------------------------------------------------------------- *)
(* Part II.  Generic EIP-712 (https://eips.ethereum.org/EIPS/eip-712), the fragment with
   atomic unsigned integers and the dynamic types; struct-typed members and arrays are not
   in this fragment (neither message uses them). *)

Inductive ty := TUint (bits : N) | TString | TBytes.
Inductive value := VUint (n : N) | VString (s : bytes) | VBytes (s : bytes).
Record member := { m_type : ty; m_name : bytes }.
Record struct_type := { s_name : bytes; s_members : list member }.

(* "uint8 to uint256" / "bytes and string" *)
Definition type_name (t : ty) : bytes :=
  match t with
  | TUint bits => bos "uint" ++ show_dec bits
  | TString => bos "string"
  | TBytes => bos "bytes"
  end.

(* encodeType: name ‖ "(" ‖ member1 ‖ "," ‖ member2 ‖ … ‖ ")", each member  type ‖ " " ‖ name *)
Definition encode_member (m : member) : bytes := type_name (m_type m) ++ 32 :: m_name m.
Definition encode_type (s : struct_type) : bytes :=
  s_name s ++ 40 :: join 44 (map encode_member (s_members s)) ++ [41].

Definition value_has_type (t : ty) (v : value) : bool :=
  match t, v with
  | TUint bits, VUint n => (bits <=? 256) && (n <? 2 ^ bits)
  | TString, VString _ => true
  | TBytes, VBytes _ => true
  | _, _ => false
  end.
Fixpoint well_typed (ms : list member) (vs : list value) : bool :=
  match ms, vs with
  | [], [] => true
  | m :: ms', v :: vs' => value_has_type (m_type m) v && well_typed ms' vs'
  | _, _ => false
  end.

Section Spec.
  Variable K : bytes -> bytes.

  (* typeHash = keccak256(encodeType(typeOf(s))) *)
  Definition type_hash (s : struct_type) : bytes := K (encode_type s).

  (* atomic values: 256-bit big-endian, zero-extended; bytes and string: keccak256 of the
     contents *)
  Definition encode_value (v : value) : bytes :=
    match v with
    | VUint n => be 32 n
    | VString s => K s
    | VBytes s => K s
    end.
  (* encodeData(s) = enc(value1) ‖ … ‖ enc(valuen), each exactly 32 bytes *)
  Definition encode_data (vs : list value) : bytes := concat (map encode_value vs).

  (* hashStruct(s) = keccak256(typeHash ‖ encodeData(s)) *)
  Definition hash_struct (s : struct_type) (vs : list value) : bytes :=
    K (type_hash s ++ encode_data vs).

  (* encode(domainSeparator, message) = "\x19\x01" ‖ domainSeparator ‖ hashStruct(message),
     domainSeparator = hashStruct(eip712Domain); the signed digest is its keccak256 *)
  Definition eip712_hash (dom : struct_type) (dvs : list value)
                         (s : struct_type) (vs : list value) : bytes :=
    K (25 :: 1 :: hash_struct dom dvs ++ hash_struct s vs).
End Spec.

(* The published schema (contracts: PreConfCommitmentStore; DESIGN C03), as structured data.
   EIP712Domain here has the two optional fields name and version only. *)
Definition domain_schema : struct_type :=
  {| s_name := bos "EIP712Domain";
     s_members := [ {| m_type := TString; m_name := bos "name" |};
                    {| m_type := TString; m_name := bos "version" |} ] |}.
Definition bid_domain : list value := [VString (bos "PreConfBid"); VString (bos "1")].
Definition commitment_domain : list value := [VString (bos "PreConfCommitment"); VString (bos "1")].

Definition bid_members : list member :=
  [ {| m_type := TString;  m_name := bos "txnHash" |};
    {| m_type := TUint 64; m_name := bos "bid" |};
    {| m_type := TUint 64; m_name := bos "blockNumber" |};
    {| m_type := TUint 64; m_name := bos "decayStartTimeStamp" |};
    {| m_type := TUint 64; m_name := bos "decayEndTimeStamp" |} ].
Definition bid_schema : struct_type := {| s_name := bos "PreConfBid"; s_members := bid_members |}.
Definition commitment_schema : struct_type :=
  {| s_name := bos "PreConfCommitment";
     s_members := bid_members ++ [ {| m_type := TString; m_name := bos "bidHash" |};
                                   {| m_type := TString; m_name := bos "signature" |} ] |}.

(* the typed-data message of a bid with integer amount A, and of the commitment on a bid
   whose digest and signature are rendered in lowercase hexadecimal *)
Definition bid_values (tx : bytes) (A bn ds de : N) : list value :=
  [VString tx; VUint A; VUint bn; VUint ds; VUint de].
Definition commitment_values (tx : bytes) (A bn ds de : N) (dig sig : bytes) : list value :=
  bid_values tx A bn ds de ++ [VString (hex dig); VString (hex sig)].

Definition eip712_bid (K : bytes -> bytes) (tx : bytes) (A bn ds de : N) : bytes :=
  eip712_hash K domain_schema bid_domain bid_schema (bid_values tx A bn ds de).
Definition eip712_commitment (K : bytes -> bytes) (tx : bytes) (A bn ds de : N) (dig sig : bytes) : bytes :=
  eip712_hash K domain_schema commitment_domain commitment_schema
              (commitment_values tx A bn ds de dig sig).

(* ------------------------------------------------------------------------------------- *)
(* The byte strings the two encoders feed to K that depend on the message (the constant
   type/domain strings are the same in every computation): the tx-hash string, the struct
   encoding [data], the final [rawData], and for commitments the two hex strings.  They are
   named here so that the binding theorems can say WHICH pre-images collide. *)
Definition bid_amount (b : bid) : Z := match parse_amount (b_amt b) with Some A => A | None => 0%Z end.

Section Preimages.
  Variable K : bytes -> bytes.

  Definition bid_data (b : bid) (A : Z) : bytes :=
    ((((K (lit_struct_type c03_bid_strings) ++ K (b_tx b)) ++ u256bytes A) ++ u256bytes (b_bn b)) ++
     u256bytes (b_ds b)) ++ u256bytes (b_de b).
  Definition bid_raw (b : bid) (A : Z) : bytes :=
    lit_prefix c03_bid_strings ++ (domain_separator_of K c03_bid_strings ++ K (bid_data b A)).

  Definition commitment_data (b : bid) (A : Z) : bytes :=
    ((((((K (lit_struct_type c03_commit_strings) ++ K (b_tx b)) ++ u256bytes A) ++ u256bytes (b_bn b)) ++
       u256bytes (b_ds b)) ++ u256bytes (b_de b)) ++ K (hex (obytes (b_dig b)))) ++ K (hex (obytes (b_sig b))).
  Definition commitment_raw (b : bid) (A : Z) : bytes :=
    lit_prefix c03_commit_strings ++ (domain_separator_of K c03_commit_strings ++ K (commitment_data b A)).

  (* position-wise pairs of the message-dependent pre-images of two computations *)
  Definition bid_preimage_pairs (b1 b2 : bid) : list (bytes * bytes) :=
    [ (bid_raw b1 (bid_amount b1), bid_raw b2 (bid_amount b2));
      (bid_data b1 (bid_amount b1), bid_data b2 (bid_amount b2));
      (b_tx b1, b_tx b2) ].
  Definition commitment_preimage_pairs (b1 b2 : bid) : list (bytes * bytes) :=
    [ (commitment_raw b1 (bid_amount b1), commitment_raw b2 (bid_amount b2));
      (commitment_data b1 (bid_amount b1), commitment_data b2 (bid_amount b2));
      (b_tx b1, b_tx b2);
      (hex (obytes (b_dig b1)), hex (obytes (b_dig b2)));
      (hex (obytes (b_sig b1)), hex (obytes (b_sig b2))) ].

  (* a collision of K among the listed pairs: two DIFFERENT pre-images, taken from the same
     position of the two computations, with one image *)
  Definition collision_among (ps : list (bytes * bytes)) : Prop :=
    exists x y, In (x, y) ps /\ x <> y /\ K x = K y.
End Preimages.

(* ------------------------------------------------------------------------------------- *)
(* The ORDER in which the two encoders append the members to [data], tied to the source: the
   right-hand sides of the assignments to [data] in GetBidHash / GetPreConfirmationHash are
   regenerated from signer.go (c03_bid_data_chain, c03_commit_data_chain); each is classified
   by the member it mentions, and the model's order below is proved to be the classified order
   (Eip712_proofs.data_chain_order), so that swapping two appends breaks a reflexivity fact. *)
Inductive data_item := DTypeAndTx | DAmount | DBlock | DStart | DEnd | DBidDigest | DBidSig.

Fixpoint is_prefix (p l : bytes) : bool :=
  match p, l with
  | [], _ => true
  | a :: p', b :: l' => (a =? b) && is_prefix p' l'
  | _ :: _, [] => false
  end.
Fixpoint contains (needle hay : bytes) : bool :=
  is_prefix needle hay || match hay with [] => false | _ :: r => contains needle r end.

Definition classify_item (e : bytes) : option data_item :=
  if contains (bos "TypeHash") e && contains (bos "txnHash") e then Some DTypeAndTx
  else if contains (bos "BlockNumber") e then Some DBlock
  else if contains (bos "DecayStart") e then Some DStart
  else if contains (bos "DecayEnd") e then Some DEnd
  else if contains (bos "Digest") e then Some DBidDigest
  else if contains (bos "Sig") e then Some DBidSig
  else if contains (bos "Amt") e || contains (bos "Amount") e then Some DAmount
  else None.
(* every later step appends to what is already there *)
Definition appends_to_data (e : bytes) : bool := is_prefix (bos "append(data,") e.

Definition bid_item_order : list data_item := [DTypeAndTx; DAmount; DBlock; DStart; DEnd].
Definition commitment_item_order : list data_item := bid_item_order ++ [DBidDigest; DBidSig].

Definition item_bytes (K : bytes -> bytes) (ls : list bytes) (b : bid) (A : Z) (it : data_item) : bytes :=
  match it with
  | DTypeAndTx => K (lit_struct_type ls) ++ K (b_tx b)
  | DAmount => u256bytes A
  | DBlock => u256bytes (b_bn b)
  | DStart => u256bytes (b_ds b)
  | DEnd => u256bytes (b_de b)
  | DBidDigest => K (hex (obytes (b_dig b)))
  | DBidSig => K (hex (obytes (b_sig b)))
  end.
