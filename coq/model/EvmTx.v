(* Model of the request-to-transaction mapping of pkg/evmclient/evmclient.go as the code is now:
   EvmClient.newTx, suggestMaxFeeAndTipCap and the part of EvmClient.Send that hands the built
   transaction to the key signer and to the chain node, with the VALUES the chain node answered
   (model/EvmSend.v keeps only whether each call succeeded).  The nonce is the one of the C08
   machine: [send_tx] calls EvmSend.get_nonce / EvmSend.allow_nonce and the erasure of its result
   is EvmSend.send (proofs/EvmTx_proofs.v).  Definitions only.

   Signing: keySigner.SignTx(txnData, c.chainID) returns a transaction with the same payload and a
   signature (types.SignTx / WithSignature copy the inner transaction); the payload of the signed
   transaction is what the model calls the transaction on the wire.  The driver checks it on every case
   by decoding the raw bytes the endpoint received and recovering the sender. *)
From Coq Require Import List NArith ZArith Bool.
From MevVerif Require Import lib.Bytes gen.Generated model.EvmSend.
Import ListNotations.
Open Scope N_scope.

(* evmclient.TxRequest.  To is a pointer: None = nil *)
Record txreq := { rq_to : option bytes;
                  rq_data : bytes;            (* CallData *)
                  rq_price : option Z;        (* GasPrice, None = nil *)
                  rq_gas : N;                 (* GasLimit, 0 = estimate it *)
                  rq_feecap : option Z;       (* GasFeeCap: not read by newTx *)
                  rq_value : option Z }.      (* Value, None = nil *)

(* what the chain node (and the key signer) answer to the calls made for one Send; None = error *)
Record node_ans := { a_pending : option N;    (* PendingNonceAt *)
                     a_est : option N;        (* EstimateGas *)
                     a_tip : option Z;        (* SuggestGasTipCap *)
                     a_price : option Z;      (* SuggestGasPrice *)
                     a_sign : bool;           (* keySigner.SignTx *)
                     a_submit : bool }.       (* SendTransaction *)

(* types.DynamicFeeTx as built by newTx (the access list is never set) *)
Record dyntx := { tx_chain : Z; tx_nonce : N; tx_tip : Z; tx_feecap : Z; tx_gas : N;
                  tx_to : option bytes; tx_value : Z; tx_data : bytes }.

(* ethereum.CallMsg handed to EstimateGas *)
Record callmsg := { cm_from : bytes; cm_to : option bytes; cm_data : bytes; cm_value : option Z }.

(* calls that reach the chain node on behalf of one Send, in order *)
Inductive call :=
| CPending                  (* PendingNonceAt(owner) *)
| CEstimate (m : callmsg)
| CTip
| CPrice
| CSubmit (t : dyntx).      (* SendTransaction(signed transaction with this payload) *)

(* types.NewTx copies a nil *big.Int as zero *)
Definition big_or_zero (v : option Z) : Z := match v with Some z => z | None => 0%Z end.

(* newTx (with suggestMaxFeeAndTipCap inlined): the transaction, if one could be built, and the
   chain-node calls made.  Order in the source: EstimateGas only when req.GasLimit == 0, then
   SuggestGasTipCap, then SuggestGasPrice only when req.GasPrice == nil.  suggestMaxFeeAndTipCap
   returns (gasPrice, gasTipCap) and newTx binds them to (gasFeeCap, gasTipCap): the fee cap is the
   caller's GasPrice when given, else the node's suggested gas price. *)
Definition new_tx (chain : Z) (owner : bytes) (rq : txreq) (a : node_ans) (nonce : N)
  : option dyntx * list call :=
  let m := {| cm_from := owner; cm_to := rq_to rq; cm_data := rq_data rq; cm_value := rq_value rq |} in
  let est_calls := if rq_gas rq =? 0 then [CEstimate m] else [] in
  match (if rq_gas rq =? 0 then a_est a else Some (rq_gas rq)) with
  | None => (None, est_calls)
  | Some gas =>
      match a_tip a with
      | None => (None, est_calls ++ [CTip])
      | Some tip =>
          let build fee := {| tx_chain := chain; tx_nonce := nonce; tx_tip := tip; tx_feecap := fee;
                              tx_gas := gas; tx_to := rq_to rq; tx_value := big_or_zero (rq_value rq);
                              tx_data := rq_data rq |} in
          match rq_price rq with
          | Some p => (Some (build p), est_calls ++ [CTip])
          | None =>
              match a_price a with
              | None => (None, est_calls ++ [CTip; CPrice])
              | Some p => (Some (build p), est_calls ++ [CTip; CPrice])
              end
          end
      end
  end.

(* TNoTx: nothing reached the node; TRejected t: t reached the node, which answered an error;
   TAccepted t: the node took t and Send returned its hash;
   TAcceptedThenPanic t: the node took t, the counter was advanced, and the log statement that follows
   (txnString: tx.To().Hex()) dereferenced the nil To -- only for requests with To == nil. *)
Inductive tx_result := TNoTx | TRejected (t : dyntx) | TAccepted (t : dyntx) | TAcceptedThenPanic (t : dyntx).

(* EvmClient.Send under the client mutex: (new c.nonce, outcome, calls that reached the node) *)
Definition send_tx (chain : Z) (owner : bytes) (ctr conf : N) (rq : txreq) (a : node_ans)
  : N * tx_result * list call :=
  match a_pending a with
  | None => (ctr, TNoTx, [CPending])
  | Some p =>
      let '(ctr1, n) := get_nonce ctr p in
      if negb (allow_nonce conf n) then (ctr1, TNoTx, [CPending])
      else
        match new_tx chain owner rq a n with
        | (None, calls) => (ctr1, TNoTx, CPending :: calls)
        | (Some t, calls) =>
            if negb (a_sign a) then (ctr1, TNoTx, CPending :: calls)
            else if negb (a_submit a) then (ctr1, TRejected t, CPending :: calls ++ [CSubmit t])
            else ((ctr1 + 1) mod w64,
                  match rq_to rq with Some _ => TAccepted t | None => TAcceptedThenPanic t end,
                  CPending :: calls ++ [CSubmit t])
        end
  end.

(* the request preconfContract.StoreCommitment hands to client.Send:
   &evmclient.TxRequest{To: &p.preconfContractAddr, CallData: callData} (source text pinned by
   Generated.c07_send_args) *)
Definition store_request (contract calldata : bytes) : txreq :=
  {| rq_to := Some contract; rq_data := calldata; rq_price := None; rq_gas := 0; rq_feecap := None;
     rq_value := None |}.

(* --- erasure to the C08 machine --------------------------------------------------------------- *)
Definition is_some {A} (o : option A) : bool := match o with Some _ => true | None => false end.
Definition req_of (rq : txreq) : request :=
  {| gas_given := negb (rq_gas rq =? 0); price_given := is_some (rq_price rq) |}.
Definition ans_of (a : node_ans) : answers :=
  {| pending := a_pending a; est_ok := is_some (a_est a); tip_ok := is_some (a_tip a);
     price_ok := is_some (a_price a); sign_ok := a_sign a; submit_ok := a_submit a |}.
Definition erase (r : tx_result) : result :=
  match r with
  | TNoTx => NoTx
  | TRejected t => Rejected (tx_nonce t)
  | TAccepted t | TAcceptedThenPanic t => Accepted (tx_nonce t)
  end.
Definition tx_of (r : tx_result) : option dyntx :=
  match r with TNoTx => None | TRejected t | TAccepted t | TAcceptedThenPanic t => Some t end.

(* --- histories on one client (the confirmed nonce is a parameter of each step) ------------------- *)
Fixpoint run_tx (chain : Z) (owner : bytes) (ctr : N) (l : list (N * txreq * node_ans))
  : list (tx_result * list call) :=
  match l with
  | [] => []
  | (conf, rq, a) :: r =>
      let '(ctr', res, calls) := send_tx chain owner ctr conf rq a in
      (res, calls) :: run_tx chain owner ctr' r
  end.

(* --- fee vocabulary (EIP-1559, as the chain node applies it) -------------------------------------- *)
(* accepted by a node's pool only if the tip does not exceed the fee cap *)
Definition fee_wellformed (t : dyntx) : bool := (0 <=? tx_tip t)%Z && (tx_tip t <=? tx_feecap t)%Z.
(* includable in a block whose base fee is [base] *)
Definition includable (t : dyntx) (base : Z) : bool := (base <=? tx_feecap t)%Z.
(* what the sender pays per gas in such a block, and what the block producer receives of it *)
Definition effective_price (t : dyntx) (base : Z) : Z := Z.min (tx_feecap t) (base + tx_tip t).
Definition effective_tip (t : dyntx) (base : Z) : Z := (effective_price t base - base)%Z.
