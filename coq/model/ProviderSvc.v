(* Model of the provider-API service (pkg/rpc/provider/service.go): ProcessBid, ReceiveBids,
   SendProcessedBids, the map bidsInProcess and the one-shot result channels.
   Definitions only.

   Granularity: one event per mutex-protected critical section / channel operation.
     Submit h b      ProcessBid entered by caller h: Validate, make(chan,1), register the callback
                     under bidsMu (overwriting an entry with an equal digest), reach the select
     EngineTake h    the select of call h takes the branch  s.receiver <- bidMsg  (the other end
                     is ReceiveBids, which passes the message to srv.Send); ProcessBid returns respC
     Abandon h       the select of call h takes  <-ctx.Done() : delete(bidsInProcess, digest),
                     ProcessBid returns ctx.Err()
     Lookup sid d st one iteration of SendProcessedBids on stream sid up to bidsMu.Unlock():
                     Validate, lookup, delete
     Callback sid    the rest of that iteration:  callback(status)  =  respC <- status; close(respC)
     RecvErr sid     srv.Recv() of stream sid returns an error
   Any number of calls and any number of concurrently open decision streams.
   A send on a closed channel is the explicit outcome [panicked]. *)
From Coq Require Import List NArith ZArith Bool.
From MevVerif Require Import lib.Bytes model.Rules.
Import ListNotations.
Open Scope N_scope.

(* preconfpb.Bid as received from the bidder *)
Record bid := { b_tx : bytes; b_amt : bytes; b_bn : Z; b_ds : Z; b_de : Z; b_dig : bytes; b_sig : bytes }.
(* providerapiv1.Bid as emitted to the engine *)
Record engine_bid := { e_txs : list bytes; e_amt : bytes; e_bn : Z; e_dig : bytes; e_ds : Z; e_de : Z }.

Definition comma : N := 44.
Definition to_engine (b : bid) : engine_bid :=
  {| e_txs := split comma (b_tx b); e_amt := b_amt b; e_bn := b_bn b; e_dig := b_dig b;
     e_ds := b_ds b; e_de := b_de b |}.

(* the two uses of s.validator.Validate: on the engine bid, on the decision (digest, status) *)
Record validators := { vbid : engine_bid -> bool; vresp : bytes -> Z -> bool }.

(* the published format rules (model/Rules.v) as the validator of the running service *)
Definition rules_validators : validators :=
  {| vbid := fun e => provider_bid_ok (e_txs e) (e_amt e) (e_bn e) (e_dig e) (e_ds e) (e_de e);
     vresp := provider_response_ok |}.

(* --- association lists ------------------------------------------------------------------ *)
Fixpoint nget {A} (k : N) (l : list (N * A)) : option A :=
  match l with
  | [] => None
  | (k', v) :: r => if k =? k' then Some v else nget k r
  end.
Definition ndel {A} (k : N) (l : list (N * A)) : list (N * A) :=
  filter (fun e => negb (k =? fst e)) l.
Definition nset {A} (k : N) (v : A) (l : list (N * A)) : list (N * A) := (k, v) :: ndel k l.

(* bidsInProcess: string(digest) -> callback; the callback is identified with its channel *)
Fixpoint pget (d : bytes) (l : list (bytes * N)) : option N :=
  match l with
  | [] => None
  | (d', v) :: r => if bytes_eqb d d' then Some v else pget d r
  end.
Definition pdel (d : bytes) (l : list (bytes * N)) : list (bytes * N) :=
  filter (fun e => negb (bytes_eqb d (fst e))) l.
Definition pset (d : bytes) (v : N) (l : list (bytes * N)) : list (bytes * N) := (d, v) :: pdel d l.

(* --- state ------------------------------------------------------------------------------ *)
(* make(chan Status, 1) used by exactly: one send followed by close (callback); receives *)
Inductive chan := CEmpty | CFull (st : Z) | CDrained.
(* one ProcessBid call *)
Inductive cstate := POffered (b : bid) | PHanded (b : bid) | PAbandoned (b : bid) | PRefused (b : bid).
(* one SendProcessedBids stream *)
Inductive sstate := SIdle | SCalling (ch : N) (d : bytes) (st : Z) | SEnded.

Inductive effect :=
| EEngine (h : N) (e : engine_bid)            (* message handed to ReceiveBids / srv.Send *)
| EDeliver (ch : N) (d : bytes) (st : Z)      (* value st sent on channel ch and ch closed *)
| EIgnore (sid : N) (d : bytes) (st : Z)      (* well-formed decision without entry *)
| EStreamEnd (sid : N) (by_service : bool).   (* SendProcessedBids returned; true: Validate failed *)

Record svc := { pending : list (bytes * N); calls : list (N * cstate); chans : list (N * chan);
                streams : list (N * sstate); eff : list effect (* newest first *); panicked : bool }.

Definition init : svc :=
  {| pending := []; calls := []; chans := []; streams := []; eff := []; panicked := false |}.

Definition cget (ch : N) (s : svc) : chan := match nget ch (chans s) with Some c => c | None => CEmpty end.
Definition sget (sid : N) (s : svc) : sstate := match nget sid (streams s) with Some x => x | None => SIdle end.

Definition with_pending p (s : svc) := {| pending := p; calls := calls s; chans := chans s; streams := streams s; eff := eff s; panicked := panicked s |}.
Definition with_calls c (s : svc) := {| pending := pending s; calls := c; chans := chans s; streams := streams s; eff := eff s; panicked := panicked s |}.
Definition with_chans c (s : svc) := {| pending := pending s; calls := calls s; chans := c; streams := streams s; eff := eff s; panicked := panicked s |}.
Definition with_streams x (s : svc) := {| pending := pending s; calls := calls s; chans := chans s; streams := x; eff := eff s; panicked := panicked s |}.
Definition add_eff e (s : svc) := {| pending := pending s; calls := calls s; chans := chans s; streams := streams s; eff := e :: eff s; panicked := panicked s |}.
Definition with_panic (s : svc) := {| pending := pending s; calls := calls s; chans := chans s; streams := streams s; eff := eff s; panicked := true |}.

(* --- operations --------------------------------------------------------------------------- *)
Definition submit (V : validators) (h : N) (b : bid) (s : svc) : svc :=
  match nget h (calls s) with
  | Some _ => s                                   (* identifiers of calls are fresh *)
  | None =>
      if vbid V (to_engine b) then
        with_pending (pset (b_dig b) h (pending s))
          (with_chans (nset h CEmpty (chans s)) (with_calls (nset h (POffered b) (calls s)) s))
      else with_calls (nset h (PRefused b) (calls s)) s
  end.

Definition take (h : N) (s : svc) : svc :=
  match nget h (calls s) with
  | Some (POffered b) => add_eff (EEngine h (to_engine b)) (with_calls (nset h (PHanded b) (calls s)) s)
  | _ => s
  end.

Definition abandon (h : N) (s : svc) : svc :=
  match nget h (calls s) with
  | Some (POffered b) => with_pending (pdel (b_dig b) (pending s)) (with_calls (nset h (PAbandoned b) (calls s)) s)
  | _ => s
  end.

Definition lookup (V : validators) (sid : N) (d : bytes) (st : Z) (s : svc) : svc :=
  match sget sid s with
  | SIdle =>
      if vresp V d st then
        match pget d (pending s) with
        | Some ch => with_pending (pdel d (pending s)) (with_streams (nset sid (SCalling ch d st) (streams s)) s)
        | None => add_eff (EIgnore sid d st) s
        end
      else add_eff (EStreamEnd sid true) (with_streams (nset sid SEnded (streams s)) s)
  | _ => s
  end.

Definition callback (sid : N) (s : svc) : svc :=
  match sget sid s with
  | SCalling ch d st =>
      match cget ch s with
      | CEmpty => add_eff (EDeliver ch d st)
                    (with_chans (nset ch (CFull st) (chans s)) (with_streams (nset sid SIdle (streams s)) s))
      | _ => with_panic (with_streams (nset sid SEnded (streams s)) s)   (* send on closed channel *)
      end
  | _ => s
  end.

Definition recv_err (sid : N) (s : svc) : svc :=
  match sget sid s with
  | SIdle => add_eff (EStreamEnd sid false) (with_streams (nset sid SEnded (streams s)) s)
  | _ => s
  end.

(* consumer side of a result channel: a receive that finds a value *)
Definition chan_recv (h : N) (s : svc) : option Z * svc :=
  match cget h s with
  | CFull st => (Some st, with_chans (nset h CDrained (chans s)) s)
  | _ => (None, s)
  end.

Inductive event :=
| Submit (h : N) (b : bid) | EngineTake (h : N) | Abandon (h : N)
| Lookup (sid : N) (d : bytes) (st : Z) | Callback (sid : N) | RecvErr (sid : N).

(* a panic ends the process: nothing happens afterwards *)
Definition step (V : validators) (s : svc) (e : event) : svc :=
  if panicked s then s else
  match e with
  | Submit h b => submit V h b s
  | EngineTake h => take h s
  | Abandon h => abandon h s
  | Lookup sid d st => lookup V sid d st s
  | Callback sid => callback sid s
  | RecvErr sid => recv_err sid s
  end.

Definition run (V : validators) (evs : list event) : svc := fold_left (step V) evs init.

(* --- projections used by theorems and by the correspondence check ------------------------- *)
Definition delivered (s : svc) : list N :=
  flat_map (fun e => match e with EDeliver ch _ _ => [ch] | _ => [] end) (eff s).
Definition emitted (s : svc) : list (N * engine_bid) :=
  rev (flat_map (fun e => match e with EEngine h b => [(h, b)] | _ => [] end) (eff s)).
Definition calling (l : list (N * sstate)) : list N :=
  flat_map (fun e => match snd e with SCalling ch _ _ => [ch] | _ => [] end) l.
Definition call_digest (c : cstate) : bytes :=
  match c with POffered b | PHanded b | PAbandoned b | PRefused b => b_dig b end.
