(* C15 -- executable model of pkg/topology/topology.go (Topology: add, Connected, Disconnected,
   AddPeers, GetPeers, IsConnected) and of pkg/discovery/discovery.go (BroadcastPeers,
   handlePeersList, checkAndAddPeers) wired together as pkg/node/node.go does
   (topology.New(p2pSvc) ; discovery.New(topo, p2pSvc) ; topo.SetAnnouncer(disc)).
   Definitions only.

   Granularity: one event = one critical section / one library call result.
     Connected p      Notifier.Connected(p)  (whole body; broadcasts are synchronous calls)
     AddPeers ps      Topology.AddPeers(ps...) called from outside discovery
     Disconnected p   Notifier.Disconnected(p)
     Gossip ...       one run of the handlePeersList loop over a received list: every entry is
                      checked with IsConnected and, when unknown, handed to the worker which
                      calls Connect(underlay); the Connect calls stay in flight
     ConnectDone u r  one in-flight Connect(u) returns r; on success the worker calls
                      topo.AddPeers(p)
   A received list whose dials complete while the loop is still running is the same code path as
   several shorter lists interleaved with ConnectDone events, so arbitrary event lists cover every
   schedule of the list handler and its workers at this granularity.  The worker pool bound
   (checkWorkers) only delays dials; it is not modelled and the correspondence keeps fewer dials in
   flight than that.
   Connected is NOT one critical section in the code: the [Connected] event is a call that runs
   without interruption; overlapping calls are covered by the step model at the end of this file
   (SAdd / SReadProviders / SAnnounce / SReadBidders / SFanout with per-call snapshots), of which
   the atomic event is the sequential composition.  add / Disconnected / AddPeers are single
   critical sections, so the view theorems are not affected.

   External answers are carried by the events: address-book lookups as a table (a peer that is
   not in the table has no record: GetPeerInfo fails), announcement faults as a table (recipient
   -> 1 = NewStream fails, 2 = WriteMsg fails; absent = delivered), Connect results in ConnectDone. *)
From Coq Require Import List NArith ZArith Bool.
From MevVerif Require Import lib.Bytes.
Import ListNotations.
Open Scope N_scope.

Definition addr := N.                       (* common.Address as a 160-bit big-endian number *)
Record peer := mkPeer { p_addr : addr; p_role : Z }.   (* p2p.Peer{EthAddress, Type} *)

(* p2p.PeerType: iota constants of pkg/p2p/p2p.go (the driver reports the compiled values in every
   case and the check compares them with these) *)
Definition ROLE_BOOTNODE : Z := 0%Z.
Definition ROLE_PROVIDER : Z := 1%Z.
Definition ROLE_BIDDER : Z := 2%Z.

Definition peer_eqb (p q : peer) : bool := (p_addr p =? p_addr q) && (p_role p =? p_role q)%Z.

(* --- Go maps keyed by address ------------------------------------------------------------- *)
Definition pmap := list peer.
Definition m_del (a : addr) (m : pmap) : pmap := filter (fun q => negb (p_addr q =? a)) m.
Definition m_put (p : peer) (m : pmap) : pmap := p :: m_del (p_addr p) m.     (* m[p.addr] = p *)
Definition m_has (a : addr) (m : pmap) : bool := existsb (fun q => p_addr q =? a) m.

(* --- tables carried by events ---------------------------------------------------------------- *)
Fixpoint tbl_get {A : Type} (t : list (peer * A)) (q : peer) : option A :=
  match t with
  | [] => None
  | (k, v) :: r => if peer_eqb k q then Some v else tbl_get r q
  end.

Definition record := (addr * bytes)%type.            (* p2p.PeerInfo{EthAddress, Underlay} *)
Definition wire_record := (bytes * bytes)%type.      (* discoverypb.PeerInfo{EthAddress, Underlay} *)

Inductive effect :=
| Announce (to : peer) (recs : list record)      (* announcer.BroadcastPeers(ctx, to, recs) called *)
| Wire (to : peer) (recs : list wire_record)     (* PeerList written on a discovery stream to [to] *)
| Dial (u : bytes)                               (* streamer.Connect(ctx, u) called *)
| Add (p : peer).                                (* topo.AddPeers(p) called by the discovery worker *)

(* projections of an effect list *)
Definition announces (eff : list effect) : list (peer * list record) :=
  flat_map (fun e => match e with Announce t r => [(t, r)] | _ => [] end) eff.
Definition wires (eff : list effect) : list (peer * list wire_record) :=
  flat_map (fun e => match e with Wire t r => [(t, r)] | _ => [] end) eff.
Definition dials (eff : list effect) : list bytes :=
  flat_map (fun e => match e with Dial u => [u] | _ => [] end) eff.
Definition adds (eff : list effect) : list peer :=
  flat_map (fun e => match e with Add p => [p] | _ => [] end) eff.

Inductive event :=
| Connected (p : peer) (lk : list (peer * bytes)) (ann : list (peer * N))
| AddPeers (ps : list peer)
| Disconnected (p : peer)
| Gossip (from : peer) (readok : bool) (entries : list wire_record)
| ConnectDone (u : bytes) (r : option peer).

Record state := mkState { providers : pmap; bidders : pmap; inflight : list bytes }.
Definition init : state := mkState [] [] [].

(* --- topology.go ----------------------------------------------------------------------------- *)
(* func (t *Topology) add(p) : switch p.Type *)
Definition add (p : peer) (s : state) : state :=
  if (p_role p =? ROLE_PROVIDER)%Z then mkState (m_put p (providers s)) (bidders s) (inflight s)
  else if (p_role p =? ROLE_BIDDER)%Z then mkState (providers s) (m_put p (bidders s)) (inflight s)
  else s.

(* func (t *Topology) Disconnected(p) *)
Definition remove (p : peer) (s : state) : state :=
  if (p_role p =? ROLE_PROVIDER)%Z then mkState (m_del (p_addr p) (providers s)) (bidders s) (inflight s)
  else if (p_role p =? ROLE_BIDDER)%Z then mkState (providers s) (m_del (p_addr p) (bidders s)) (inflight s)
  else s.

(* func (t *Topology) GetPeers(q) : switch q.Type (any other type: nil) *)
Definition get_peers (r : Z) (s : state) : list peer :=
  if (r =? ROLE_PROVIDER)%Z then providers s
  else if (r =? ROLE_BIDDER)%Z then bidders s
  else [].

(* func (t *Topology) IsConnected(addr) *)
Definition is_connected (a : addr) (s : state) : bool := m_has a (providers s) || m_has a (bidders s).

(* pkg/debugapi/debugapi.go : handleTopology, projected on connected_peers["providers"] and
   connected_peers["bidders"] (a key that is absent from the JSON is the empty list); the handler is
   registered by node.NewNode on the same Topology object *)
Definition api_view (s : state) : list (list addr) :=
  [map p_addr (get_peers ROLE_PROVIDER s); map p_addr (get_peers ROLE_BIDDER s)].

(* --- discovery.go : BroadcastPeers ----------------------------------------------------------- *)
(* common.Address.Bytes(): 20 bytes big endian ; common.BytesToAddress: the last 20 bytes,
   left-padded *)
Definition addr_bytes (a : addr) : bytes := be 20 a.
Definition addr_of_bytes (b : bytes) : addr := unbe (skipn (length b - 20) b).

Definition encode_records (recs : list record) : list wire_record :=
  map (fun r => (addr_bytes (fst r), snd r)) recs.

(* NewStream error -> return ; else WriteMsg (recorded by the stream whether or not it fails) *)
Definition stream_opens (ann : list (peer * N)) (to : peer) : bool :=
  match tbl_get ann to with Some 1 => false | _ => true end.
Definition broadcast (ann : list (peer * N)) (to : peer) (recs : list record) : list effect :=
  Announce to recs :: (if stream_opens ann to then [Wire to (encode_records recs)] else []).

(* --- topology.go : Connected (announcer set, as wired in node.NewNode) ------------------------ *)
(* for _, peer := range GetPeers(provider) { if same address: continue; lookup; on error continue;
   append } *)
Definition records_for (p : peer) (lk : list (peer * bytes)) (provs : list peer) : list record :=
  flat_map (fun q => if p_addr q =? p_addr p then []
                     else match tbl_get lk q with
                          | None => []
                          | Some u => [(p_addr q, u)]
                          end) provs.

Definition connected_effects (s1 : state) (p : peer) (lk : list (peer * bytes)) (ann : list (peer * N))
  : list effect :=
  let underlays := records_for p lk (get_peers ROLE_PROVIDER s1) in
  (match underlays with [] => [] | _ => broadcast ann p underlays end)
  ++ (if (p_role p =? ROLE_PROVIDER)%Z then
        match tbl_get lk p with
        | None => []                                        (* log and return *)
        | Some u => flat_map (fun b => broadcast ann b [(p_addr p, u)]) (get_peers ROLE_BIDDER s1)
        end
      else []).

(* --- discovery.go : handlePeersList / checkAndAddPeers --------------------------------------- *)
Definition to_dial (s : state) (entries : list wire_record) : list bytes :=
  flat_map (fun e => if is_connected (addr_of_bytes (fst e)) s then [] else [snd e]) entries.

Fixpoint remove1 (u : bytes) (l : list bytes) : list bytes :=
  match l with
  | [] => []
  | v :: r => if bytes_eqb u v then r else v :: remove1 u r
  end.
Definition in_flight (u : bytes) (s : state) : bool := existsb (bytes_eqb u) (inflight s).

Definition step (s : state) (e : event) : state * list effect :=
  match e with
  | Connected p lk ann => let s1 := add p s in (s1, connected_effects s1 p lk ann)
  | AddPeers ps => (fold_left (fun acc p => add p acc) ps s, [])
  | Disconnected p => (remove p s, [])
  | Gossip _ readok entries =>
      if readok then
        let ds := to_dial s entries in
        (mkState (providers s) (bidders s) (inflight s ++ ds), map Dial ds)
      else (s, [])
  | ConnectDone u r =>
      if in_flight u s then
        let s1 := mkState (providers s) (bidders s) (remove1 u (inflight s)) in
        match r with
        | Some p => (add p s1, [Add p])
        | None => (s1, [])
        end
      else (s, [])                        (* no such call in flight: not enabled *)
  end.

Definition run_from (s : state) (evs : list event) : state := fold_left (fun acc e => fst (step acc e)) evs s.
Definition run (evs : list event) : state := run_from init evs.

(* per-event effect lists of a whole history *)
Fixpoint trace_from (s : state) (evs : list event) : list (list effect) :=
  match evs with
  | [] => []
  | e :: r => snd (step s e) :: trace_from (fst (step s e)) r
  end.
Definition trace (evs : list event) : list (list effect) := trace_from init evs.

(* --- specification vocabulary (used by the theorem statements) ------------------------------- *)
(* the peers an event puts into the views when it is executed in state s *)
Definition adds_of (s : state) (e : event) : list peer :=
  match e with
  | Connected p _ _ => [p]
  | AddPeers ps => ps
  | ConnectDone u (Some p) => if in_flight u s then [p] else []
  | _ => []
  end.

(* --- Connected at the granularity of its critical sections ------------------------------------
   The Go body of Connected is not one critical section: add(p) takes and releases the lock;
   GetPeers(provider) takes a read lock later; the address-book lookups and the synchronous
   BroadcastPeers to the newcomer follow; then GetPeers(bidder), the newcomer's own lookup and one
   BroadcastPeers per bidder of that snapshot.  Connected runs concurrently with other Connected /
   Disconnected / AddPeers calls.  The step model below gives every call its own locals (the two
   snapshots) and lets the steps of several calls interleave arbitrarily with each other and with
   the atomic events; the atomic [Connected] event above is the sequential composition
   (proofs: seq_connected).  Steps that are not enabled (unknown call, wrong stage) are no-ops. *)
Record call := mkCall {
  k_peer : peer; k_lk : list (peer * bytes); k_ann : list (peer * N);
  k_pc : N;                 (* 0 added; 1 providers read; 2 newcomer told; 3 bidders read; 4 returned early *)
  k_provs : list peer;      (* snapshot GetPeers(provider) *)
  k_fan : list peer }.      (* bidders of the snapshot GetPeers(bidder) still to be told *)

Record sstate := mkS { base : state; calls : list (N * call) }.
Definition sinit : sstate := mkS init [].

Inductive sevent :=
| SAdd (c : N) (p : peer) (lk : list (peer * bytes)) (ann : list (peer * N))   (* call c starts: t.add(p) *)
| SReadProviders (c : N)          (* peersToBroadcast := GetPeers(provider) *)
| SAnnounce (c : N)               (* lookups; BroadcastPeers(p, underlays) when non-empty *)
| SReadBidders (c : N)            (* if provider: GetPeers(bidder); own lookup (failure: return) *)
| SFanout (c : N)                 (* BroadcastPeers(next bidder of the snapshot, [p's record]) *)
| SOther (e : event).             (* any atomic event of the model above *)

Fixpoint find_call (c : N) (cs : list (N * call)) : option call :=
  match cs with
  | [] => None
  | (d, k) :: r => if d =? c then Some k else find_call c r
  end.
Fixpoint set_call (c : N) (k : call) (cs : list (N * call)) : list (N * call) :=
  match cs with
  | [] => []
  | (d, k0) :: r => if d =? c then (d, k) :: r else (d, k0) :: set_call c k r
  end.

Definition call_done (k : call) : bool :=
  (k_pc k =? 4) || ((k_pc k =? 3) && match k_fan k with [] => true | _ => false end)
  || ((k_pc k =? 2) && negb (p_role (k_peer k) =? ROLE_PROVIDER)%Z).

Definition sstep (s : sstate) (e : sevent) : sstate * list effect :=
  match e with
  | SAdd c p lk ann =>
      match find_call c (calls s) with
      | None => (mkS (add p (base s)) ((c, mkCall p lk ann 0 [] []) :: calls s), [])
      | Some _ => (s, [])
      end
  | SReadProviders c =>
      match find_call c (calls s) with
      | Some k => if k_pc k =? 0 then
                    (mkS (base s) (set_call c (mkCall (k_peer k) (k_lk k) (k_ann k) 1
                                                      (get_peers ROLE_PROVIDER (base s)) []) (calls s)), [])
                  else (s, [])
      | None => (s, [])
      end
  | SAnnounce c =>
      match find_call c (calls s) with
      | Some k => if k_pc k =? 1 then
                    (mkS (base s) (set_call c (mkCall (k_peer k) (k_lk k) (k_ann k) 2 (k_provs k) []) (calls s)),
                     match records_for (k_peer k) (k_lk k) (k_provs k) with
                     | [] => []
                     | recs => broadcast (k_ann k) (k_peer k) recs
                     end)
                  else (s, [])
      | None => (s, [])
      end
  | SReadBidders c =>
      match find_call c (calls s) with
      | Some k => if k_pc k =? 2 then
                    if (p_role (k_peer k) =? ROLE_PROVIDER)%Z then
                      match tbl_get (k_lk k) (k_peer k) with
                      | Some _ => (mkS (base s) (set_call c (mkCall (k_peer k) (k_lk k) (k_ann k) 3 (k_provs k)
                                                               (get_peers ROLE_BIDDER (base s))) (calls s)), [])
                      | None => (mkS (base s) (set_call c (mkCall (k_peer k) (k_lk k) (k_ann k) 4 (k_provs k) []) (calls s)), [])
                      end
                    else (s, [])
                  else (s, [])
      | None => (s, [])
      end
  | SFanout c =>
      match find_call c (calls s) with
      | Some k => if k_pc k =? 3 then
                    match k_fan k, tbl_get (k_lk k) (k_peer k) with
                    | b :: rest, Some u =>
                        (mkS (base s) (set_call c (mkCall (k_peer k) (k_lk k) (k_ann k) 3 (k_provs k) rest) (calls s)),
                         broadcast (k_ann k) b [(p_addr (k_peer k), u)])
                    | _, _ => (s, [])
                    end
                  else (s, [])
      | None => (s, [])
      end
  | SOther e => (mkS (fst (step (base s) e)) (calls s), snd (step (base s) e))
  end.

Definition srun_from (s : sstate) (l : list sevent) : sstate := fold_left (fun acc e => fst (sstep acc e)) l s.
Definition srun (l : list sevent) : sstate := srun_from sinit l.

Definition call_of (e : sevent) : option N :=
  match e with
  | SAdd c _ _ _ | SReadProviders c | SAnnounce c | SReadBidders c | SFanout c => Some c
  | SOther _ => None
  end.
Definition is_call (c : N) (e : sevent) : bool := match call_of e with Some d => d =? c | None => false end.

(* effects of the steps of call c in a step history *)
Fixpoint call_effects_from (s : sstate) (c : N) (l : list sevent) : list effect :=
  match l with
  | [] => []
  | e :: r => (if is_call c e then snd (sstep s e) else []) ++ call_effects_from (fst (sstep s e)) c r
  end.
Definition call_effects (c : N) (l : list sevent) : list effect := call_effects_from sinit c l.

(* the whole body of one call, run without interruption: n = number of bidders in the snapshot *)
Definition seq_call (c : N) (p : peer) (lk : list (peer * bytes)) (ann : list (peer * N)) (n : nat) : list sevent :=
  [SAdd c p lk ann; SReadProviders c; SAnnounce c; SReadBidders c] ++ repeat (SFanout c) n.
