(* C04 -- model of pkg/p2p/libp2p/internal/handshake/handshake.go (Handle = responder,
   Handshake = initiator, verifyReq, verifyResp, the request built by setHandshakeReq) and of
   the two callers in pkg/p2p/libp2p/libp2p.go (handleConnectReq, Connect) as they are now.
   Definitions only.  Library calls are oracle arguments:
     - signer.Verify(sig, data)           -> [verify]      (error | verified flag, recovered address)
     - getEthAddress(peerID)              -> [addr_of_pid] (error | address) for the one transport
                                             peer id of this handshake
     - register.CheckProviderRegistered   -> [registered]
     - stream.ReadMsg                     -> the script: per incoming frame what decoding it as a
                                             HandshakeReq / as a HandshakeResp yields
     - stream.WriteMsg failing            -> [wfail k] for the k-th write of the run
     - peers.addPeer outcome, notifier set -> arguments of the wrappers.
   Role strings and block durations come from gen/Generated.v. *)
From Coq Require Import List NArith ZArith Bool.
From MevVerif Require Import lib.Bytes gen.Generated.
Import ListNotations.
Open Scope Z_scope.

(* ---- p2p.PeerType <-> string (pkg/p2p/p2p.go) --------------------------------------------- *)

(* PeerType.String(): the literals of the switch in source order, then the default *)
Definition role_string (t : Z) : bytes :=
  match c04_peertype_strings with
  | [s0; s1; s2; sdefault] =>
      if t =? 0 then s0 else if t =? 1 then s1 else if t =? 2 then s2 else sdefault
  | _ => []
  end.

(* p2p.FromString: the literals of the switch in source order map to 0,1,2; default -1 *)
Definition role_of_string (s : bytes) : Z :=
  match c04_fromstring_strings with
  | [s0; s1; s2] =>
      if bytes_eqb s s0 then 0 else if bytes_eqb s s1 then 1 else if bytes_eqb s s2 then 2 else -1
  | _ => -1
  end.

Definition type_provider : Z := 1.                       (* p2p.PeerTypeProvider (iota) *)
Definition provider_string : bytes := role_string type_provider.
Definition valid_roles : list bytes := c04_fromstring_strings.

(* ---- vocabulary ------------------------------------------------------------------------------ *)

Inductive vres := VErr | VOk (verified : bool) (a : bytes).   (* signer.Verify *)
Inductive pres := PErr | POk (a : bytes).                     (* getEthAddress *)

(* one incoming frame: what ReadMsg yields when the reader asks for a HandshakeReq
   (peer_type, token, sig) resp. a HandshakeResp (observed_address, peer_type); None = the read
   returns an error (end of stream, reset, undecodable bytes, error frame). *)
Record frame := { as_req : option (bytes * bytes * bytes); as_resp : option (bytes * bytes) }.

Inductive wframe := WReq (role token sig : bytes) | WResp (addr role : bytes).

Inductive refusal :=
| RSig     (* errors.Is(err, ErrSignatureVerificationFailed) *)
| RAddr    (* ErrObservedAddressMismatch *)
| RStake   (* ErrInsufficientStake *)
| RRead    (* a ReadMsg failed *)
| RWrite   (* a WriteMsg failed *)
| RPid     (* getEthAddress failed *)
| REcho.   (* verifyResp refused (its two errors are not the sentinel values) *)

Inductive result := Enrol (a : bytes) (t : Z) | Refuse (c : refusal).

Record config := { own_type : Z; own_token : bytes; own_addr : bytes; own_sig : bytes }.

Record oracles := { verify : bytes -> bytes -> vres;
                    addr_of_pid : pres;
                    registered : bytes -> bool }.

Record run := { res : result;
                written : list wframe;            (* frames successfully written, in order *)
                lookups : list bytes;             (* CheckProviderRegistered calls *)
                verifies : list (bytes * bytes)   (* signer.Verify calls: (sig, data) *) }.

(* ---- handshake.go ---------------------------------------------------------------------------- *)

(* what is signed / verified: []byte(req.PeerType + req.Token) *)
Definition signed_data (role token : bytes) : bytes := role ++ token.

(* h.handshakeReq as built by setHandshakeReq; own_sig is the key signer's answer *)
Definition own_req (c : config) : wframe :=
  WReq (role_string (own_type c)) (own_token c) (own_sig c).

(* verifyReq *)
Definition verify_req (o : oracles) (role token sig : bytes) : (bytes + refusal) * list bytes :=
  match verify o sig (signed_data role token) with
  | VErr => (inr RSig, [])
  | VOk false _ => (inr RSig, [])
  | VOk true a =>
      match addr_of_pid o with
      | PErr => (inr RPid, [])
      | POk observed =>
          if negb (bytes_eqb observed a) then (inr RAddr, [])
          else if bytes_eqb role provider_string then
                 if registered o a then (inl a, [a]) else (inr RStake, [a])
               else (inl a, [])
      end
  end.

(* verifyResp *)
Definition echo_ok (c : config) (addr role : bytes) : bool :=
  bytes_eqb addr (own_addr c) && bytes_eqb role (role_string (own_type c)).

Definition mk (r : result) (w : list wframe) (l : list bytes) (v : list (bytes * bytes)) : run :=
  {| res := r; written := w; lookups := l; verifies := v |}.

(* Service.Handle *)
Definition handle (c : config) (o : oracles) (wfail : nat -> bool) (script : list frame) : run :=
  match script with
  | [] => mk (Refuse RRead) [] [] []
  | f1 :: rest =>
      match as_req f1 with
      | None => mk (Refuse RRead) [] [] []
      | Some (role, token, sig) =>
          let vs := [(sig, signed_data role token)] in
          match verify_req o role token sig with
          | (inr r, lk) => mk (Refuse r) [] lk vs
          | (inl a, lk) =>
              if wfail 0%nat then mk (Refuse RWrite) [] lk vs
              else
                let w1 := WResp a role in
                if wfail 1%nat then mk (Refuse RWrite) [w1] lk vs
                else
                  let w := [w1; own_req c] in
                  match rest with
                  | [] => mk (Refuse RRead) w lk vs
                  | f2 :: _ =>
                      match as_resp f2 with
                      | None => mk (Refuse RRead) w lk vs
                      | Some (ea, er) =>
                          if echo_ok c ea er then mk (Enrol a (role_of_string role)) w lk vs
                          else mk (Refuse REcho) w lk vs
                      end
                  end
          end
      end
  end.

(* Service.Handshake *)
Definition handshake (c : config) (o : oracles) (wfail : nat -> bool) (script : list frame) : run :=
  if wfail 0%nat then mk (Refuse RWrite) [] [] []
  else
    let w0 := own_req c in
    match script with
    | [] => mk (Refuse RRead) [w0] [] []
    | f1 :: rest =>
        match as_resp f1 with
        | None => mk (Refuse RRead) [w0] [] []
        | Some (ea, er) =>
            if negb (echo_ok c ea er) then mk (Refuse REcho) [w0] [] []
            else
              match rest with
              | [] => mk (Refuse RRead) [w0] [] []
              | f2 :: _ =>
                  match as_req f2 with
                  | None => mk (Refuse RRead) [w0] [] []
                  | Some (role, token, sig) =>
                      let vs := [(sig, signed_data role token)] in
                      match verify_req o role token sig with
                      | (inr r, lk) => mk (Refuse r) [w0] lk vs
                      | (inl a, lk) =>
                          if wfail 1%nat then mk (Refuse RWrite) [w0] lk vs
                          else mk (Enrol a (role_of_string role)) [w0; WResp a role] lk vs
                      end
                  end
              end
        end
    end.

(* ---- libp2p.go: handleConnectReq and Connect --------------------------------------------------- *)

Inductive effect :=
| EResetStream
| EClosePeer                         (* host.Network().ClosePeer(peerID): ALL connections of that peer id are closed *)
| EBlock (d : Z)                     (* blockPeer(peerID, d, _); 0 = for ever *)
| ERegister (a : bytes) (t : Z)      (* peers.addPeer created the registry entry *)
| ENotify (a : bytes) (t : Z)        (* notifier.Connected(peer) *)
| EReturnPeer (a : bytes) (t : Z)    (* Connect returns the peer to its caller *)
| EReturnErr (c : refusal)           (* Connect returns the handshake's error *)
| EReturnNotFound                    (* Connect returns p2p.ErrPeerNotFound (nothing registered) *)
| ENotifyGone (a : bytes) (t : Z).   (* notifier.Disconnected(peer): the registry dropped the entry *)

(* outcome of peers.addPeer(conn, peer) (pkg/p2p/libp2p/peers.go) *)
Inductive add_res :=
| Added          (* entry created, returns false *)
| NotAdded.      (* returns true: an entry for that address exists, or the connection has already
                    closed (nothing is tracked then) *)

(* the switch on errors.Is(...) : first, second, third case of the extracted table *)
Definition block_effects (durs : list Z) (c : refusal) : list effect :=
  match durs with
  | [d_sig; d_addr; d_stake] =>
      match c with
      | RSig => [EBlock d_sig]
      | RAddr => [EBlock d_addr]
      | RStake => [EBlock d_stake]
      | _ => []
      end
  | _ => []
  end.

Definition handle_connect_req (has_notifier : bool) (add : add_res) (r : result) : list effect :=
  match r with
  | Refuse c => EResetStream :: EClosePeer :: block_effects c04_inbound_durations c
  | Enrol a t =>
      match add with
      | NotAdded => [EResetStream]
      | Added => ERegister a t :: (if has_notifier then [ENotify a t] else [])
      end
  end.

(* before the repair of addPeer (it answered false for an already closed connection without an
   entry): the peer was announced although nothing had been registered *)
Inductive add_res_v0 := Added_v0 | AlreadyThere_v0 | ClosedAbsent_v0.
Definition handle_connect_req_v0 (has_notifier : bool) (add : add_res_v0) (r : result) : list effect :=
  match r with
  | Refuse c => EResetStream :: EClosePeer :: block_effects c04_inbound_durations c
  | Enrol a t =>
      match add with
      | AlreadyThere_v0 => [EResetStream]
      | Added_v0 => ERegister a t :: (if has_notifier then [ENotify a t] else [])
      | ClosedAbsent_v0 => if has_notifier then [ENotify a t] else []
      end
  end.

(* Connect from the point where the handshake stream has been opened.  After addPeer answered
   "exists" Connect asks peers.getPeer(peer id): [known] is that answer (not asked otherwise).  When
   the peer is not there (the connection closed during the handshake, nothing was registered) the
   caller gets ErrPeerNotFound instead of the peer. *)
Definition connect_tail (add : add_res) (known : bool) (r : result) : list effect :=
  match r with
  | Refuse c => EClosePeer :: block_effects c04_outbound_durations c ++ [EReturnErr c]
  | Enrol a t =>
      match add with
      | Added => [ERegister a t; EReturnPeer a t]
      | NotAdded => if known then [EReturnPeer a t] else [EReturnNotFound]
      end
  end.

(* the tail when getPeer finds the peer (or is not asked); the refusal branch -- all that the
   blocking theorems of other files use -- does not depend on that answer *)
Definition connect (add : add_res) (r : result) : list effect := connect_tail add true r.

(* before commit ad08637 Connect did not ask getPeer: it told its caller "connected" although
   nothing was (or remained) registered *)
Definition connect_tail_v1 (add : add_res) (known : bool) (r : result) : list effect := connect add r.

(* is the remote in the peer registry when Connect returns after an admissible handshake? *)
Definition known_after (add : add_res) (known : bool) : bool :=
  match add with Added => true | NotAdded => known end.

Definition inbound (c : config) (o : oracles) (wfail : nat -> bool) (script : list frame)
           (has_notifier : bool) (add : add_res) : list effect :=
  handle_connect_req has_notifier add (res (handle c o wfail script)).

Definition outbound (c : config) (o : oracles) (wfail : nat -> bool) (script : list frame)
           (add : add_res) : list effect :=
  connect add (res (handshake c o wfail script)).

Definition outbound_tail (c : config) (o : oracles) (wfail : nat -> bool) (script : list frame)
           (add : add_res) (known : bool) : list effect :=
  connect_tail add known (res (handshake c o wfail script)).

(* ---- specification vocabulary (used by the theorems; independent of the functions above) ------ *)

(* the remote proved (address A, role string) : signature over role ++ token verified and
   recovering A, A is the address of the authenticated transport identity, and a provider is
   confirmed by the registry *)
Definition proves (o : oracles) (role token sig A : bytes) : Prop :=
  verify o sig (role ++ token) = VOk true A /\
  addr_of_pid o = POk A /\
  (role = provider_string -> registered o A = true).

Definition echo_is_own (c : config) (ea er : bytes) : Prop :=
  ea = own_addr c /\ er = role_string (own_type c).

(* the admissible responder transcripts: request, then the echo of our own request *)
Definition resp_ok (c : config) (o : oracles) (wfail : nat -> bool) (script : list frame)
           (A : bytes) (T : Z) : Prop :=
  exists role token sig ea er f1 f2 rest,
    script = f1 :: f2 :: rest /\
    as_req f1 = Some (role, token, sig) /\ proves o role token sig A /\ T = role_of_string role /\
    wfail 0%nat = false /\ wfail 1%nat = false /\
    as_resp f2 = Some (ea, er) /\ echo_is_own c ea er.

(* the admissible initiator transcripts: echo of our own request, then the remote's request *)
Definition init_ok (c : config) (o : oracles) (wfail : nat -> bool) (script : list frame)
           (A : bytes) (T : Z) : Prop :=
  exists role token sig ea er f1 f2 rest,
    script = f1 :: f2 :: rest /\
    wfail 0%nat = false /\
    as_resp f1 = Some (ea, er) /\ echo_is_own c ea er /\
    as_req f2 = Some (role, token, sig) /\ proves o role token sig A /\ T = role_of_string role /\
    wfail 1%nat = false.

Definition announces (e : effect) : bool :=
  match e with ERegister _ _ | ENotify _ _ | EReturnPeer _ _ => true | _ => false end.

(* ---- sessions: the handshakes a long-lived Service performs one after the other ------------------
   handshake.Service keeps nothing between handshakes except its configuration (own request), so a
   session is the list of its handshakes, each with the oracle answers of *that moment*. *)
Record step := { s_dir : bool (* true = responder *); s_oracles : oracles; s_wfail : nat -> bool;
                 s_script : list frame }.
Definition run_step (c : config) (s : step) : run :=
  if s_dir s then handle c (s_oracles s) (s_wfail s) (s_script s)
  else handshake c (s_oracles s) (s_wfail s) (s_script s).
Definition session (c : config) (steps : list step) : list run := map (run_step c) steps.

(* ---- one remote over time: the registry entry, Connect's short cut --------------------------------
   State: the entry of the peer registry for this remote (overlays[peer id] with a tracked
   connection), None when absent.  Events: an inbound handshake stream (handleConnectReq), a call
   of Connect, the loss of the last connection (peerRegistry.Disconnected).  The remote may hold
   several transport connections; the entry stands for all of them.  [closed] = the
   connection of that handshake has already closed when addPeer runs.  Connect first asks
   peers.isConnected(peer id): a present entry is returned to the caller as it is, without any
   handshake. *)
Inductive event :=
| EvInbound (o : oracles) (wfail : nat -> bool) (script : list frame) (has_notifier closed : bool)
| EvConnect (o : oracles) (wfail : nat -> bool) (script : list frame) (closed : bool)
| EvDisconnect.

(* peers.addPeer, then (in Connect) peers.getPeer, against the entry *)
Definition add_outcome (entry : option (bytes * Z)) (closed : bool) : add_res * bool :=
  match entry with
  | Some _ => (NotAdded, true)
  | None => if closed then (NotAdded, false) else (Added, true)
  end.

(* a refused handshake closes every connection of the peer (EClosePeer), so the registry loses the
   remote's entry -- also one that an earlier handshake on another connection had created *)
Definition entry_after (entry : option (bytes * Z)) (add : add_res) (r : result) : option (bytes * Z) :=
  match r with
  | Enrol a t => match add with Added => Some (a, t) | NotAdded => entry end
  | Refuse _ => None
  end.

(* ... and the rest of the node is told so (peerRegistry.Disconnected -> notifier.Disconnected) *)
Definition eviction (entry : option (bytes * Z)) (r : result) : list effect :=
  match r, entry with
  | Refuse _, Some (a, t) => [ENotifyGone a t]
  | _, _ => []
  end.

Definition node_step (c : config) (entry : option (bytes * Z)) (ev : event)
  : option (bytes * Z) * list effect :=
  match ev with
  | EvDisconnect => (None, [])
  | EvInbound o wfail script has_notifier closed =>
      let r := res (handle c o wfail script) in
      let add := fst (add_outcome entry closed) in
      (entry_after entry add r, handle_connect_req has_notifier add r ++ eviction entry r)
  | EvConnect o wfail script closed =>
      match entry with
      | Some (a, t) => (entry, [EReturnPeer a t])          (* isConnected short cut *)
      | None =>
          let r := res (handshake c o wfail script) in
          let ak := add_outcome None closed in
          (entry_after None (fst ak) r, connect_tail (fst ak) (snd ak) r)
      end
  end.

Definition node_run (c : config) (evs : list event) : option (bytes * Z) :=
  fold_left (fun st ev => fst (node_step c st ev)) evs None.

(* the handshake carried by an event was admissible for (A, T), with the oracle answers of that event *)
Definition event_proves (c : config) (ev : event) (A : bytes) (T : Z) : Prop :=
  match ev with
  | EvInbound o wfail script _ _ => resp_ok c o wfail script A T
  | EvConnect o wfail script _ => init_ok c o wfail script A T
  | EvDisconnect => False
  end.

(* (A, T) is backed in a history: some event carried an admissible handshake for (A, T) and the
   remote has not been disconnected since *)
Definition backed (c : config) (evs : list event) (A : bytes) (T : Z) : Prop :=
  exists before ev after, evs = before ++ ev :: after /\ event_proves c ev A T /\ ~ In EvDisconnect after.

(* ---- a remote that stalls ---------------------------------------------------------------------------
   A script is what has arrived so far.  [handle] / [handshake] treat the end of the script as a failed
   read; in the code a read with nothing to read BLOCKS until the context passed to Handle / Handshake
   is done (stream.ReadMsg selects on ctx.Done()): handleConnectReq passes the Service's base context
   (no deadline: only Close ends it), Connect its caller's context.  [*_waits] says that the run is
   blocked in such a read after consuming the whole script; the cancelled read is the frame [eof]. *)
Definition eof : frame := {| as_req := None; as_resp := None |}.

Definition handle_waits (c : config) (o : oracles) (wfail : nat -> bool) (script : list frame) : bool :=
  match script with
  | [] => true
  | f1 :: rest =>
      match as_req f1 with
      | None => false
      | Some (role, token, sig) =>
          match verify_req o role token sig with
          | (inr _, _) => false
          | (inl _, _) =>
              if wfail 0%nat then false else if wfail 1%nat then false
              else match rest with [] => true | _ :: _ => false end
          end
      end
  end.

Definition handshake_waits (c : config) (o : oracles) (wfail : nat -> bool) (script : list frame) : bool :=
  if wfail 0%nat then false
  else match script with
       | [] => true
       | f1 :: rest =>
           match as_resp f1 with
           | None => false
           | Some (ea, er) =>
               if negb (echo_ok c ea er) then false
               else match rest with [] => true | _ :: _ => false end
           end
       end.
