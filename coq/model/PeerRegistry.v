(* Model of the peer registry (pkg/p2p/libp2p/peers.go: addPeer, Disconnected, getPeer,
   addStream, removeStream) and of the stream-handler wrapper installed by
   Service.AddStreamHandlers (libp2p.go: getPeer -> context.WithCancel -> addStream -> handler ->
   removeStream).  Definitions only.

   A connection is identified by (remote peer id, serial): network.Conn.RemotePeer is a fixed
   attribute of a connection.  Conn.IsClosed is an oracle carried by the Enrol event.  The
   cancel function stored for a stream is identified with the stream's context: calling it
   marks the context cancelled. *)
From Coq Require Import String List NArith ZArith Bool.
From MevVerif Require Import lib.Bytes gen.Generated.
Import ListNotations.
Open Scope N_scope.

Definition pid := N.
Definition addr := N.
Definition sid := N.
Definition conn := (pid * N)%type.
Definition remote (c : conn) : pid := fst c.
Definition conn_eqb (a b : conn) : bool := (fst a =? fst b) && (snd a =? snd b).

(* p2p.Peer: the address and role proven in the handshake *)
Record peer := { p_addr : addr; p_role : Z }.

(* Go maps keyed by N *)
Fixpoint get {V : Type} (k : N) (m : list (N * V)) : option V :=
  match m with
  | [] => None
  | (q, v) :: r => if q =? k then Some v else get k r
  end.
Fixpoint del {V : Type} (k : N) (m : list (N * V)) : list (N * V) :=
  match m with
  | [] => []
  | (q, v) :: r => if q =? k then del k r else (q, v) :: del k r
  end.
Definition put {V : Type} (k : N) (v : V) (m : list (N * V)) : list (N * V) := (k, v) :: del k m.
Definition has {V : Type} (k : N) (m : list (N * V)) : bool :=
  match get k m with Some _ => true | None => false end.

(* Go sets (map[X]struct{}) as duplicate-free lists *)
Definition conn_mem (c : conn) (l : list conn) : bool := existsb (conn_eqb c) l.
Definition conn_add (c : conn) (l : list conn) : list conn := if conn_mem c l then l else l ++ [c].
Definition conn_del (c : conn) (l : list conn) : list conn := filter (fun x => negb (conn_eqb c x)) l.
Definition sid_mem (s : sid) (l : list sid) : bool := existsb (N.eqb s) l.
Definition sid_add (s : sid) (l : list sid) : list sid := if sid_mem s l then l else l ++ [s].
Definition sid_del (s : sid) (l : list sid) : list sid := filter (fun x => negb (s =? x)) l.

(* state of one run of the wrapper closure (its locals) *)
Inductive sw_state :=
| SwLooked (p : pid) (pe : peer)                    (* getPeer succeeded *)
| SwTracked (p : pid) (pe : peer) (registered : bool)
    (* addStream done, handler not yet invoked; [registered]: was p in overlays at that moment *)
| SwStarted (p : pid) (pe : peer)                   (* ss.Handler running *)
| SwReset                                           (* stream reset, closure returned *)
| SwEnded.                                          (* handler returned, removeStream done *)

Record reg := {
  overlays : list (pid * peer);
  underlays : list (addr * pid);
  conns : list (pid * list conn);
  streams : list (pid * list sid);
  (* history fields *)
  ctxs : list (sid * bool);            (* handler contexts: cancelled? *)
  sw : list (sid * sw_state);
  notes : list peer;                   (* disconnector.disconnected calls, oldest first *)
  started : list (sid * pid * peer * bool);   (* handler invocations, oldest first; the flag is
                                                 "the peer was registered when the stream was tracked" *)
  panicked : bool
}.

Definition init : reg :=
  {| overlays := []; underlays := []; conns := []; streams := []; ctxs := []; sw := [];
     notes := []; started := []; panicked := false |}.

Definition conns_of (r : reg) (p : pid) : list conn := match get p (conns r) with Some l => l | None => [] end.
Definition streams_of (r : reg) (p : pid) : list sid := match get p (streams r) with Some l => l | None => [] end.

Definition cancel_all (ss : list sid) (cx : list (sid * bool)) : list (sid * bool) :=
  fold_left (fun cx s => put s true cx) ss cx.

(* Disconnected(_, c) *)
Definition disconnected (r : reg) (c : conn) : reg :=
  let p := remote c in
  match get p (conns r) with
  | None => r
  | Some cs =>
      let cs' := conn_del c cs in
      match cs' with
      | _ :: _ =>
          {| overlays := overlays r; underlays := underlays r; conns := put p cs' (conns r);
             streams := streams r; ctxs := ctxs r; sw := sw r; notes := notes r;
             started := started r; panicked := panicked r |}
      | [] =>
          match get p (overlays r) with
          | None =>
              (* peerInfo == nil: delete(overlays, p) is harmless, peerInfo.EthAddress panics *)
              {| overlays := overlays r; underlays := underlays r; conns := del p (conns r);
                 streams := streams r; ctxs := ctxs r; sw := sw r; notes := notes r;
                 started := started r; panicked := true |}
          | Some pe =>
              {| overlays := del p (overlays r); underlays := del (p_addr pe) (underlays r);
                 conns := del p (conns r); streams := del p (streams r);
                 ctxs := cancel_all (streams_of r p) (ctxs r); sw := sw r;
                 notes := notes r ++ [pe]; started := started r; panicked := panicked r |}
          end
      end
  end.

(* addPeer(c, pe) with c.IsClosed() = closed; second component: the returned "exists" *)
Definition add_peer_open (r : reg) (c : conn) (pe : peer) : reg * bool :=
  let p := remote c in
  let cs := conn_add c (conns_of r p) in
  let cn := put p cs (conns r) in
  if has (p_addr pe) (underlays r) then
    ({| overlays := overlays r; underlays := underlays r; conns := cn; streams := streams r;
        ctxs := ctxs r; sw := sw r; notes := notes r; started := started r;
        panicked := panicked r |}, true)
  else
    ({| overlays := put p pe (overlays r); underlays := put (p_addr pe) p (underlays r);
        conns := cn; streams := put p [] (streams r);
        ctxs := ctxs r; sw := sw r; notes := notes r; started := started r;
        panicked := panicked r |}, false).
(* a connection that has already closed is neither tracked nor registered, and the call reports
   "exists" so that the inbound path does not announce the peer *)
Definition add_peer (r : reg) (c : conn) (pe : peer) (closed : bool) : reg * bool :=
  if closed then (r, true) else add_peer_open r c pe.
(* before commit 2ee23d5: IsClosed was not consulted *)
Definition add_peer_v0 (r : reg) (c : conn) (pe : peer) (closed : bool) : reg * bool :=
  add_peer_open r c pe.
(* first form of that repair (amended since): the closed branch answered whether the address
   was known, so a closed connection of an unknown peer was announced without being registered *)
Definition add_peer_v1 (r : reg) (c : conn) (pe : peer) (closed : bool) : reg * bool :=
  if closed then (r, has (p_addr pe) (underlays r)) else add_peer_open r c pe.

(* tail of handleConnectReq (inbound): exists := addPeer(conn, peer); if exists { reset; return };
   notifier.Connected( *peer ).  Connect (outbound) never calls the notifier. *)
Definition inbound_announces_with (ap : reg -> conn -> peer -> bool -> reg * bool)
  (r : reg) (c : conn) (pe : peer) (closed : bool) : bool :=
  Generated.c14_inbound_announces && negb (snd (ap r c pe closed)).
Definition inbound_announces := inbound_announces_with add_peer.
Definition outbound_announces : bool := Generated.c14_outbound_announces.

Definition get_peer (r : reg) (p : pid) : option peer := get p (overlays r).
(* isConnected: the peer record when both overlays and connections have the key *)
Definition is_connected (r : reg) (p : pid) : option peer :=
  match get p (overlays r) with
  | Some pe => if has p (conns r) then Some pe else None
  | None => None
  end.

(* Service.Connect (outbound) from the point where the handshake has succeeded with record pe on
   connection c:  if isConnected(id) { return that peer }  ...handshake...
   exists := addPeer(conn, pe); if exists { if _, registered := getPeer(id); !registered { return
   ErrPeerNotFound } }; return *pe.   Second component: the peer Connect returns (None = error).
   [checks]: the getPeer test is there (commit ad08637). *)
Definition connect_with (checks : bool) (r : reg) (c : conn) (pe : peer) (closed : bool)
  : reg * option peer :=
  match is_connected r (remote c) with
  | Some pe0 => (r, Some pe0)
  | None =>
      let '(r', exists_) := add_peer r c pe closed in
      if checks && exists_ && negb (has (remote c) (overlays r')) then (r', None) else (r', Some pe)
  end.
Definition connect := connect_with Generated.c14_connect_checks_registered.
(* before ad08637: the peer was returned whatever addPeer had answered *)
Definition connect_v2 := connect_with false.
Definition get_peer_id (r : reg) (a : addr) : option pid := get a (underlays r).

Definition with_streams (r : reg) (st : list (pid * list sid)) (cx : list (sid * bool)) : reg :=
  {| overlays := overlays r; underlays := underlays r; conns := conns r; streams := st;
     ctxs := cx; sw := sw r; notes := notes r; started := started r; panicked := panicked r |}.
Definition with_sw (r : reg) (w : list (sid * sw_state)) : reg :=
  {| overlays := overlays r; underlays := underlays r; conns := conns r; streams := streams r;
     ctxs := ctxs r; sw := w; notes := notes r; started := started r; panicked := panicked r |}.
Definition with_ctxs (r : reg) (cx : list (sid * bool)) : reg := with_streams r (streams r) cx.
Definition with_started (r : reg) (x : list (sid * pid * peer * bool)) : reg :=
  {| overlays := overlays r; underlays := underlays r; conns := conns r; streams := streams r;
     ctxs := ctxs r; sw := sw r; notes := notes r; started := x; panicked := panicked r |}.

(* addStream(p, s, cancel) *)
Definition add_stream (r : reg) (p : pid) (s : sid) : reg * bool :=
  match get p (streams r) with
  | None => (r, false)
  | Some ss => (with_streams r (put p (sid_add s ss) (streams r)) (ctxs r), true)
  end.
(* removeStream(p, s) *)
Definition remove_stream (r : reg) (p : pid) (s : sid) : reg :=
  match get p (streams r) with
  | None => r
  | Some ss =>
      if sid_mem s ss then with_streams r (put p (sid_del s ss) (streams r)) (put s true (ctxs r))
      else r
  end.

(* --- events --------------------------------------------------------------------------------- *)
Inductive event :=
| Enrol (c : conn) (pe : peer) (closed : bool)   (* addPeer after a completed handshake *)
| ConnClosed (c : conn)                          (* Notifiee.Disconnected *)
| SLookup (s : sid) (p : pid)                    (* a new inbound stream s from p: the decisive lookup (first getPeer, waitHandshake, second getPeer) *)
| STrack (s : sid)                               (* WithCancel + addStream *)
| SStart (s : sid)                               (* ss.Handler invoked *)
| SEnd (s : sid)                                 (* handler / header phase over: removeStream *)
| RemoveStream (p : pid) (s : sid)               (* removeStream called directly *)
| BlockPeer (p : pid).                           (* Service.blockPeer(p, _, _): the blocklist is another
                                                    structure of the Service; blockPeer does not
                                                    touch the registry (anchored: it calls neither
                                                    removePeer nor any other registry method) *)

(* [fixed]: the wrapper honours addStream's result (commit 9c5bd49) *)
Definition step_with (ap : reg -> conn -> peer -> bool -> reg * bool) (fixed : bool)
  (r : reg) (e : event) : reg :=
  match e with
  | Enrol c pe closed => fst (ap r c pe closed)
  | ConnClosed c => disconnected r c
  | SLookup s p =>
      match get s (sw r) with
      | Some _ => r                                  (* not a new stream *)
      | None =>
          match get_peer r p with
          | Some pe => with_sw r (put s (SwLooked p pe) (sw r))
          | None => with_sw r (put s SwReset (sw r))  (* unknown peer: Reset *)
          end
      end
  | STrack s =>
      match get s (sw r) with
      | Some (SwLooked p pe) =>
          let r0 := with_ctxs r (put s false (ctxs r)) in     (* ctx, cancel := WithCancel(base) *)
          let '(r1, ok) := add_stream r0 p s in
          if ok || negb fixed
          then with_sw r1 (put s (SwTracked p pe (has p (overlays r1))) (sw r1))
          else with_sw (with_ctxs r1 (put s true (ctxs r1))) (put s SwReset (sw r1))  (* cancel(); Reset *)
      | _ => r
      end
  | SStart s =>
      match get s (sw r) with
      | Some (SwTracked p pe reg_at_track) =>
          with_sw (with_started r (started r ++ [(s, p, pe, reg_at_track)])) (put s (SwStarted p pe) (sw r))
      | _ => r
      end
  | SEnd s =>
      match get s (sw r) with
      | Some (SwTracked p pe _) | Some (SwStarted p pe) =>
          let r1 := remove_stream r p s in with_sw r1 (put s SwEnded (sw r1))
      | _ => r
      end
  | RemoveStream p s => remove_stream r p s
  | BlockPeer _ => r
  end.

Definition step := step_with add_peer true.
Definition run_with ap fixed (evs : list event) : reg := fold_left (step_with ap fixed) evs init.
Definition run := run_with add_peer true.
Definition run_v0_enrol := run_with add_peer_v0 true.     (* before 2ee23d5 *)
Definition run_v0_wrapper := run_with add_peer false.     (* before 9c5bd49 *)

(* the value addPeer returns *)
Definition enrol_result (r : reg) (c : conn) (pe : peer) (closed : bool) : bool := snd (add_peer r c pe closed).

(* --- specification vocabulary ------------------------------------------------------------------ *)
(* c was enrolled while open and no disconnect notification for it has been delivered since *)
Definition open_after (flag : bool) (c : conn) (e : event) : bool :=
  match e with
  | Enrol c' _ closed => if conn_eqb c c' && negb closed then true else flag
  | ConnClosed c' => if conn_eqb c c' then false else flag
  | _ => flag
  end.
Definition open_enrolled (evs : list event) (c : conn) : bool :=
  fold_left (fun f e => open_after f c e) evs false.

(* a connection is reported closed once; "open" in the strict sense also excludes a connection
   whose closure had been reported before it was enrolled.  The two notions coincide on histories
   in which IsClosed is never answered false after the notification (w3) -- the order libp2p
   guarantees when IsClosed is evaluated inside the critical section of addPeer. *)
Definition reported_closed (evs : list event) (c : conn) : bool :=
  existsb (fun e => match e with ConnClosed c' => conn_eqb c c' | _ => false end) evs.
Definition truly_open (evs : list event) (c : conn) : bool :=
  open_enrolled evs c && negb (reported_closed evs c).
Definition w3 (evs : list event) : Prop :=
  forall pre post c pe, evs = pre ++ Enrol c pe false :: post -> reported_closed pre c = false.

Definition registered (r : reg) (p : pid) : bool := has p (overlays r).
Definition ctx_cancelled (r : reg) (s : sid) : bool :=
  match get s (ctxs r) with Some b => b | None => false end.
(* the wrapper run for stream s is past addStream and has not returned: its context is in use *)
Definition running (r : reg) (s : sid) (p : pid) : bool :=
  match get s (sw r) with
  | Some (SwTracked q _ _) | Some (SwStarted q _) => q =? p
  | _ => false
  end.

(* well-formed histories: the address proven in a handshake is a function of the remote peer id
   and distinct peer ids prove distinct addresses (established by C04/C18 for real connections) *)
Definition enrolments (evs : list event) : list (conn * peer) :=
  flat_map (fun e => match e with Enrol c pe _ => [(c, pe)] | _ => [] end) evs.
Definition wf (evs : list event) : Prop :=
  forall c pe c' pe', In (c, pe) (enrolments evs) -> In (c', pe') (enrolments evs) ->
    (remote c = remote c' <-> p_addr pe = p_addr pe').
Definition wfb (evs : list event) : bool :=
  let l := enrolments evs in
  forallb (fun x => forallb (fun y =>
     Bool.eqb (remote (fst x) =? remote (fst y)) (p_addr (snd x) =? p_addr (snd y))) l) l.

(* wiring of libp2p.New and of the wrapper, regenerated from the source *)
Definition wiring_ok : bool :=
  Generated.c14_new_sets_disconnector && Generated.c14_new_notifies_registry &&
  Generated.c14_wrapper_get_peer && Generated.c14_wrapper_add_stream &&
  Generated.c14_wrapper_remove_stream &&
  negb Generated.c14_block_calls_remove_peer && negb Generated.c14_block_calls_get_peer &&
  Generated.c14_connect_short_circuit && Generated.c14_connect_checks_registered.
(* removePeer (peers.go) is not modelled: no function of the package calls it *)
Definition remove_peer_callers : list bool :=
  [Generated.c14_remove_peer_caller_00; Generated.c14_remove_peer_caller_01; Generated.c14_remove_peer_caller_02;
   Generated.c14_remove_peer_caller_03; Generated.c14_remove_peer_caller_04; Generated.c14_remove_peer_caller_05;
   Generated.c14_remove_peer_caller_06; Generated.c14_remove_peer_caller_07; Generated.c14_remove_peer_caller_08;
   Generated.c14_remove_peer_caller_09; Generated.c14_remove_peer_caller_10; Generated.c14_remove_peer_caller_11;
   Generated.c14_remove_peer_caller_12; Generated.c14_block_calls_remove_peer].
