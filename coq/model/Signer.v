(* pkg/signer/preconfsigner/signer.go: eipVerify, VerifyBid, VerifyPreConfirmation,
   ConstructSignedBid, ConstructPreConfirmation, statement by statement, over the hash
   function K and a record of crypto oracles (go-ethereum crypto.SigToPub,
   crypto.VerifySignature, crypto.PubkeyToAddress, and the node's KeySigner.SignHash).
   Every Go panic point is an explicit [Panic].  The functions as they were before the
   repairs c3de1fc (signature length) and c47eaee (nil embedded bid) and 7ab670a (amount
   range) are kept as *_v0.  Definitions only. *)
From Coq Require Import String List NArith ZArith Bool.
From MevVerif Require Import lib.Bytes gen.Generated model.Eip712.
Import ListNotations.
Open Scope N_scope.

Record crypto := {
  recover   : bytes -> bytes -> outcome bytes;     (* crypto.SigToPub(hash, sig): public key or error *)
  verify_rs : bytes -> bytes -> bytes -> bool;     (* crypto.VerifySignature(FromECDSAPub(pub), hash, r||s): low-S ECDSA check *)
  addr_of   : bytes -> bytes;                      (* crypto.PubkeyToAddress *)
  sign      : bytes -> outcome bytes               (* keySigner.SignHash(hash) *)
}.

(* error classes (E_AMOUNT = 1 comes from Eip712.v) *)
Definition E_MISSING : N := 2.    (* ErrMissingHashSignature *)
Definition E_HASH : N := 3.       (* ErrInvalidHash *)
Definition E_SIG : N := 4.        (* ErrInvalidSignature *)
Definition E_RECOVER : N := 5.    (* error returned by crypto.SigToPub *)
Definition E_SIGNER : N := 6.     (* error returned by SignHash *)
Definition E_FIELDS : N := 7.     (* "missing required fields" *)

(* sig[64] = f(sig[64]) on a copy; the caller has established 64 < len *)
Definition set64 (sig : bytes) (v : N) : bytes := firstn 64 sig ++ v :: skipn 65 sig.

(* if sig[64] >= 27 && sig[64] <= 28 { sig[64] -= 27 } *)
Definition v_to01 (v : N) : N := if (27 <=? v) && (v <=? 28) then v - 27 else v.
(* if sig[64] == 0 || sig[64] == 1 { sig[64] += 27 } *)
Definition v_to2728 (v : N) : N := if (v =? 0) || (v =? 1) then v + 27 else v.

Section Signer.
  Variable K : bytes -> bytes.
  Variable cr : crypto.

  (* the part of eipVerify after the length has been dealt with: index 64 exists *)
  Definition eip_verify_core (payloadHash signature : bytes) : outcome bytes :=
    match nth_error signature 64 with
    | None => Panic                                      (* sig[64]: index out of range *)
    | Some v =>
        let sig := set64 signature (v_to01 v) in
        match recover cr payloadHash sig with
        | Panic => Panic
        | Err _ => Err E_RECOVER
        | Ok pubkey =>
            (* sig[:len(sig)-1] *)
            if verify_rs cr pubkey payloadHash (firstn (length sig - 1) sig)
            then Ok (addr_of cr pubkey)
            else Err E_SIG
        end
    end.

  Definition eip_verify (payloadHash expectedhash signature : bytes) : outcome bytes :=
    if negb (bytes_eqb payloadHash expectedhash) then Err E_HASH
    else if negb (Nat.eqb (length signature) 65) then Err E_SIG
    else eip_verify_core payloadHash signature.

  (* before c3de1fc: no length test *)
  Definition eip_verify_v0 (payloadHash expectedhash signature : bytes) : outcome bytes :=
    if negb (bytes_eqb payloadHash expectedhash) then Err E_HASH
    else eip_verify_core payloadHash signature.

  Definition verify_bid_with (hashf : bid -> outcome bytes)
                             (verif : bytes -> bytes -> bytes -> outcome bytes)
                             (b : bid) : outcome bytes :=
    match b_dig b, b_sig b with
    | Some digest, Some signature =>
        match hashf b with
        | Ok bidHash => verif bidHash digest signature
        | Err c => Err c
        | Panic => Panic
        end
    | _, _ => Err E_MISSING
    end.

  Definition verify_bid : bid -> outcome bytes := verify_bid_with (bid_hash K) eip_verify.
  (* the function as of the snapshot: no amount range check, no signature length check *)
  Definition verify_bid_v0 : bid -> outcome bytes := verify_bid_with (bid_hash_v0 K) eip_verify_v0.
  (* only the amount repair missing (used for the binding refutation) *)
  Definition verify_bid_v0amt : bid -> outcome bytes := verify_bid_with (bid_hash_v0 K) eip_verify.

  Definition verify_preconf (c : preconf) : outcome bytes :=
    match c_bid c, c_dig c, c_sig c with
    | Some b, Some digest, Some signature =>
        match verify_bid b with
        | Ok _ =>
            match commitment_hash K c with
            | Ok h => eip_verify h digest signature
            | Err e => Err e
            | Panic => Panic
            end
        | Err e => Err e
        | Panic => Panic
        end
    | _, _, _ => Err E_MISSING
    end.

  (* snapshot version: c.Bid not tested; VerifyBid(nil) dereferences bid.Digest *)
  Definition verify_preconf_v0 (c : preconf) : outcome bytes :=
    match c_dig c, c_sig c with
    | Some digest, Some signature =>
        match c_bid c with
        | None => Panic
        | Some b =>
            match verify_bid_v0 b with
            | Ok _ =>
                match commitment_hash_v0 K c with
                | Ok h => eip_verify_v0 h digest signature
                | Err e => Err e
                | Panic => Panic
                end
            | Err e => Err e
            | Panic => Panic
            end
        end
    | _, _ => Err E_MISSING
    end.

  (* sig, err := SignHash(h); if sig[64] == 0 || sig[64] == 1 { sig[64] += 27 } *)
  Definition sign_normalised (h : bytes) : outcome bytes :=
    match sign cr h with
    | Panic => Panic
    | Err _ => Err E_SIGNER
    | Ok sig =>
        match nth_error sig 64 with
        | None => Panic                                  (* sig[64] on a short answer *)
        | Some v => Ok (set64 sig (v_to2728 v))
        end
    end.

  Definition construct_bid (txHash bidAmt : bytes) (blockNumber ds de : Z) : outcome bid :=
    if match txHash with [] => true | _ => false end
       || match bidAmt with [] => true | _ => false end
       || (blockNumber =? 0)%Z
    then Err E_FIELDS
    else
      let b := {| b_tx := txHash; b_amt := bidAmt; b_bn := blockNumber; b_ds := ds; b_de := de;
                  b_dig := None; b_sig := None |} in
      match bid_hash K b with
      | Panic => Panic
      | Err e => Err e
      | Ok bidHash =>
          match sign_normalised bidHash with
          | Panic => Panic
          | Err e => Err e
          | Ok sig =>
              Ok {| b_tx := txHash; b_amt := bidAmt; b_bn := blockNumber; b_ds := ds; b_de := de;
                    b_dig := Some bidHash; b_sig := Some sig |}
          end
      end.

  (* ConstructPreConfirmation(bid): a nil bid is dereferenced by VerifyBid *)
  Definition construct_preconf (ob : option bid) : outcome preconf :=
    match ob with
    | None => Panic
    | Some b =>
        match verify_bid b with
        | Panic => Panic
        | Err e => Err e
        | Ok _ =>
            let c0 := {| c_bid := Some b; c_dig := None; c_sig := None; c_prov := [] |} in
            match commitment_hash K c0 with
            | Panic => Panic
            | Err e => Err e
            | Ok h =>
                match sign_normalised h with
                | Panic => Panic
                | Err e => Err e
                | Ok sig => Ok {| c_bid := Some b; c_dig := Some h; c_sig := Some sig; c_prov := [] |}
                end
            end
        end
    end.
End Signer.

(* A session of one signer instance: the struct privateKeySigner holds only the key signer and
   no method writes to it, so the verdicts of a sequence of calls are the verdicts of the calls
   taken one by one (what a cache or any other memory between calls would break; the "session"
   classes of the C02 driver compare exactly this with the implementation). *)
Inductive sig_call := VBid (b : bid) | VPreconf (c : preconf).
Definition sig_verdict (K : bytes -> bytes) (cr : crypto) (c : sig_call) : outcome bytes :=
  match c with VBid b => verify_bid K cr b | VPreconf p => verify_preconf K cr p end.
Definition sig_session (K : bytes -> bytes) (cr : crypto) (cs : list sig_call) : list (outcome bytes) :=
  map (sig_verdict K cr) cs.
