(* The published format rules of the gRPC messages (buf.validate options in
   rpc/bidderapi/v1/bidderapi.proto and rpc/providerapi/v1/providerapi.proto, compiled into
   gen/go/.../*.pb.go and evaluated by protovalidate-go v0.6.0 / cel-go).

   The CEL engine itself is not modelled.  The handful of published rules is written out
   concretely, in two layers:
   * plain boolean functions ([hash64_ok], [amount_ok], [positive_int64], [bidder_bid_ok],
     [provider_bid_ok], [provider_response_ok], [prepay_ok], [stake_ok]) -- what other
     models import;
   * a CEL-shaped three-valued evaluation ([cel], [eval_rule], [eval_message]) driven by a
     per-message rule table whose canonical *texts* ([rule_texts]) are compared in every
     C19 run with the texts dumped from the compiled descriptors, and whose three-valued
     verdict (accepted / validation error / CEL runtime error) is compared with the real
     validator on every generated message.
   proofs/Rules_proofs.v shows the two layers agree and that each boolean function is
   equivalent to a readable specification.  Definitions only. *)
From Coq Require Import String List NArith ZArith Bool.
From MevVerif Require Import lib.Bytes.
Import ListNotations.
Open Scope N_scope.

Definition uint64_bound : N := 18446744073709551616.           (* 2^64 *)
Definition int64_max : Z := 9223372036854775807%Z.
Definition int64_min : Z := (-9223372036854775808)%Z.
Definition int64_range (z : Z) : Prop := (int64_min <= z <= int64_max)%Z.

(* ---------------------------------------------------------------------------------------- *)
(* 1. Boolean rule functions                                                                 *)
(* ---------------------------------------------------------------------------------------- *)

(* character class [a-fA-F0-9].  The regular expressions are matched on runes; every rune of a
   non-ASCII (or invalid UTF-8, decoded as U+FFFD) sequence lies outside both published
   classes, and an ASCII string has one rune per byte, so the byte-level reading is exact. *)
Definition is_hex_char (c : N) : bool :=
  ((48 <=? c) && (c <=? 57)) || ((97 <=? c) && (c <=? 102)) || ((65 <=? c) && (c <=? 70)).

(* r.matches('^[a-fA-F0-9]{64}$') : exactly 64 hex digits, either case, no prefix, nothing
   after (RE2 '$' without the m flag is end of text: a trailing newline is refused) *)
Definition hash64_ok (h : bytes) : bool := (length h =? 64)%nat && forallb is_hex_char h.

(* this.all(r, r.matches(...)) && size(this) > 0 *)
Definition hashes_ok (hs : list bytes) : bool :=
  forallb hash64_ok hs && match hs with [] => false | _ => true end.

(* this.matches('^[0-9]+$') && uint(this) > 0 : a non-empty run of ASCII digits (leading
   zeros allowed) whose value is positive and fits 64 bits (uint() of a larger value is a CEL
   runtime error, which the callers treat as a refusal) *)
Definition amount_ok (s : bytes) : bool :=
  match parse_dec s with
  | Some v => (0 <? v) && (v <? uint64_bound)
  | None => false
  end.

(* uint(this) > 0 on an int64 (negative: runtime error = refusal), and int64.gt = 0 *)
Definition positive_int64 (z : Z) : bool := (0 <? z)%Z.

(* bytes.min_len = 1, bytes.max_len = 64 *)
Definition digest_len_ok (d : bytes) : bool :=
  let n := N.of_nat (length d) in (1 <=? n) && (n <=? 64).

(* enum.defined_only = true, enum.in = [1, 2] : STATUS_ACCEPTED or STATUS_REJECTED *)
Definition status_accepted : Z := 1%Z.
Definition status_rejected : Z := 2%Z.
Definition status_ok (s : Z) : bool := (s =? status_accepted)%Z || (s =? status_rejected)%Z.

(* bidderapi.v1.Bid *)
Definition bidder_bid_ok (txs : list bytes) (amount : bytes) (bn ds de : Z) : bool :=
  hashes_ok txs && amount_ok amount && positive_int64 bn && positive_int64 ds && positive_int64 de.

(* providerapi.v1.Bid *)
Definition provider_bid_ok (txs : list bytes) (amount : bytes) (bn : Z) (digest : bytes) (ds de : Z) : bool :=
  hashes_ok txs && amount_ok amount && positive_int64 bn && digest_len_ok digest &&
  positive_int64 ds && positive_int64 de.

(* providerapi.v1.BidResponse : the digest carries no published rule *)
Definition provider_response_ok (digest : bytes) (status : Z) : bool := status_ok status.

(* bidderapi.v1.PrepayRequest / providerapi.v1.StakeRequest *)
Definition prepay_ok (amount : bytes) : bool := amount_ok amount.
Definition stake_ok (amount : bytes) : bool := amount_ok amount.

(* ---------------------------------------------------------------------------------------- *)
(* 2. CEL-shaped evaluation of the same rules                                                *)
(* ---------------------------------------------------------------------------------------- *)

Inductive cel := CTrue | CFalse | CErr.
Definition cel_of_bool (b : bool) : cel := if b then CTrue else CFalse.
(* CEL's commutative conjunction: false absorbs an error on the other side *)
Definition cel_and (a b : cel) : cel :=
  match a, b with
  | CFalse, _ | _, CFalse => CFalse
  | CTrue, CTrue => CTrue
  | _, _ => CErr
  end.
Definition cel_holds (c : cel) : bool := match c with CTrue => true | _ => false end.

Definition matches_digits (s : bytes) : bool := match s with [] => false | _ => all_digits s end.
(* uint(string) = strconv.ParseUint(s, 10, 64); uint(int) fails on negatives *)
Definition cel_uint_of_string (s : bytes) : option N :=
  match parse_dec s with
  | Some v => if v <? uint64_bound then Some v else None
  | None => None
  end.
Definition cel_uint_of_int (z : Z) : option N := if (z <? 0)%Z then None else Some (Z.to_N z).
Definition cel_gt0 (o : option N) : cel :=
  match o with Some v => cel_of_bool (0 <? v) | None => CErr end.

Definition hashes_rule (hs : list bytes) : cel :=
  cel_and (cel_of_bool (forallb hash64_ok hs)) (cel_of_bool (0 <? N.of_nat (length hs))).
Definition amount_rule (s : bytes) : cel :=
  cel_and (cel_of_bool (matches_digits s)) (cel_gt0 (cel_uint_of_string s)).
Definition uint_pos_rule (z : Z) : cel := cel_gt0 (cel_uint_of_int z).

(* the rules that occur in the published descriptors *)
Inductive rule :=
  | RuleNone                               (* field without buf.validate option *)
  | RuleHashes                             (* cel: this.all(r, r.matches('^[a-fA-F0-9]{64}$')) && size(this) > 0 *)
  | RuleAmount                             (* cel: this.matches('^[0-9]+$') && uint(this) > 0 *)
  | RuleUintPos                            (* cel: uint(this) > 0 *)
  | RuleInt64Gt (k : Z)                    (* int64.gt = k *)
  | RuleBytesLen (lo hi : N)               (* bytes.min_len = lo, bytes.max_len = hi *)
  | RuleEnumIn (l : list Z).               (* enum.defined_only = true, enum.in = l *)

Inductive value := VStrs (l : list bytes) | VStr (s : bytes) | VInt (z : Z) | VBytes (b : bytes).

Definition eval_rule (r : rule) (v : value) : cel :=
  match r, v with
  | RuleNone, _ => CTrue
  | RuleHashes, VStrs l => hashes_rule l
  | RuleAmount, VStr s => amount_rule s
  | RuleUintPos, VInt z => uint_pos_rule z
  | RuleInt64Gt k, VInt z => cel_of_bool (k <? z)%Z
  | RuleBytesLen lo hi, VBytes b =>
      let n := N.of_nat (length b) in cel_of_bool ((lo <=? n) && (n <=? hi))
  | RuleEnumIn l, VInt z => cel_of_bool (existsb (Z.eqb z) l)
  | _, _ => CErr
  end.

(* protovalidate's message evaluator: the field evaluators run in order, violations
   accumulate, the first runtime error ends the evaluation and is returned alone *)
Inductive rverdict := ROk | RInvalid | RRuntime.
Definition is_cerr (c : cel) : bool := match c with CErr => true | _ => false end.
Definition is_cfalse (c : cel) : bool := match c with CFalse => true | _ => false end.
Definition merge_results (l : list cel) : rverdict :=
  if existsb is_cerr l then RRuntime else if existsb is_cfalse l then RInvalid else ROk.

Fixpoint eval_fields (rules : list (bytes * rule)) (vals : list value) : list cel :=
  match rules, vals with
  | [], [] => []
  | (_, r) :: rs, v :: vs => eval_rule r v :: eval_fields rs vs
  | _, _ => [CErr]
  end.
Definition eval_message (rules : list (bytes * rule)) (vals : list value) : rverdict :=
  merge_results (eval_fields rules vals).

(* ---------------------------------------------------------------------------------------- *)
(* 3. Rule tables of the published messages, and their canonical texts                       *)
(* ---------------------------------------------------------------------------------------- *)

Definition bidder_bid_rules : list (bytes * rule) :=
  [ (bos "tx_hashes", RuleHashes); (bos "amount", RuleAmount); (bos "block_number", RuleUintPos);
    (bos "decay_start_timestamp", RuleUintPos); (bos "decay_end_timestamp", RuleUintPos) ].
Definition provider_bid_rules : list (bytes * rule) :=
  [ (bos "tx_hashes", RuleHashes); (bos "bid_amount", RuleAmount); (bos "block_number", RuleInt64Gt 0);
    (bos "bid_digest", RuleBytesLen 1 64);
    (bos "decay_start_timestamp", RuleUintPos); (bos "decay_end_timestamp", RuleUintPos) ].
Definition provider_response_rules : list (bytes * rule) :=
  [ (bos "bid_digest", RuleNone); (bos "status", RuleEnumIn [status_accepted; status_rejected]) ].
Definition prepay_rules : list (bytes * rule) := [ (bos "amount", RuleAmount) ].
Definition stake_rules : list (bytes * rule) := [ (bos "amount", RuleAmount) ].

Definition bidder_bid_verdict (txs : list bytes) (amount : bytes) (bn ds de : Z) : rverdict :=
  eval_message bidder_bid_rules [VStrs txs; VStr amount; VInt bn; VInt ds; VInt de].
Definition provider_bid_verdict (txs : list bytes) (amount : bytes) (bn : Z) (digest : bytes) (ds de : Z) : rverdict :=
  eval_message provider_bid_rules [VStrs txs; VStr amount; VInt bn; VBytes digest; VInt ds; VInt de].
Definition provider_response_verdict (digest : bytes) (status : Z) : rverdict :=
  eval_message provider_response_rules [VBytes digest; VInt status].
Definition prepay_verdict (amount : bytes) : rverdict := eval_message prepay_rules [VStr amount].
Definition stake_verdict (amount : bytes) : rverdict := eval_message stake_rules [VStr amount].

(* Canonical text of a field's buf.validate option, as rendered by the C19 driver from the
   compiled descriptor (FieldConstraints walked in field-number order; the human-readable
   "message" of a cel constraint is projected away):
     cel{id=<id>,expression=<expr>}   int64{gt=<k>}   bytes{min_len=<lo>,max_len=<hi>}
     enum{defined_only=true,in=[a,b]}                 empty text for a field without option *)
Definition show_z (z : Z) : bytes :=
  if (z <? 0)%Z then 45 :: show_dec (Z.to_N (- z)) else show_dec (Z.to_N z).
Definition cel_text (id expr : bytes) : bytes :=
  bos "cel{id=" ++ id ++ bos ",expression=" ++ expr ++ bos "}".
Definition expr_hashes : bytes := bos "this.all(r, r.matches('^[a-fA-F0-9]{64}$')) && size(this) > 0".
Definition expr_amount : bytes := bos "this.matches('^[0-9]+$') && uint(this) > 0".
Definition expr_uint_pos : bytes := bos "uint(this) > 0".
Definition rule_text (field : bytes) (r : rule) : bytes :=
  match r with
  | RuleNone => []
  | RuleHashes => cel_text field expr_hashes
  | RuleAmount => cel_text field expr_amount
  | RuleUintPos => cel_text field expr_uint_pos
  | RuleInt64Gt k => bos "int64{gt=" ++ show_z k ++ bos "}"
  | RuleBytesLen lo hi => bos "bytes{min_len=" ++ show_dec lo ++ bos ",max_len=" ++ show_dec hi ++ bos "}"
  | RuleEnumIn l => bos "enum{defined_only=true,in=[" ++ join 44 (map show_z l) ++ bos "]}"
  end.
Definition rule_texts (rules : list (bytes * rule)) : list (bytes * bytes) :=
  map (fun fr => (fst fr, rule_text (fst fr) (snd fr))) rules.

(* message full names, used as keys by the correspondence *)
Definition msg_bidder_bid : bytes := bos "bidderapi.v1.Bid".
Definition msg_prepay : bytes := bos "bidderapi.v1.PrepayRequest".
Definition msg_provider_bid : bytes := bos "providerapi.v1.Bid".
Definition msg_provider_response : bytes := bos "providerapi.v1.BidResponse".
Definition msg_stake : bytes := bos "providerapi.v1.StakeRequest".
Definition published_rules : list (bytes * list (bytes * rule)) :=
  [ (msg_bidder_bid, bidder_bid_rules); (msg_prepay, prepay_rules);
    (msg_provider_bid, provider_bid_rules); (msg_provider_response, provider_response_rules);
    (msg_stake, stake_rules) ].
