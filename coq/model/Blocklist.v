(* Model of the peer blocklist (pkg/p2p/libp2p/blocklister.go: blockPeer, isBlocked,
   BlockedPeers) and of the connection gater's use of it (conngater.go), plus the
   (handshake error -> block duration) tables of handleConnectReq / Connect and the gater
   wiring of libp2p.New, both taken from gen/Generated.v.  Definitions only.

   Times are integers (nanoseconds); time.Now is an argument of every operation. *)
From Coq Require Import String List NArith ZArith Bool.
From MevVerif Require Import lib.Bytes gen.Generated.
Import ListNotations.
Open Scope Z_scope.

Definition pid := N.

(* blockInfo without the reason text *)
Record entry := { e_start : Z; e_dur : Z }.
Definition bmap := list (pid * entry).

Fixpoint lookup (p : pid) (m : bmap) : option entry :=
  match m with
  | [] => None
  | (q, e) :: r => if (q =? p)%N then Some e else lookup p r
  end.
Fixpoint remove (p : pid) (m : bmap) : bmap :=
  match m with
  | [] => []
  | (q, e) :: r => if (q =? p)%N then remove p r else (q, e) :: remove p r
  end.
Definition set (p : pid) (e : entry) (m : bmap) : bmap := (p, e) :: remove p m.

(* blockPeer as it is now: an existing permanent block is kept; an existing timed block is
   kept when the new one is timed and would end strictly earlier; otherwise overwrite. *)
Definition block_peer (m : bmap) (p : pid) (d now : Z) : bmap :=
  match lookup p m with
  | Some info =>
      if e_dur info =? 0 then m
      else if negb (d =? 0) && (now + d <? e_start info + e_dur info) then m
      else set p {| e_start := now; e_dur := d |} m
  | None => set p {| e_start := now; e_dur := d |} m
  end.

(* blockPeer before commit 6a06465: unconditional overwrite *)
Definition block_peer_v0 (m : bmap) (p : pid) (d now : Z) : bmap :=
  set p {| e_start := now; e_dur := d |} m.

(* isBlocked: expired (now after start+duration, duration non-zero) entries are deleted *)
Definition is_blocked (m : bmap) (p : pid) (now : Z) : bmap * bool :=
  match lookup p m with
  | None => (m, false)
  | Some info =>
      if (e_start info + e_dur info <? now) && negb (e_dur info =? 0)
      then (remove p m, false)
      else (m, true)
  end.

(* BlockedPeers, per peer: 0 = not listed, 1 = listed with a remaining time, 2 = "Forever".
   (now before start+duration, or duration zero; nothing is deleted) *)
Definition listed (m : bmap) (p : pid) (now : Z) : Z :=
  match lookup p m with
  | None => 0
  | Some info =>
      if e_dur info =? 0 then 2
      else if now <? e_start info + e_dur info then 1 else 0
  end.

(* BlockedPeers skips an entry whose peer id does not yield an Ethereum address
   (GetEthAddressFromPeerID fails: the id does not embed a secp256k1 key); [addr_ok] is that oracle.
   [listed] is the projection on ids with an address, which is what the Listing event observes. *)
Definition listed_go (addr_ok : pid -> bool) (m : bmap) (p : pid) (now : Z) : Z :=
  if addr_ok p then listed m p now else 0.

(* --- the gater ------------------------------------------------------------------------ *)
(* [has_blocker]: setBlocker was called (g.blocker != nil) *)
Definition gater_peer_check (has_blocker : bool) (m : bmap) (p : pid) (now : Z) : bmap * bool :=
  if has_blocker then let '(m', b) := is_blocked m p now in (m', negb b) else (m, true).
Definition intercept_peer_dial := gater_peer_check.
Definition intercept_secured := gater_peer_check.
Definition intercept_addr_dial (m : bmap) (p : pid) : bmap * bool := (m, true).
Definition intercept_upgraded (m : bmap) (p : pid) : bmap * bool := (m, true).
(* InterceptAccept asks only the per-address rate limiter, whose verdict is an oracle *)
Definition intercept_accept (m : bmap) (limiter_ok : bool) : bmap * bool := (m, limiter_ok).

(* wiring of libp2p.New, regenerated from the source on every run *)
Record wiring := { w_gater_installed : bool; w_blocker_set : bool }.
Definition wiring_now : wiring :=
  {| w_gater_installed := Generated.c17_new_installs_gater;
     w_blocker_set := Generated.c17_new_sets_blocker |}.
Definition wired (w : wiring) : bool := w_gater_installed w && w_blocker_set w.

(* --- event machine -------------------------------------------------------------------- *)
Inductive event :=
| Block (p : pid) (d t : Z)         (* blockPeer(p, d) at time t *)
| Query (p : pid) (t : Z)           (* isBlocked(p) *)
| Dial (p : pid) (t : Z)            (* InterceptPeerDial(p) *)
| Secured (p : pid) (t : Z)         (* InterceptSecured(_, p, _) *)
| AddrDial (p : pid) (t : Z)        (* InterceptAddrDial(p, _) *)
| Upgraded (p : pid) (t : Z)        (* InterceptUpgraded(conn of p) *)
| Accept (limiter_ok : bool) (t : Z)(* InterceptAccept(_) with the limiter's verdict *)
| Listing (ps : list pid) (t : Z).  (* BlockedPeers(), projected on the peers ps *)

Definition time_of (e : event) : Z :=
  match e with
  | Block _ _ t | Query _ t | Dial _ t | Secured _ t | AddrDial _ t | Upgraded _ t
  | Accept _ t | Listing _ t => t
  end.

Definition zb (b : bool) : Z := if b then 1 else 0.

(* one step: new map and the answers of the call (booleans as 0/1; Listing: one code per peer) *)
Definition step_with (bp : bmap -> pid -> Z -> Z -> bmap) (w : wiring) (m : bmap) (e : event)
  : bmap * list Z :=
  match e with
  | Block p d t => (bp m p d t, [])
  | Query p t => let '(m', b) := is_blocked m p t in (m', [zb b])
  | Dial p t => let '(m', a) := intercept_peer_dial (wired w) m p t in (m', [zb a])
  | Secured p t => let '(m', a) := intercept_secured (wired w) m p t in (m', [zb a])
  | AddrDial p t => let '(m', a) := intercept_addr_dial m p in (m', [zb a])
  | Upgraded p t => let '(m', a) := intercept_upgraded m p in (m', [zb a])
  | Accept ok t => let '(m', a) := intercept_accept m ok in (m', [zb a])
  | Listing ps t => (m, map (fun p => listed m p t) ps)
  end.
Definition step := step_with block_peer.
Definition step_v0 := step_with block_peer_v0.

Definition run_with bp (w : wiring) (evs : list event) : bmap :=
  fold_left (fun m e => fst (step_with bp w m e)) evs [].
Definition run := run_with block_peer.
Definition run_v0 := run_with block_peer_v0.

(* trace: answers of every event, in order *)
Fixpoint trace_with bp (w : wiring) (m : bmap) (evs : list event) : list (list Z) :=
  match evs with
  | [] => []
  | e :: r => let '(m', a) := step_with bp w m e in a :: trace_with bp w m' r
  end.

(* what isBlocked / the gater would answer next, at time t, after the events evs *)
Definition query_answer (w : wiring) (evs : list event) (p : pid) (t : Z) : bool :=
  snd (is_blocked (run w evs) p t).
Definition dial_answer (w : wiring) (evs : list event) (p : pid) (t : Z) : bool :=
  snd (intercept_peer_dial (wired w) (run w evs) p t).
Definition secured_answer (w : wiring) (evs : list event) (p : pid) (t : Z) : bool :=
  snd (intercept_secured (wired w) (run w evs) p t).
Definition query_answer_v0 (w : wiring) (evs : list event) (p : pid) (t : Z) : bool :=
  snd (is_blocked (run_v0 w evs) p t).

(* --- the specification the answers are measured against -------------------------------- *)
(* a block placed by e covers peer p at time t: permanent, or t within [_, t0 + d] *)
Definition block_covers (p : pid) (t : Z) (e : event) : bool :=
  match e with
  | Block q d t0 => (q =? p)%N && ((d =? 0) || (t <=? t0 + d))
  | _ => false
  end.
Definition covered (evs : list event) (p : pid) (t : Z) : bool := existsb (block_covers p t) evs.
Definition blocks_permanently (p : pid) (e : event) : bool :=
  match e with Block q d _ => (q =? p)%N && (d =? 0) | _ => false end.
Definition blocks (p : pid) (e : event) : bool :=
  match e with Block q _ _ => (q =? p)%N | _ => false end.

(* --- handshake failure classes -> block durations (tables from the source) ------------- *)
Inductive hs_failure := SigFailed | AddrMismatch | LowStake.
Definition failure_name (f : hs_failure) : bytes :=
  match f with
  | SigFailed => bos "handshake.ErrSignatureVerificationFailed"
  | AddrMismatch => bos "handshake.ErrObservedAddressMismatch"
  | LowStake => bos "handshake.ErrInsufficientStake"
  end.
(* the switch: i-th errors.Is(err, X) case calls blockPeer with the i-th duration *)
Fixpoint table_lookup (name : bytes) (cases : list (list bytes)) (durs : list Z) : option Z :=
  match cases, durs with
  | [_; n] :: cr, d :: dr => if bytes_eqb n name then Some d else table_lookup name cr dr
  | _, _ => None
  end.
Definition inbound_block_duration (f : hs_failure) : option Z :=
  table_lookup (failure_name f) Generated.c17_inbound_cases Generated.c17_inbound_durations.
Definition outbound_block_duration (f : hs_failure) : option Z :=
  table_lookup (failure_name f) Generated.c17_outbound_cases Generated.c17_outbound_durations.
