(* C06 -- entry classification: for every peer-facing entry point of the node an abstract
   description of what a remote peer can deliver to it (decoded message values with every field
   optional / of any length; frame classes), and the exact condition under which the Go code
   panics.  [panics_gen f] takes as argument which of the three repairs are present
     c3de1fc  f_siglen   eipVerify tests len(signature) before indexing sig[64]
     c47eaee  f_nilbid   VerifyPreConfirmation tests c.Bid == nil
     0c53096  f_metrics  libp2p.New always creates the handshake failure counters
   [panics] = all three present (the tree as it is now), [panics_v0] = none (the snapshot).
   The summaries are computed by the drivers with go-ethereum / math/big only (never with the
   function under test).  Definitions only.

   Go sources mirrored (control flow up to the panic points):
     pkg/signer/preconfsigner/signer.go   VerifyBid, VerifyPreConfirmation, ConstructPreConfirmation, eipVerify
     pkg/signer/signer.go                 Verify
     pkg/p2p/libp2p/internal/handshake    Handle, Handshake
     pkg/discovery/discovery.go           handlePeersList
     pkg/preconfirmation                  handleBid, the per-provider goroutine of SendBid
     pkg/rpc/bidder/service.go            the loop over the commitments SendBid surfaced
     pkg/p2p/libp2p/stream.go             ReadMsg, ReadHeader
     pkg/p2p/libp2p/libp2p.go             handleConnectReq / Connect (failure counters), Connect (underlay bytes) *)
From Coq Require Import String List NArith ZArith Bool.
From MevVerif Require Import lib.Bytes gen.Generated.
From MevVerif Require model.Signer.
Import ListNotations.
Open Scope N_scope.

Record fixes := { f_siglen : bool; f_nilbid : bool; f_metrics : bool }.

(* libp2p.New (regenerated from the source on every run: every value given to the variable
   [metrics], in order).  The counters exist for every Service iff every value (the first one is
   in force when Options.MetricsReg is nil) is built by newMetrics(...). *)
Fixpoint has_prefix (p l : bytes) : bool :=
  match p, l with
  | [], _ => true
  | a :: p', b :: l' => (a =? b) && has_prefix p' l'
  | _, _ => false
  end.
Definition metrics_always_created : bool :=
  match c06_metrics_assigns with
  | [] => false
  | vals => forallb (has_prefix (bos "newMetrics(")) vals     (* every value ever given to it *)
  end.

Definition fixes_now : fixes := {| f_siglen := true; f_nilbid := true; f_metrics := metrics_always_created |}.
Definition fixes_v0 : fixes := {| f_siglen := false; f_nilbid := false; f_metrics := false |}.
Definition without_siglen : fixes := {| f_siglen := false; f_nilbid := true; f_metrics := true |}.
Definition without_nilbid : fixes := {| f_siglen := true; f_nilbid := false; f_metrics := true |}.
Definition without_metrics : fixes := {| f_siglen := true; f_nilbid := true; f_metrics := false |}.

(* ---- decoded preconfirmation/v1 messages ------------------------------------------------------ *)
(* bytes fields: None = nil (absent or empty on the wire), Some n = n bytes *)
Record bid_in := {
  bi_dig : option N;        (* bid.Digest *)
  bi_sig : option N;        (* bid.Signature *)
  bi_amt_ok : bool;         (* BidAmount parses in base 10 and lies in [0, 2^256) *)
  bi_hash_ok : bool;        (* bi_amt_ok and Digest = the EIP-712 hash of the bid's fields *)
  bi_sig_ok : bool          (* bi_hash_ok, 65 bytes, and the signature recovers and verifies *)
}.
Record preconf_in := {
  pi_bid : option bid_in;   (* c.Bid: embedded message, None = nil *)
  pi_dig : option N;
  pi_sig : option N;
  pi_hash_ok : bool;        (* Digest = the EIP-712 hash of the commitment (needs a bid with a valid amount) *)
  pi_sig_ok : bool
}.

Inductive vout := VOk | VErr | VPanic.

(* eipVerify(payloadHash, expectedhash, signature) *)
Definition eip_verify_in (f : fixes) (hash_ok : bool) (siglen : N) (sig_ok : bool) : vout :=
  if negb hash_ok then VErr                                   (* ErrInvalidHash *)
  else if f_siglen f then
         if negb (siglen =? 65) then VErr                     (* ErrInvalidSignature *)
         else if sig_ok then VOk else VErr
       else if siglen <=? 64 then VPanic                      (* sig[64]: index out of range *)
       else if (siglen =? 65) && sig_ok then VOk else VErr.   (* longer: crypto.SigToPub refuses *)

(* VerifyBid(bid), bid <> nil *)
Definition verify_bid_in (f : fixes) (b : bid_in) : vout :=
  match bi_dig b, bi_sig b with
  | Some _, Some n =>
      if negb (bi_amt_ok b) then VErr                         (* GetBidHash: invalid bid amount *)
      else eip_verify_in f (bi_hash_ok b) n (bi_sig_ok b)
  | _, _ => VErr                                              (* ErrMissingHashSignature *)
  end.

(* VerifyPreConfirmation(c), c <> nil *)
Definition verify_preconf_in (f : fixes) (c : preconf_in) : vout :=
  match pi_dig c, pi_sig c with
  | Some _, Some n =>
      match pi_bid c with
      | None => if f_nilbid f then VErr else VPanic           (* VerifyBid(nil): bid.Digest *)
      | Some b =>
          match verify_bid_in f b with
          | VOk => eip_verify_in f (pi_hash_ok c) n (pi_sig_ok c)   (* the amount parsed: GetPreConfirmationHash succeeds *)
          | o => o
          end
      end
  | _, _ => VErr
  end.

(* ---- pkg/signer/signer.go: Verify(signature, message) -- the handshake's signature check ------------
     messageHash := Keccak256Hash(message)
     pub, err := crypto.SigToPub(messageHash, signature); if err != nil { return false, {}, err }
     addr := PubkeyToAddress of the key pointed to    // pub is non-nil when err == nil
     verified := crypto.VerifySignature(FromECDSAPub(pub), messageHash, signature[:len(signature)-1])
   The one panic-prone operation is the slice expression: for an empty signature its upper bound is -1.
   It is only reached when SigToPub accepted the signature. *)
Definition signer_verify (K : bytes -> bytes) (cr : Signer.crypto) (sig msg : bytes) : outcome (bool * bytes) :=
  let h := K msg in
  match Signer.recover cr h sig with
  | Panic => Panic
  | Err _ => Err 1
  | Ok pub =>
      match sig with
      | [] => Panic                                        (* signature[:-1] *)
      | _ => Ok (Signer.verify_rs cr pub h (removelast sig), Signer.addr_of cr pub)
      end
  end.

(* ---- handshake.go with the real signature check plugged in ---------------------------------------------------
   model/Handshake.v takes signer.Verify as an oracle without a crash outcome.  Here the oracle is
   signer_verify (which has one), and the run is a crash exactly when one of the Verify calls the handler
   made is one: Handle / Handshake call nothing else that can panic (see Properties/C06.v). *)
From MevVerif Require model.Handshake.
Definition vres_of (o : outcome (bool * bytes)) : Handshake.vres :=
  match o with Ok (v, a) => Handshake.VOk v a | _ => Handshake.VErr end.
Definition is_panic {A} (o : outcome A) : bool := match o with Panic => true | _ => false end.
Definition hs_oracles (K : bytes -> bytes) (cr : Signer.crypto) (pid : Handshake.pres) (reg : bytes -> bool)
  : Handshake.oracles :=
  {| Handshake.verify := fun sig data => vres_of (signer_verify K cr sig data);
     Handshake.addr_of_pid := pid; Handshake.registered := reg |}.
Definition hs_guard K cr (r : Handshake.run) : outcome Handshake.run :=
  if existsb (fun sd => is_panic (signer_verify K cr (fst sd) (snd sd))) (Handshake.verifies r) then Panic else Ok r.
(* Service.Handle / Service.Handshake over a script of incoming frames *)
Definition handle_outcome K cr c pid reg wfail script : outcome Handshake.run :=
  hs_guard K cr (Handshake.handle c (hs_oracles K cr pid reg) wfail script).
Definition handshake_outcome K cr c pid reg wfail script : outcome Handshake.run :=
  hs_guard K cr (Handshake.handshake c (hs_oracles K cr pid reg) wfail script).


(* ---- stream.go ReadMsg on one delivered frame, as an outcome (model/Framing.v decides the class) ------------------
   payload handed to the inner Unmarshal | nil error without payload | an error.  No crash branch exists. *)
From MevVerif Require model.Framing.
Definition read_msg_outcome (fr : bytes) : outcome (option bytes) :=
  match Framing.read_msg fr with
  | Framing.RData d => Ok (Some d)
  | Framing.ROkNoData => Ok None
  | Framing.RStatus _ => Err 1
  | Framing.RNeither => Err 2
  | Framing.RMalformed => Err 3
  | Framing.RUnspec => Err 4
  end.

(* ---- pkg/discovery: the pool of check workers and its weighted semaphore ----------------------------------------
     handlePeersList   select { case d.checkPeers <- p: (PSend) ; case <-ctx.Done(): return (PCancel) }
     checkAndAddPeers  peer := <-d.checkPeers ; sem.Acquire(Background, 1) (PAcquire: returns once held < cap) ;
                       go func() { defer sem.Release(1) ; Connect ; AddPeers }()   (PDone: the worker returns)
   Weighted.Release panics when more is released than is held.  [release_on_cancel] is the seeded variant in
   which the handler gives back a slot on its ctx.Done branch. *)
Record pool := { held : N; workers : N; queued : N }.
Definition pool_init : pool := {| held := 0; workers := 0; queued := 0 |}.
Inductive pool_event := PSend | PCancel | PAcquire | PDone.
Definition pool_step (cap : N) (release_on_cancel : bool) (s : pool) (e : pool_event) : outcome pool :=
  match e with
  | PSend => Ok {| held := held s; workers := workers s; queued := queued s + 1 |}
  | PCancel =>
      if release_on_cancel
      then if held s =? 0 then Panic else Ok {| held := held s - 1; workers := workers s; queued := queued s |}
      else Ok s
  | PAcquire =>
      if (0 <? queued s) && (held s <? cap)
      then Ok {| held := held s + 1; workers := workers s + 1; queued := queued s - 1 |}
      else Ok s
  | PDone =>
      if workers s =? 0 then Ok s
      else if held s =? 0 then Panic
           else Ok {| held := held s - 1; workers := workers s - 1; queued := queued s |}
  end.
Fixpoint pool_run (cap : N) (roc : bool) (s : pool) (evs : list pool_event) : outcome pool :=
  match evs with
  | [] => Ok s
  | e :: r => match pool_step cap roc s e with Ok s' => pool_run cap roc s' r | Err c => Err c | Panic => Panic end
  end.


(* ---- libp2p.go: handleConnectReq / Connect around the handshake, on the registry and the block list ------------- *)
From MevVerif Require model.PeerRegistry model.Blocklist.
Record node := { n_reg : PeerRegistry.reg; n_blocks : Blocklist.bmap }.
(* one connection attempt: direction, the remote's transport id (as the block list keys it), the connection, whether
   it has closed by the time addPeer runs, the clock, and what the handshake sees *)
Record attempt := {
  at_inbound : bool; at_pid : Blocklist.pid; at_conn : PeerRegistry.conn; at_closed : bool; at_now : Z;
  at_cfg : Handshake.config; at_pres : Handshake.pres; at_registered : bytes -> bool;
  at_wfail : nat -> bool; at_script : list Handshake.frame }.

Definition block_after (inbound : bool) (m : Blocklist.bmap) (p : Blocklist.pid) (now : Z) (cl : Handshake.refusal) : Blocklist.bmap :=
  match Handshake.block_effects (if inbound then c04_inbound_durations else c04_outbound_durations) cl with
  | [Handshake.EBlock d] => Blocklist.block_peer m p d now
  | _ => m
  end.

(* handleConnectReq (inbound) / Connect from the opened handshake stream on (outbound) *)
Definition connect_wrapper (K : bytes -> bytes) (cr : Signer.crypto) (mkpeer : bytes -> Z -> PeerRegistry.peer)
           (nd : node) (a : attempt) : outcome node :=
  let ho := if at_inbound a
            then handle_outcome K cr (at_cfg a) (at_pres a) (at_registered a) (at_wfail a) (at_script a)
            else handshake_outcome K cr (at_cfg a) (at_pres a) (at_registered a) (at_wfail a) (at_script a) in
  match ho with
  | Panic => Panic
  | Err e => Err e
  | Ok r =>
      match Handshake.res r with
      | Handshake.Refuse cl =>
          Ok {| n_reg := n_reg nd; n_blocks := block_after (at_inbound a) (n_blocks nd) (at_pid a) (at_now a) cl |}
      | Handshake.Enrol addr t =>
          Ok {| n_reg := fst (PeerRegistry.add_peer (n_reg nd) (at_conn a) (mkpeer addr t) (at_closed a));
                n_blocks := n_blocks nd |}
      end
  end.

Fixpoint connect_run K cr mkpeer (nd : node) (l : list attempt) : outcome node :=
  match l with
  | [] => Ok nd
  | a :: r => match connect_wrapper K cr mkpeer nd a with
              | Ok nd' => connect_run K cr mkpeer nd' r
              | Err e => Err e
              | Panic => Panic
              end
  end.


(* ---- handshake -------------------------------------------------------------------------------------- *)
(* what the k-th ReadMsg of Handle / Handshake yields *)
Inductive hs_read :=
| HsErr                                       (* the read fails: reset, end of stream, undecodable, error frame *)
| HsReq (role_known : bool) (toklen siglen : N) (sig_ok : bool)   (* a HandshakeReq *)
| HsResp (addrlen rolelen : N).               (* a HandshakeResp *)

(* ---- discovery -------------------------------------------------------------------------------------- *)
Record peerinfo_in := { pe_addrlen : N; pe_underlay : N }.

(* ---- frames ------------------------------------------------------------------------------------------ *)
Inductive frame_class :=
| FValid           (* well-formed frame of the expected type *)
| FWrongOuter      (* valid protobuf of another message type where the envelope / header is expected *)
| FWrongInner      (* envelope fine, payload is a valid protobuf of another message type *)
| FUndecodable     (* random bytes inside a well-delimited frame *)
| FZeroLen         (* length prefix 0 *)
| FOversized       (* length prefix above the 8 MiB limit *)
| FTruncated       (* fewer bytes than announced, then end of stream *)
| FErrorFrame      (* an error envelope *)
| FNoBody          (* envelope with neither data nor error *)
| FEof             (* nothing at all / fewer than four prefix bytes *)
| FRandom.         (* raw random bytes, prefix included *)

(* SendBid: what the stream to one provider answers *)
Inductive reply_in := RpErr | RpFrame (c : preconf_in).

(* end-to-end: a raw libp2p host against a real Service *)
Inductive e2e_class :=
| E2Honest         (* a complete valid handshake (control: no failure counted) *)
| E2Garbage        (* random bytes on the handshake stream *)
| E2ForeignSig     (* request signed with a key that is not the transport key *)
| E2ShortSig       (* request with a truncated signature *)
| E2CloseEarly     (* stream closed / reset before or in the middle of the exchange *)
| E2Oversized      (* length prefix above the limit *)
| E2WrongType      (* a valid message of the wrong type *)
| E2BadEcho        (* valid request, then an echo that is not ours *)
| E2NonSecpIdentity (* the remote's transport identity is an Ed25519 / RSA / ECDSA-P256 key (no Ethereum address can
                        be derived from its peer id); it sends a request correctly signed with some secp256k1 key *)
| E2UnknownRole.   (* a complete valid handshake (right key, right signature over role ++ token) whose role
                      string is none of the three known ones: the peer is enrolled with type -1 and handed
                      to the topology (inbound: notifier.Connected; outbound: discovery's AddPeers) *)
Definition e2e_fails (c : e2e_class) : bool :=
  match c with E2Honest | E2UnknownRole => false | _ => true end.
Definition e2e_hostile (c : e2e_class) : bool := match c with E2Honest => false | _ => true end.

Inductive entry_input :=
| EVerifyBid (b : bid_in)
| EVerifyPreconf (c : preconf_in)
| EConstructPreconf (b : bid_in)
| ESignerVerify (siglen msglen : N)
| EHsHandle (reads : list hs_read) (wfails : list N)
| EHsInitiate (reads : list hs_read) (wfails : list N)
| EPeersList (read : option (list peerinfo_in))
(* discovery with all its check workers busy: [lists] concurrent PeerLists of [n] unknown entries whose dials do
   not return, the stream context cancelled while the handlers wait behind the workers, then the dials end *)
| EPeersListStalled (n lists : N)
| EHandleBid (role_bidder : bool) (read : option bid_in) (allow : bool) (status : Z)
| ESendBidReply (replies : list reply_in)
| EApiCommitments (replies : list reply_in)
| EReadMsg (fc : frame_class)
| EReadHeader (fc : frame_class)
| EUnmarshal (msgtype len : N)
| EConnect (len : N)
| EE2EInbound (has_registry : bool) (cls : e2e_class)
| EE2EOutbound (has_registry : bool) (cls : e2e_class)
(* several hostile hosts at once for a while: handshake streams opened and abandoned, a registered
   peer repeating valid handshakes, unregistered peers opening protocol streams *)
| EE2EStress (has_registry : bool)
(* p2p.PeerType(t).String() / p2p.FromString on any text; a real Topology fed (Connected, AddPeers,
   Disconnected, GetPeers) with peers of these types, known or not *)
| EPeerType (t : Z)
| ETopologyPeers (types : list Z)
(* GetEthAddressFromPeerID on a peer id of kind: 0 secp256k1, 1 Ed25519, 2 RSA, 3 ECDSA-P256, 4 secp256k1-shaped
   identity id whose key bytes are not a curve point, 5 hashed (non-identity) id, 6 the empty id, 7 other bytes *)
| EPeerIDAddress (kind : N)
(* in one process, several goroutines at once: the block list (blockPeer / isBlocked / BlockedPeers, with timed
   blocks that expire at once) resp. the protocol matcher on version strings never seen before *)
| EBlockStress
| EMatchStress.

(* ---- where the Go code panics ---------------------------------------------------------------------- *)

Definition vpanics (o : vout) : bool := match o with VPanic => true | _ => false end.

(* handleBid: role, ReadMsg, VerifyBid, allowance, ProcessBid, status; on ACCEPTED
   ConstructPreConfirmation(bid) = VerifyBid again on the same value, then the node's own key *)
Definition handle_bid_panics (f : fixes) (role_bidder : bool) (read : option bid_in) : bool :=
  if negb role_bidder then false
  else match read with
       | None => false
       | Some b => vpanics (verify_bid_in f b)
       end.

Definition reply_panics (f : fixes) (r : reply_in) : bool :=
  match r with RpErr => false | RpFrame c => vpanics (verify_preconf_in f c) end.

(* a commitment is surfaced by SendBid only if VerifyPreConfirmation returned an address *)
Definition surfaced (f : fixes) (r : reply_in) : option preconf_in :=
  match r with
  | RpFrame c => match verify_preconf_in f c with VOk => Some c | _ => None end
  | RpErr => None
  end.
(* bidderapi SendBid: b := resp.Bid; ... b.TxHash ...  panics when a surfaced commitment has no bid *)
Definition api_map_panics (c : preconf_in) : bool :=
  match pi_bid c with None => true | Some _ => false end.

Definition panics_gen (f : fixes) (i : entry_input) : bool :=
  match i with
  | EVerifyBid b => vpanics (verify_bid_in f b)
  | EVerifyPreconf c => vpanics (verify_preconf_in f c)
  | EConstructPreconf b => vpanics (verify_bid_in f b)
  | ESignerVerify _ _ => false              (* crypto.SigToPub refuses every length but 65 before the slicing *)
  | EHsHandle _ _ => false
  | EHsInitiate _ _ => false
  | EPeersList _ => false
  | EPeersListStalled _ _ => false
  | EHandleBid role read _ _ => handle_bid_panics f role read
  | ESendBidReply rs => existsb (reply_panics f) rs
  | EApiCommitments rs =>
      existsb (reply_panics f) rs ||
      existsb (fun r => match surfaced f r with Some c => api_map_panics c | None => false end) rs
  | EReadMsg _ => false
  | EReadHeader _ => false
  | EUnmarshal _ _ => false
  | EConnect _ => false
  | EE2EInbound reg cls => negb (f_metrics f) && negb reg && e2e_fails cls
  | EE2EOutbound reg cls => negb (f_metrics f) && negb reg && e2e_fails cls
  | EE2EStress reg => negb (f_metrics f) && negb reg     (* the abandoned handshakes fail *)
  | EPeerType _ => false
  | ETopologyPeers _ => false
  | EPeerIDAddress _ => false
  | EBlockStress | EMatchStress => false
  end.

Definition panics : entry_input -> bool := panics_gen fixes_now.
Definition panics_v0 : entry_input -> bool := panics_gen fixes_v0.

(* ---- result classes where the summary determines them (0 = no error, 1 = error) -------------------- *)
Definition vclass (o : vout) : option N :=
  match o with VOk => Some 0 | VErr => Some 1 | VPanic => None end.

Definition expected_result (i : entry_input) : option N :=
  match i with
  | EVerifyBid b => vclass (verify_bid_in fixes_now b)
  | EVerifyPreconf c => vclass (verify_preconf_in fixes_now c)
  | EConstructPreconf b => vclass (verify_bid_in fixes_now b)
  | ESignerVerify n _ => if n =? 65 then None else Some 1
  | EHsHandle [] _ | EHsHandle (HsErr :: _) _ | EHsHandle (HsResp _ _ :: _) _ => Some 1
  | EHsInitiate [] _ | EHsInitiate (HsErr :: _) _ => Some 1
  | EPeersList None => Some 1
  | EReadMsg FValid => Some 0
  | EReadMsg FWrongInner => None
  | EReadMsg FWrongOuter => None
  | EReadMsg FRandom => None
  | EReadMsg FErrorFrame => None          (* a status with code OK yields a nil error *)
  | EReadMsg _ => Some 1
  | EReadHeader FValid => Some 0
  | EReadHeader (FOversized | FTruncated | FEof) => Some 1
  (* end to end the result class is the liveness probe: after the hostile exchange an honest
     peer still completes its handshake and is registered (0) *)
  | EE2EInbound _ _ | EE2EOutbound _ _ | EE2EStress _ | EPeersListStalled _ _ | EBlockStress | EMatchStress => Some 0
  | EPeerIDAddress k => if k =? 0 then Some 0 else if k =? 7 then None else Some 1
  | _ => None
  end.

(* ---- names ------------------------------------------------------------------------------------------ *)
Definition entry_name (i : entry_input) : string :=
  match i with
  | EVerifyBid _ => "verify-bid"
  | EVerifyPreconf _ => "verify-preconf"
  | EConstructPreconf _ => "construct-preconf"
  | ESignerVerify _ _ => "signer-verify"
  | EHsHandle _ _ => "handshake-handle"
  | EHsInitiate _ _ => "handshake-initiate"
  | EPeersList _ => "peers-list"
  | EPeersListStalled _ _ => "peers-list"
  | EHandleBid _ _ _ _ => "handle-bid"
  | ESendBidReply _ => "send-bid-reply"
  | EApiCommitments _ => "bidder-api-commitments"
  | EReadMsg _ => "read-msg"
  | EReadHeader _ => "read-header"
  | EUnmarshal _ _ => "unmarshal"
  | EConnect _ => "connect-underlay"
  | EE2EInbound _ _ => "e2e-inbound-handshake"
  | EE2EOutbound _ _ => "e2e-outbound-handshake"
  | EE2EStress _ => "e2e-stress"
  | EPeerType _ => "peer-type"
  | ETopologyPeers _ => "topology-peers"
  | EPeerIDAddress _ => "peer-id-address"
  | EBlockStress => "block-stress"
  | EMatchStress => "match-stress"
  end%string.

(* the clause key of an observed panic: the three repaired defects keep the key under which they
   are recorded; anything else is named after the entry *)
Definition panic_key (i : entry_input) : string :=
  if panics_gen without_siglen i then "panic:verify-short-signature"
  else if panics_gen without_nilbid i then "panic:verify-preconf-nil-bid"
  else if panics_gen without_metrics i then "panic:handshake-failure-nil-metrics"
  else ("panic:" ++ entry_name i)%string.

(* ---- which inputs are hostile (anything an honest peer would not send) ------------------------------ *)
Definition bid_honest (b : bid_in) : bool := bi_sig_ok b.
Definition preconf_honest (c : preconf_in) : bool :=
  match pi_bid c with Some b => bid_honest b && pi_sig_ok c | None => false end.
Definition frame_honest (fc : frame_class) : bool := match fc with FValid => true | _ => false end.

Definition hostile (i : entry_input) : bool :=
  match i with
  | EVerifyBid b | EConstructPreconf b => negb (bid_honest b)
  | EVerifyPreconf c => negb (preconf_honest c)
  | ESignerVerify _ _ => true
  | EHsHandle _ _ | EHsInitiate _ _ => true
  | EPeersList _ => true
  | EPeersListStalled _ _ => true
  | EHandleBid _ read _ _ => match read with Some b => negb (bid_honest b) | None => true end
  | ESendBidReply rs | EApiCommitments rs =>
      existsb (fun r => match r with RpErr => true | RpFrame c => negb (preconf_honest c) end) rs
  | EReadMsg fc | EReadHeader fc => negb (frame_honest fc)
  | EUnmarshal _ _ => true
  | EConnect _ => true
  | EE2EInbound _ cls | EE2EOutbound _ cls => e2e_hostile cls
  | EE2EStress _ => true
  | EPeerType t => (t <? 0)%Z || (2 <? t)%Z
  | ETopologyPeers ts => existsb (fun t => (t <? 0)%Z || (2 <? t)%Z) ts
  | EPeerIDAddress k => negb (k =? 0)
  | EBlockStress | EMatchStress => true
  end.
