(* Model of bidderapi.Service.SendBid (pkg/rpc/bidder/service.go), statement by statement.
   The protovalidate validator is represented by Rules.bidder_bid_ok (the published rules of
   bidderapi.v1.Bid); the preconfirmation sender and the server stream are oracles.
   Definitions only. *)
From Coq Require Import String List NArith ZArith Bool.
From MevVerif Require Import lib.Bytes model.Rules.
Import ListNotations.
Open Scope N_scope.

Definition comma : N := 44.
(* the separator of SendBid's strings.Join / strings.Split calls; proofs/BidderApi_proofs.v
   ties it to the literals extracted from service.go (gen/Generated.v) -- kept out of this
   file so that the model still runs when an anchor disappears from the source *)
Definition join_sep : N := comma.
Definition split_sep : N := comma.

(* bidderapi.v1.Bid as received *)
Record request := { r_txs : list bytes; r_amount : bytes; r_bn : Z; r_ds : Z; r_de : Z }.

(* what the service hands to PreconfSender.SendBid (which signs the bid and sends it out) *)
Record forwarded := { f_txs : bytes; f_amount : bytes; f_bn : Z; f_ds : Z; f_de : Z }.

(* preconfirmation.v1.Bid / PreConfirmation as they come back on the sender's channel; the
   embedded bid is a pointer that may be nil, and so is every channel element *)
Record pbid := { pb_tx : bytes; pb_amount : bytes; pb_bn : Z; pb_ds : Z; pb_de : Z;
                 pb_digest : bytes; pb_sig : bytes }.
Record preconf := { pc_bid : option pbid; pc_digest : bytes; pc_sig : bytes; pc_prov : bytes }.

(* answer of the sender oracle: an error, or a channel that delivers these elements and is
   then closed *)
Inductive sender_answer := SenderFails | SenderReturns (cs : list (option preconf)).

(* bidderapi.v1.Commitment as streamed to the client (all strings) *)
Record commitment := { cm_txs : list bytes; cm_amount : bytes; cm_bn : Z;
                       cm_bid_digest : bytes; cm_bid_sig : bytes;
                       cm_digest : bytes; cm_sig : bytes; cm_prov : bytes;
                       cm_ds : Z; cm_de : Z }.

(* how SendBid ends: nil | status InvalidArgument | status Internal | the error srv.Send
   returned | a Go panic *)
Inductive result := RNil | RInvalidArgument | RInternal | RStreamErr | RPanic.

Record run := { res : result;
                calls : list forwarded;         (* calls of sender.SendBid, in order *)
                streamed : list commitment }.   (* messages handed to srv.Send, in order *)

(* s.validator.Validate(bid): a nil request has every field at its zero value and is refused *)
Definition validate (req : option request) : bool :=
  match req with
  | None => false
  | Some r => bidder_bid_ok (r_txs r) (r_amount r) (r_bn r) (r_ds r) (r_de r)
  end.

(* the arguments of s.sender.SendBid(ctx, txnsStr, bid.Amount, bid.BlockNumber, ...) *)
Definition forward (r : request) : forwarded :=
  {| f_txs := join join_sep (r_txs r); f_amount := r_amount r;
     f_bn := r_bn r; f_ds := r_ds r; f_de := r_de r |}.

(* the message built in the loop body from resp and b := resp.Bid *)
Definition commitment_of (p : preconf) (b : pbid) : commitment :=
  {| cm_txs := split split_sep (pb_tx b); cm_amount := pb_amount b; cm_bn := pb_bn b;
     cm_bid_digest := hex (pb_digest b); cm_bid_sig := hex (pb_sig b);
     cm_digest := hex (pc_digest p); cm_sig := hex (pc_sig p); cm_prov := hex (pc_prov p);
     cm_ds := pb_ds b; cm_de := pb_de b |}.

Definition pred_opt (o : option nat) : option nat :=
  match o with Some (S k) => Some k | _ => None end.

(* for resp := range respC { b := resp.Bid; err := srv.Send(&Commitment{... b.TxHash ...}) ... }
   [fail_at] : index of the first srv.Send call that returns an error (stream oracle).
   resp == nil or resp.Bid == nil is a nil-pointer dereference: Panic. *)
Fixpoint stream_loop (cs : list (option preconf)) (fail_at : option nat) : result * list commitment :=
  match cs with
  | [] => (RNil, [])
  | None :: _ => (RPanic, [])
  | Some p :: rest =>
      match pc_bid p with
      | None => (RPanic, [])
      | Some b =>
          let m := commitment_of p b in
          match fail_at with
          | Some O => (RStreamErr, [m])
          | _ => let rm := stream_loop rest (pred_opt fail_at) in (fst rm, m :: snd rm)
          end
      end
  end.

Definition send_bid (req : option request) (ans : sender_answer) (fail_at : option nat) : run :=
  match req with
  | None => {| res := RInvalidArgument; calls := []; streamed := [] |}
  | Some r =>
      if negb (validate req) then {| res := RInvalidArgument; calls := []; streamed := [] |}
      else
        match ans with
        | SenderFails => {| res := RInternal; calls := [forward r]; streamed := [] |}
        | SenderReturns cs =>
            let rm := stream_loop cs fail_at in
            {| res := fst rm; calls := [forward r]; streamed := snd rm |}
        end
  end.
